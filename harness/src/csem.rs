//! E3b — evaluator for the parsed C-like text (`ctext`), under HLSL's or Metal's (C++) rules:
//! literal typing by suffix, usual arithmetic conversions, conversion on initialisation /
//! assignment / argument passing / return, short-circuit `&&`/`||`, lazy ternary, HLSL
//! copy-in/copy-out for `out`/`inout`, Metal reference parameters as aliases, aggregate
//! initialisers by flattening, switch with fallthrough, and per-dialect builtin name tables
//! that map onto the canonical operations in `vals`.

use crate::ctext::*;
use crate::vals::*;
use std::collections::HashMap;

#[derive(Clone, Copy, Debug, PartialEq)]
pub enum Dialect {
    Hlsl,
    Msl,
}

#[derive(Debug)]
pub enum Stop {
    /// outside what this evaluator models: counted, never a violation
    Unsupported(String),
    Fuel,
    /// the text is not meaningful under the dialect's rules (unknown name, no matching
    /// function, reference bound to an rvalue, ...): a violation candidate
    Bad(String),
}

type R<T> = Result<T, Stop>;

fn unsupported<T>(s: impl Into<String>) -> R<T> {
    Err(Stop::Unsupported(s.into()))
}
fn bad<T>(s: impl Into<String>) -> R<T> {
    Err(Stop::Bad(s.into()))
}

#[derive(Clone, Debug, PartialEq)]
pub enum Ty {
    Void,
    Num(K, usize),
    /// scalar and one-component vector are told apart only where it matters
    Struct(usize),
    Enum(usize),
    Array(Box<Ty>, usize),
    TrueType,
}

#[derive(Clone, Debug, PartialEq)]
enum Step {
    Field(usize),
    Index(usize),
    Swizzle(Vec<usize>),
}

#[derive(Clone, Debug)]
struct Place {
    slot: usize,
    path: Vec<Step>,
    ty: Ty,
    is_const: bool,
}

enum Flow {
    Normal,
    Break,
    Continue,
    Return(V),
}

pub enum Arg {
    /// by-value argument
    Val(V),
    /// storage the callee may write (out / inout / reference): initial value
    Cell(V),
}

pub struct Sem<'u> {
    pub u: &'u Unit,
    pub d: Dialect,
    store: Vec<V>,
    scopes: Vec<HashMap<String, Place>>,
    globals: HashMap<String, Place>,
    pub fuel: u64,
    depth: usize,
    ret_stack: Vec<Ty>,
    ns_stack: Vec<Vec<String>>,
    this_stack: Vec<Option<(Place, usize)>>,
}

fn get_path(v: &V, path: &[Step]) -> R<V> {
    let Some((first, rest)) = path.split_first() else { return Ok(v.clone()) };
    match (first, v) {
        (Step::Field(i), V::Struct(f)) => get_path(f.get(*i).ok_or_else(|| Stop::Unsupported("field index".into()))?, rest),
        (Step::Index(i), V::Array(a)) | (Step::Index(i), V::Vec(a)) => {
            // out-of-range accesses are excluded by the generator; both evaluators clamp
            let idx = (*i).min(a.len().saturating_sub(1));
            get_path(&a[idx], rest)
        }
        (Step::Swizzle(s), V::Vec(c)) => {
            let r = if s.len() == 1 { c.get(s[0]).cloned().ok_or_else(|| Stop::Bad("swizzle component out of range".into()))? } else { V::Vec(s.iter().map(|i| c.get(*i).cloned()).collect::<Option<Vec<_>>>().ok_or_else(|| Stop::Bad("swizzle component out of range".into()))?) };
            get_path(&r, rest)
        }
        (Step::Swizzle(s), scalar) if scalar.is_scalar() => {
            if s.iter().any(|i| *i != 0) {
                return bad("swizzle component out of range on a scalar");
            }
            let r = if s.len() == 1 { scalar.clone() } else { V::Vec(vec![scalar.clone(); s.len()]) };
            get_path(&r, rest)
        }
        (s, v) => unsupported(format!("path step {:?} on {}", s, show(v))),
    }
}

fn set_path(v: &mut V, path: &[Step], new: V) -> R<()> {
    let Some((first, rest)) = path.split_first() else {
        *v = new;
        return Ok(());
    };
    match (first, v) {
        (Step::Field(i), V::Struct(f)) => set_path(f.get_mut(*i).ok_or_else(|| Stop::Unsupported("field index".into()))?, rest, new),
        (Step::Index(i), V::Array(a)) | (Step::Index(i), V::Vec(a)) => {
            let idx = (*i).min(a.len().saturating_sub(1));
            set_path(&mut a[idx], rest, new)
        }
        (Step::Swizzle(s), V::Vec(c)) => {
            if !rest.is_empty() {
                return unsupported("path below a swizzle store");
            }
            if s.len() == 1 {
                *c.get_mut(s[0]).ok_or_else(|| Stop::Bad("swizzle component out of range".into()))? = new;
            } else if let V::Vec(n) = new {
                if n.len() != s.len() {
                    return bad("swizzle store of a vector with a different size");
                }
                for (k, i) in s.iter().enumerate() {
                    c[*i] = n[k].clone();
                }
            } else {
                return bad("swizzle store of a scalar to several components");
            }
            Ok(())
        }
        (Step::Swizzle(s), scalar) if scalar.is_scalar() && s == &[0] && rest.is_empty() => {
            *scalar = new;
            Ok(())
        }
        (s, v) => unsupported(format!("store path step {:?} on {}", s, show(v))),
    }
}

fn swizzle_indices(m: &str) -> Option<Vec<usize>> {
    if m.is_empty() || m.len() > 4 {
        return None;
    }
    let xyzw: Option<Vec<usize>> = m.chars().map(|c| "xyzw".find(c)).collect();
    if xyzw.is_some() {
        return xyzw;
    }
    m.chars().map(|c| "rgba".find(c)).collect()
}

impl<'u> Sem<'u> {
    pub fn new(u: &'u Unit, d: Dialect) -> Sem<'u> {
        Sem { u, d, store: Vec::new(), scopes: Vec::new(), globals: HashMap::new(), fuel: 400_000, depth: 0, ret_stack: Vec::new(), ns_stack: Vec::new(), this_stack: Vec::new() }
    }

    fn tick(&mut self) -> R<()> {
        if self.fuel == 0 {
            return Err(Stop::Fuel);
        }
        self.fuel -= 1;
        Ok(())
    }

    pub fn ty(&self, t: &TyE) -> R<Ty> {
        Ok(match t {
            TyE::Void => Ty::Void,
            TyE::Num(k, n) => Ty::Num(*k, *n),
            TyE::TrueType => Ty::TrueType,
            TyE::Named(n) => {
                if let Some(i) = self.u.structs.iter().position(|s| &s.name == n) {
                    Ty::Struct(i)
                } else if let Some(i) = self.u.enums.iter().position(|s| &s.name == n) {
                    Ty::Enum(i)
                } else {
                    return bad(format!("unknown type {}", n));
                }
            }
        })
    }

    fn with_dims(&self, t: Ty, dims: &[usize]) -> Ty {
        // `T a[2][3]` is an array of 2 arrays of 3
        let mut t = t;
        for d in dims.iter().rev() {
            t = Ty::Array(Box::new(t), *d);
        }
        t
    }

    pub fn zero(&self, t: &Ty) -> R<V> {
        Ok(match t {
            Ty::Void | Ty::TrueType => V::Void,
            Ty::Num(k, 1) => V::zero(*k),
            Ty::Num(k, n) => V::Vec(vec![V::zero(*k); *n]),
            Ty::Enum(_) => V::Enum(0),
            Ty::Struct(i) => {
                let mut f = Vec::new();
                for (ft, _, dims) in &self.u.structs[*i].fields {
                    let t = self.with_dims(self.ty(ft)?, dims);
                    f.push(self.zero(&t)?);
                }
                V::Struct(f)
            }
            Ty::Array(inner, n) => V::Array(vec![self.zero(inner)?; *n]),
        })
    }

    /// implicit / explicit conversion of a value of type `from` to type `to`
    fn convert(&self, v: &V, from: &Ty, to: &Ty, explicit: bool) -> R<V> {
        match (from, to) {
            (_, Ty::Num(k, n)) if matches!(from, Ty::Num(..) | Ty::Enum(_)) => {
                if let Ty::Num(_, m) = from {
                    if *m != *n && *m != 1 && *n > *m {
                        return bad(format!("conversion from a {}-vector to a {}-vector", m, n));
                    }
                    if self.d == Dialect::Msl && *m != *n && *m != 1 {
                        return bad(format!("Metal has no conversion from a {}-vector to a {}-vector", m, n));
                    }
                }
                Ok(conv(v, *k, *n))
            }
            (Ty::Num(_, 1), Ty::Enum(_)) => {
                if !explicit {
                    return bad("implicit conversion from a number to an enum");
                }
                Ok(conv_scalar(v, K::Enum))
            }
            // HLSL: a scalar cast to an aggregate fills every leaf ((S)0)
            (Ty::Num(_, 1), Ty::Struct(_)) | (Ty::Num(_, 1), Ty::Array(..)) if explicit && self.d == Dialect::Hlsl => {
                let s = match v {
                    V::Vec(c) => c[0].clone(),
                    o => o.clone(),
                };
                let leaves = vec![s; self.leaf_count(to)?];
                self.fill(to, &mut leaves.into_iter())
            }
            // HLSL: an aggregate cast to a scalar gives the first leaf ((int)arr)
            (Ty::Struct(_), Ty::Num(k, 1)) | (Ty::Array(..), Ty::Num(k, 1)) if explicit && self.d == Dialect::Hlsl => {
                fn first_leaf(v: &V) -> Option<V> {
                    match v {
                        V::Array(items) | V::Struct(items) => items.iter().find_map(first_leaf),
                        V::Vec(items) => items.first().cloned(),
                        V::Void => None,
                        other => Some(other.clone()),
                    }
                }
                match first_leaf(v) {
                    Some(l) => Ok(conv(&l, *k, 1)),
                    None => bad("cast of an aggregate without elements to a scalar"),
                }
            }
            (Ty::Enum(a), Ty::Enum(b)) if a == b => Ok(v.clone()),
            (Ty::Struct(a), Ty::Struct(b)) if a == b => Ok(v.clone()),
            (Ty::Array(a, n), Ty::Array(b, m)) if a == b && n == m => Ok(v.clone()),
            (Ty::TrueType, Ty::TrueType) | (Ty::Void, Ty::Void) => Ok(v.clone()),
            (a, b) => bad(format!("no conversion from {:?} to {:?}", a, b)),
        }
    }

    fn leaf_count(&self, t: &Ty) -> R<usize> {
        Ok(match t {
            Ty::Num(_, n) => *n,
            Ty::Enum(_) => 1,
            Ty::Struct(i) => {
                let mut n = 0;
                for (ft, _, dims) in &self.u.structs[*i].fields {
                    let t = self.with_dims(self.ty(ft)?, dims);
                    n += self.leaf_count(&t)?;
                }
                n
            }
            Ty::Array(inner, n) => n * self.leaf_count(inner)?,
            Ty::Void | Ty::TrueType => 0,
        })
    }

    fn type_of_value(&self, v: &V) -> Ty {
        match v {
            V::Vec(c) => Ty::Num(c.first().and_then(|x| x.kind()).unwrap_or(K::Float), c.len()),
            V::Void => Ty::Void,
            other => Ty::Num(other.kind().unwrap_or(K::Int), 1),
        }
    }

    // ---- names

    fn lookup(&self, name: &str) -> Option<Place> {
        // ::name : the root scope only
        if let Some(root) = name.strip_prefix("::") {
            return self.globals.get(root).cloned();
        }
        for s in self.scopes.iter().rev() {
            if let Some(p) = s.get(name) {
                return Some(p.clone());
            }
        }
        // members of the object of the running method
        if let Some(Some((pl, si))) = self.this_stack.last() {
            let sd = &self.u.structs[*si];
            if let Some(fi) = sd.fields.iter().position(|f| f.1 == name) {
                if let Ok(t) = self.ty(&sd.fields[fi].0) {
                    let ft = self.with_dims(t, &sd.fields[fi].2);
                    let mut path = pl.path.clone();
                    path.push(Step::Field(fi));
                    return Some(Place { slot: pl.slot, path, ty: ft, is_const: pl.is_const });
                }
            }
        }
        // namespace-scope variables: unqualified (or partly qualified) names are looked up outward from the namespace
        // of the running function
        let mut prefix: Vec<String> = self.ns_stack.last().cloned().unwrap_or_default();
        loop {
            let full = if prefix.is_empty() { name.to_string() } else { format!("{}::{}", prefix.join("::"), name) };
            if let Some(p) = self.globals.get(&full) {
                return Some(p.clone());
            }
            if prefix.is_empty() {
                return None;
            }
            prefix.pop();
        }
    }

    fn enum_value(&mut self, name: &str) -> R<Option<(V, Ty)>> {
        let name = name.strip_prefix("::").unwrap_or(name);
        let (scope, value) = match name.rsplit_once("::") {
            Some((s, v)) => (Some(s), v),
            None => (None, name),
        };
        for (ei, e) in self.u.enums.iter().enumerate() {
            if let Some(s) = scope {
                // E::A, or N::A for the unscoped value of an enum declared in N
                if s != e.name && namespace_of(&e.name).join("::") != s {
                    continue;
                }
            }
            let mut next: i32 = 0;
            for (n, init) in &e.values {
                let val = match init {
                    Some(x) => {
                        let (v, _) = self.eval(x)?;
                        match conv_scalar(&v, K::Int) {
                            V::Int(i) => i,
                            _ => 0,
                        }
                    }
                    None => next,
                };
                if n == value {
                    return Ok(Some((V::Enum(val), Ty::Enum(ei))));
                }
                next = val.wrapping_add(1);
            }
        }
        Ok(None)
    }

    fn new_slot(&mut self, v: V) -> usize {
        self.store.push(v);
        self.store.len() - 1
    }

    fn declare(&mut self, name: &str, ty: Ty, v: V, is_const: bool) {
        let slot = self.new_slot(v);
        self.scopes.last_mut().unwrap().insert(name.to_string(), Place { slot, path: Vec::new(), ty, is_const });
    }

    fn read(&self, p: &Place) -> R<V> {
        get_path(&self.store[p.slot], &p.path)
    }

    fn write(&mut self, p: &Place, v: V) -> R<()> {
        if p.is_const {
            return bad("store to a const object");
        }
        set_path(&mut self.store[p.slot], &p.path, v)
    }

    /// declaration-level rules of the dialect
    pub fn well_formed(&self) -> R<()> {
        for f in &self.u.funcs {
            let mut seen_default = false;
            for p in &f.params {
                if p.default.is_some() {
                    seen_default = true;
                    if p.mode != Mode::In {
                        return bad(format!("default argument on a reference or out parameter of {}", f.name));
                    }
                } else if seen_default && self.d == Dialect::Msl {
                    return bad(format!("parameter {} of {} has no default argument but follows one that has", p.name, f.name));
                }
            }
        }
        // one name per scope: parameters of one function, a parameter and a variable of the outermost block, two
        // variables declared in the same block
        fn block_names(ss: &[Stm], taken: &mut Vec<String>, fname: &str) -> R<()> {
            for s in ss {
                match s {
                    Stm::Decl(_, ds, _) => {
                        for d in ds {
                            if taken.contains(&d.name) {
                                return bad(format!("redefinition of a name in one scope of {}", fname));
                            }
                            taken.push(d.name.clone());
                        }
                    }
                    Stm::Block(b) => block_names(b, &mut Vec::new(), fname)?,
                    Stm::If(_, a, b) => {
                        block_names(std::slice::from_ref(a), &mut Vec::new(), fname)?;
                        if let Some(b) = b {
                            block_names(std::slice::from_ref(b), &mut Vec::new(), fname)?;
                        }
                    }
                    Stm::For(_, _, _, b) | Stm::While(_, b) | Stm::DoWhile(b, _) => block_names(std::slice::from_ref(b), &mut Vec::new(), fname)?,
                    Stm::Switch(_, b) => block_names(b, &mut Vec::new(), fname)?,
                    _ => {}
                }
            }
            Ok(())
        }
        let methods = self.u.structs.iter().flat_map(|s| s.methods.iter());
        for f in self.u.funcs.iter().chain(methods) {
            let mut taken: Vec<String> = Vec::new();
            for p in &f.params {
                if p.name.is_empty() {
                    continue;
                }
                if taken.contains(&p.name) {
                    return bad(format!("redefinition of a name in one scope of {}", f.name));
                }
                taken.push(p.name.clone());
            }
            if f.has_body {
                block_names(&f.body, &mut taken, &f.name)?;
            }
        }
        Ok(())
    }

    // ---- globals

    pub fn init_globals(&mut self) -> R<()> {
        for g in &self.u.globals {
            let ty = self.with_dims(self.ty(&g.ty)?, &g.dims);
            let v = match &g.init {
                Some(i) => self.initializer(i, &ty)?,
                None => self.zero(&ty)?,
            };
            let slot = self.new_slot(v);
            self.globals.insert(g.name.clone(), Place { slot, path: Vec::new(), ty, is_const: g.is_const });
        }
        Ok(())
    }

    pub fn global_value(&self, name: &str) -> Option<V> {
        self.globals.get(name).and_then(|p| self.read(p).ok())
    }

    pub fn global_is_const(&self, name: &str) -> Option<bool> {
        self.globals.get(name).map(|p| p.is_const)
    }

    fn flatten(&mut self, i: &Init, out: &mut Vec<V>) -> R<()> {
        match i {
            Init::Expr(e) => {
                let (v, _) = self.eval(e)?;
                flatten_value(&v, out);
            }
            Init::List(items) => {
                for x in items {
                    self.flatten(x, out)?;
                }
            }
        }
        Ok(())
    }

    fn fill(&self, ty: &Ty, leaves: &mut std::vec::IntoIter<V>) -> R<V> {
        Ok(match ty {
            Ty::Num(k, 1) => conv_scalar(&leaves.next().ok_or_else(|| Stop::Bad("too few initialiser values".into()))?, *k),
            Ty::Num(k, n) => {
                let mut c = Vec::new();
                for _ in 0..*n {
                    c.push(conv_scalar(&leaves.next().ok_or_else(|| Stop::Bad("too few initialiser values".into()))?, *k));
                }
                V::Vec(c)
            }
            Ty::Enum(_) => conv_scalar(&leaves.next().ok_or_else(|| Stop::Bad("too few initialiser values".into()))?, K::Enum),
            Ty::Struct(i) => {
                let mut f = Vec::new();
                for (ft, _, dims) in &self.u.structs[*i].fields {
                    let t = self.with_dims(self.ty(ft)?, dims);
                    f.push(self.fill(&t, leaves)?);
                }
                V::Struct(f)
            }
            Ty::Array(inner, n) => {
                let mut a = Vec::new();
                for _ in 0..*n {
                    a.push(self.fill(inner, leaves)?);
                }
                V::Array(a)
            }
            Ty::Void | Ty::TrueType => V::Void,
        })
    }

    /// C++ list initialisation of `ty` from a braced list (the Metal dialect). Aggregates take their members in order
    /// with brace elision; a clause that can initialise a whole member does so (a scalar initialises a vector member by
    /// replication, Metal's implicit scalar-to-vector conversion); a vector initialised directly by the list takes its
    /// components one by one; members without a clause are zero.
    fn cpp_list_init(&mut self, ty: &Ty, items: &[Init]) -> R<V> {
        let mut evaluated: Vec<CppClause> = Vec::new();
        for i in items {
            evaluated.push(self.cpp_clause(i)?);
        }
        let mut cursor = 0usize;
        let v = self.cpp_init_direct(ty, &evaluated, &mut cursor)?;
        if cursor < evaluated.len() {
            return bad("too many initialiser values");
        }
        Ok(v)
    }

    fn cpp_clause(&mut self, i: &Init) -> R<CppClause> {
        Ok(match i {
            Init::Expr(e) => {
                let (v, t) = self.eval(e)?;
                CppClause::Value(v, t)
            }
            Init::List(items) => {
                let mut inner = Vec::new();
                for x in items {
                    inner.push(self.cpp_clause(x)?);
                }
                CppClause::List(inner)
            }
        })
    }

    /// `ty` is initialised by the clauses of one list, starting at `cursor`
    fn cpp_init_direct(&mut self, ty: &Ty, clauses: &[CppClause], cursor: &mut usize) -> R<V> {
        match ty {
            Ty::Num(_, 1) | Ty::Enum(_) => {
                if *cursor >= clauses.len() {
                    return self.zero(ty);
                }
                self.cpp_init_member(ty, clauses, cursor)
            }
            Ty::Num(k, n) => {
                // components one by one; a vector clause contributes all of its components
                let mut comps: Vec<V> = Vec::new();
                while comps.len() < *n && *cursor < clauses.len() {
                    match &clauses[*cursor] {
                        CppClause::Value(v, Ty::Num(_, _)) => {
                            let mut flat = Vec::new();
                            flatten_value(v, &mut flat);
                            if comps.len() + flat.len() > *n {
                                return bad("too many components for a vector");
                            }
                            comps.extend(flat.iter().map(|x| conv_scalar(x, *k)));
                            *cursor += 1;
                        }
                        _ => return bad("vector component initialised by something that is not a number"),
                    }
                }
                while comps.len() < *n {
                    comps.push(V::zero(*k));
                }
                Ok(V::Vec(comps))
            }
            Ty::Struct(i) => {
                let fields: Vec<(TyE, Vec<usize>)> = self.u.structs[*i].fields.iter().map(|(ft, _, dims)| (ft.clone(), dims.clone())).collect();
                let mut f = Vec::new();
                for (ft, dims) in fields {
                    let t = self.with_dims(self.ty(&ft)?, &dims);
                    f.push(if *cursor < clauses.len() { self.cpp_init_member(&t, clauses, cursor)? } else { self.zero(&t)? });
                }
                Ok(V::Struct(f))
            }
            Ty::Array(inner, n) => {
                let mut a = Vec::new();
                for _ in 0..*n {
                    a.push(if *cursor < clauses.len() { self.cpp_init_member(inner, clauses, cursor)? } else { self.zero(inner)? });
                }
                Ok(V::Array(a))
            }
            Ty::Void | Ty::TrueType => Ok(V::Void),
        }
    }

    /// a member of type `ty` takes the next clause, or with brace elision the next clauses
    fn cpp_init_member(&mut self, ty: &Ty, clauses: &[CppClause], cursor: &mut usize) -> R<V> {
        match &clauses[*cursor] {
            CppClause::List(inner) => {
                *cursor += 1;
                let mut c = 0usize;
                let inner = inner.clone();
                let v = self.cpp_init_direct(ty, &inner, &mut c)?;
                if c < inner.len() {
                    return bad("too many initialiser values");
                }
                Ok(v)
            }
            CppClause::Value(v, t) => {
                let whole = match (ty, t) {
                    (Ty::Num(_, 1), Ty::Num(_, 1)) | (Ty::Enum(_), Ty::Num(_, 1)) | (Ty::Num(_, 1), Ty::Enum(_)) | (Ty::Enum(_), Ty::Enum(_)) => true,
                    // scalar to vector: replicated; vector to vector of the same size
                    (Ty::Num(_, _), Ty::Num(_, 1)) => true,
                    (Ty::Num(_, n), Ty::Num(_, m)) => n == m,
                    (Ty::Struct(a), Ty::Struct(b)) => a == b,
                    (Ty::Array(..), Ty::Array(..)) => ty == t,
                    _ => false,
                };
                if whole {
                    *cursor += 1;
                    let (v, t) = (v.clone(), t.clone());
                    return self.convert(&v, &t, ty, false);
                }
                match ty {
                    Ty::Struct(_) | Ty::Array(..) => self.cpp_init_direct(ty, clauses, cursor),
                    _ => bad(format!("initialiser of type {:?} for a member of type {:?}", t, ty)),
                }
            }
        }
    }

    fn initializer(&mut self, i: &Init, ty: &Ty) -> R<V> {
        match i {
            Init::Expr(e) => {
                let (v, t) = self.eval(e)?;
                self.convert(&v, &t, ty, false)
            }
            Init::List(items) if self.d == Dialect::Msl => self.cpp_list_init(ty, items),
            Init::List(_) => {
                let mut leaves = Vec::new();
                self.flatten(i, &mut leaves)?;
                let mut it = leaves.into_iter();
                let v = self.fill(ty, &mut it)?;
                if it.next().is_some() {
                    return bad("too many initialiser values");
                }
                Ok(v)
            }
        }
    }

    // ---- places

    fn place(&mut self, e: &Ex) -> R<Option<Place>> {
        Ok(match e {
            Ex::Name(n) => self.lookup(n),
            Ex::Member(base, m) => {
                let Some(b) = self.place(base)? else { return Ok(None) };
                match &b.ty {
                    Ty::Struct(si) => {
                        let s = &self.u.structs[*si];
                        let Some(fi) = s.fields.iter().position(|f| &f.1 == m) else { return bad(format!("struct {} has no member {}", s.name, m)) };
                        let ft = self.with_dims(self.ty(&s.fields[fi].0)?, &s.fields[fi].2);
                        let mut path = b.path.clone();
                        path.push(Step::Field(fi));
                        Some(Place { slot: b.slot, path, ty: ft, is_const: b.is_const })
                    }
                    Ty::Num(k, n) => {
                        let Some(idx) = swizzle_indices(m) else { return bad(format!("no member {} on a numeric value", m)) };
                        if idx.iter().any(|i| *i >= *n) {
                            return bad(format!("swizzle .{} on a {}-component value", m, n));
                        }
                        if matches!(b.path.last(), Some(Step::Swizzle(_))) {
                            return Ok(None);
                        }
                        let mut path = b.path.clone();
                        let len = idx.len();
                        path.push(Step::Swizzle(idx));
                        Some(Place { slot: b.slot, path, ty: Ty::Num(*k, len), is_const: b.is_const })
                    }
                    other => return bad(format!("member {} on {:?}", m, other)),
                }
            }
            Ex::Index(base, i) => {
                let Some(b) = self.place(base)? else { return Ok(None) };
                let (iv, _) = self.eval(i)?;
                let idx = match conv_scalar(&first_scalar(&iv), K::LitI) {
                    V::LitI(x) if x >= 0 => x as usize,
                    _ => return unsupported("negative index"),
                };
                let (ty, n) = match &b.ty {
                    Ty::Array(inner, n) => ((**inner).clone(), *n),
                    Ty::Num(k, n) if *n > 1 => (Ty::Num(*k, 1), *n),
                    other => return bad(format!("subscript on {:?}", other)),
                };
                if idx >= n {
                    return unsupported("index out of range");
                }
                if matches!(b.path.last(), Some(Step::Swizzle(_))) {
                    return Ok(None);
                }
                let mut path = b.path.clone();
                path.push(Step::Index(idx));
                Some(Place { slot: b.slot, path, ty, is_const: b.is_const })
            }
            // prefix increment / assignment are lvalues in C++ (and the exporters may rely on it)
            Ex::Un(op, inner) if *op == "++" || *op == "--" => {
                let Some(p) = self.place(inner)? else { return Ok(None) };
                let old = self.read(&p)?;
                self.check_steppable(&p.ty)?;
                self.write(&p, step_one(&old, if *op == "++" { 1 } else { -1 }))?;
                Some(p)
            }
            Ex::Asg(..) => {
                let Ex::Asg(op, l, r) = e else { unreachable!() };
                let Some(p) = self.place(l)? else { return bad("assignment to something that is not an lvalue") };
                self.assign(op, &p, r)?;
                Some(p)
            }
            Ex::Comma(a, b) => {
                self.eval_discard(a)?;
                self.place(b)?
            }
            _ => None,
        })
    }

    fn check_steppable(&self, t: &Ty) -> R<()> {
        match t {
            Ty::Num(K::Bool, _) => bad("increment of a bool"),
            Ty::Num(..) => Ok(()),
            other => bad(format!("increment of {:?}", other)),
        }
    }

    fn eval_discard(&mut self, e: &Ex) -> R<()> {
        self.eval(e).map(|_| ())
    }

    fn assign(&mut self, op: &str, p: &Place, r: &Ex) -> R<V> {
        // C++ arrays are not assignable (HLSL arrays are values)
        if self.d == Dialect::Msl && matches!(p.ty, Ty::Array(..)) {
            return bad("assignment to an array");
        }
        let (rv, rt) = self.eval(r)?;
        let new = if op == "=" {
            self.convert(&rv, &rt, &p.ty, false)?
        } else {
            let old = self.read(p)?;
            let (res, t) = self.binary(op, old, p.ty.clone(), rv, rt)?;
            // compound assignment converts back to the type of the left side
            self.convert(&res, &t, &p.ty, true)?
        };
        self.write(p, new.clone())?;
        Ok(new)
    }

    // ---- expressions

    fn promote(&self, v: V, t: Ty, arithmetic: bool) -> (V, Ty) {
        match &t {
            Ty::Enum(_) => (conv_scalar(&v, K::Int), Ty::Num(K::Int, 1)),
            Ty::Num(K::Bool, n) if arithmetic => (conv(&v, K::Int, *n), Ty::Num(K::Int, *n)),
            _ => (v, t),
        }
    }

    fn binary(&mut self, op: &str, a: V, at: Ty, b: V, bt: Ty) -> R<(V, Ty)> {
        let logical = matches!(op, "&&" | "||");
        let bitwise_bool = matches!(op, "&" | "|" | "^") && matches!((&at, &bt), (Ty::Num(K::Bool, _), Ty::Num(K::Bool, _)));
        let arithmetic = !is_cmp(op) && !logical && !bitwise_bool;
        let (a, at) = self.promote(a, at, arithmetic);
        let (b, bt) = self.promote(b, bt, arithmetic);
        let (Ty::Num(ka, na), Ty::Num(kb, nb)) = (&at, &bt) else { return bad(format!("operator {} on {:?} and {:?}", op, at, bt)) };
        let (ka, na, kb, nb) = (*ka, *na, *kb, *nb);
        if na != nb && na != 1 && nb != 1 {
            if self.d == Dialect::Msl {
                return bad(format!("operator {} on vectors of {} and {} components", op, na, nb));
            }
        }
        if matches!(op, "%" | "<<" | ">>" | "&" | "|" | "^") && self.d == Dialect::Msl && (ka.is_float() || kb.is_float()) && op != "%" {
            return bad(format!("operator {} on floating point operands", op));
        }
        if op == "%" && self.d == Dialect::Msl && (ka.is_float() || kb.is_float()) {
            return bad("operator % on floating point operands in Metal");
        }
        // a shift has the type of its (promoted) left operand, except that a literal adapts to the other side
        let k = if matches!(op, "<<" | ">>") && !matches!(ka, K::LitI | K::LitF) { ka } else { ka.max(kb) };
        let n = if na == 1 { nb } else if nb == 1 { na } else { na.min(nb) };
        let a2 = conv(&a, k, na);
        let b2 = conv(&b, k, nb);
        let r = binop(op, &a2, &b2);
        let rt = match r.kind() {
            Some(rk) => Ty::Num(rk, n),
            None => return unsupported("binary result"),
        };
        Ok((r, rt))
    }

    pub fn eval(&mut self, e: &Ex) -> R<(V, Ty)> {
        self.tick()?;
        Ok(match e {
            Ex::Int(v, s) => match s.as_str() {
                "u" | "ul" | "lu" | "ull" => {
                    if *v > u32::MAX as u64 {
                        return unsupported("64-bit literal");
                    }
                    (V::UInt(*v as u32), Ty::Num(K::UInt, 1))
                }
                "" | "l" | "ll" => (V::LitI(*v as i128), Ty::Num(K::LitI, 1)),
                other => return bad(format!("integer literal suffix {}", other)),
            },
            Ex::Flt(text, s) => match s.as_str() {
                "f" => (V::Float(text.parse::<f32>().map_err(|_| Stop::Bad("float literal".into()))?), Ty::Num(K::Float, 1)),
                "h" => (V::Half(text.parse::<f32>().map_err(|_| Stop::Bad("half literal".into()))?), Ty::Num(K::Half, 1)),
                "l" => (V::Double(text.parse::<f64>().map_err(|_| Stop::Bad("double literal".into()))?), Ty::Num(K::Double, 1)),
                "" => (V::LitF(text.parse::<f64>().map_err(|_| Stop::Bad("float literal".into()))?), Ty::Num(K::LitF, 1)),
                other => return bad(format!("float literal suffix {}", other)),
            },
            Ex::Bool(b) => (V::Bool(*b), Ty::Num(K::Bool, 1)),
            Ex::Name(n) => {
                if let Some(p) = self.lookup(n) {
                    (self.read(&p)?, p.ty.clone())
                } else if let Some(r) = self.enum_value(n)? {
                    r
                } else {
                    return bad(format!("unknown name {}", n));
                }
            }
            Ex::Un(op, inner) => match *op {
                "++" | "--" => {
                    let Some(p) = self.place(e)? else { return bad("increment of something that is not an lvalue") };
                    (self.read(&p)?, p.ty.clone())
                }
                _ => {
                    let (v, t) = self.eval(inner)?;
                    if *op == "!" {
                        let Ty::Num(_, n) = t else { return bad("! on a non-numeric value") };
                        (unop("!", &conv(&v, K::Bool, n)), Ty::Num(K::Bool, n))
                    } else {
                        let (v, t) = self.promote(v, t, true);
                        let Ty::Num(k, n) = t else { return bad(format!("unary {} on a non-numeric value", op)) };
                        if *op == "~" && k.is_float() {
                            return bad("~ on a floating point value");
                        }
                        (unop(op, &v), Ty::Num(k, n))
                    }
                }
            },
            Ex::Post(op, inner) => {
                let Some(p) = self.place(inner)? else { return bad("increment of something that is not an lvalue") };
                self.check_steppable(&p.ty)?;
                let old = self.read(&p)?;
                self.write(&p, step_one(&old, if *op == "++" { 1 } else { -1 }))?;
                (old, p.ty.clone())
            }
            Ex::Bin(op, a, b) => {
                if matches!(*op, "&&" | "||") {
                    let (av, at) = self.eval(a)?;
                    if let Ty::Num(_, 1) = at {
                        let at_true = conv_scalar(&first_scalar(&av), K::Bool).truthy();
                        if (*op == "&&" && !at_true) || (*op == "||" && at_true) {
                            return Ok((V::Bool(at_true), Ty::Num(K::Bool, 1)));
                        }
                        let (bv, bt) = self.eval(b)?;
                        let Ty::Num(_, 1) = bt else { return unsupported("logical operator with a vector operand") };
                        return Ok((V::Bool(conv_scalar(&first_scalar(&bv), K::Bool).truthy()), Ty::Num(K::Bool, 1)));
                    }
                    return unsupported("logical operator with a vector operand");
                }
                let (av, at) = self.eval(a)?;
                let (bv, bt) = self.eval(b)?;
                self.binary(op, av, at, bv, bt)?
            }
            Ex::Asg(op, l, r) => {
                let Some(p) = self.place(l)? else { return bad("assignment to something that is not an lvalue") };
                let v = self.assign(op, &p, r)?;
                (v, p.ty.clone())
            }
            Ex::Cond(c, a, b) => {
                let (cv, ct) = self.eval(c)?;
                let Ty::Num(_, 1) = ct else { return unsupported("ternary with a vector condition") };
                let take_a = conv_scalar(&first_scalar(&cv), K::Bool).truthy();
                // the type of the expression comes from both arms: find the other arm's type
                // without evaluating it
                let (v, t) = if take_a { self.eval(a)? } else { self.eval(b)? };
                let other_arm = if take_a { b } else { a };
                let other = match self.static_type(other_arm) {
                    Some(t) => Some(t),
                    None => {
                        // dry run of the arm that is not taken, only for its type: effects are rolled back
                        let saved = self.store.clone();
                        let r = self.eval(other_arm);
                        self.store = saved;
                        r.ok().map(|(_, t)| t)
                    }
                };
                match (&t, other) {
                    (Ty::Num(k1, n1), Some(Ty::Num(k2, n2))) if *k1 != k2 || *n1 != n2 => {
                        let (k1, n1) = (*k1, *n1);
                        let pk = |k: K| if k == K::Bool && k1 != k2 { K::Int } else { k };
                        let k = pk(k1).max(pk(k2));
                        let n = if n1 == 1 { n2 } else if n2 == 1 { n1 } else { n1.min(n2) };
                        (conv(&v, k, n), Ty::Num(k, n))
                    }
                    _ => (v, t),
                }
            }
            Ex::Comma(a, b) => {
                self.eval_discard(a)?;
                self.eval(b)?
            }
            Ex::Cast(t, inner) => {
                let to = self.ty(t)?;
                let (v, from) = self.eval(inner)?;
                (self.convert(&v, &from, &to, true)?, to)
            }
            Ex::AsType(t, inner) => {
                let to = self.ty(t)?;
                let (v, from) = self.eval(inner)?;
                let (Ty::Num(kt, nt), Ty::Num(kf, nf)) = (&to, &from) else { return bad("as_type on non-numeric types") };
                if nt != nf || matches!(kf, K::Bool | K::Half | K::Double | K::LitI | K::LitF) {
                    return bad("as_type between types of different size");
                }
                let name = match kt {
                    K::Float => "asfloat",
                    K::Int => "asint",
                    K::UInt => "asuint",
                    _ => return bad("as_type to an unsupported type"),
                };
                (intrinsic(name, &[v]).ok_or_else(|| Stop::Unsupported("as_type".into()))?, to)
            }
            Ex::Ctor(t, args) => {
                let to = self.ty(t)?;
                match &to {
                    Ty::Num(k, n) => {
                        let mut comps = Vec::new();
                        for a in args {
                            let (v, at) = self.eval(a)?;
                            if !matches!(at, Ty::Num(..) | Ty::Enum(_)) {
                                return bad("constructor argument is not numeric");
                            }
                            flatten_value(&v, &mut comps);
                        }
                        if comps.len() == 1 && *n > 1 {
                            if self.d == Dialect::Hlsl {
                                return bad("HLSL vector constructor with a single scalar");
                            }
                            comps = vec![comps[0].clone(); *n];
                        }
                        if comps.len() != *n {
                            return bad(format!("constructor of {} components given {}", n, comps.len()));
                        }
                        let c: Vec<V> = comps.iter().map(|x| conv_scalar(x, *k)).collect();
                        (if *n == 1 { c.into_iter().next().unwrap() } else { V::Vec(c) }, to)
                    }
                    Ty::TrueType => (V::Void, Ty::TrueType),
                    Ty::Struct(_) if args.is_empty() && self.d == Dialect::Msl => (self.zero(&to)?, to),
                    other => return unsupported(format!("constructor of {:?}", other)),
                }
            }
            Ex::Brace(t, items) => {
                let to = self.ty(t)?;
                if self.d != Dialect::Msl {
                    return bad("braced temporary in HLSL");
                }
                (self.cpp_list_init(&to, items)?, to)
            }
            Ex::MCall(obj, m, args) => {
                let pl = match self.place(obj)? {
                    Some(p) => p,
                    None => {
                        // a temporary object
                        let (v, t) = self.eval(obj)?;
                        let slot = self.new_slot(v);
                        Place { slot, path: Vec::new(), ty: t, is_const: false }
                    }
                };
                let Ty::Struct(si) = pl.ty.clone() else { return bad(format!("method call .{}() on {:?}", m, pl.ty)) };
                let ms: Vec<&'u FuncD> = self.u.structs[si].methods.iter().filter(|f| &f.name == m && f.has_body).collect();
                if ms.is_empty() {
                    return bad(format!("struct {} has no method {}", self.u.structs[si].name, m));
                }
                self.invoke_user(&ms, m, args, Some((pl, si)))?
            }
            Ex::Call(name, targs, args) => self.call(name, targs, args)?,
            Ex::Index(..) | Ex::Member(..) => {
                if let Some(p) = self.place(e)? {
                    (self.read(&p)?, p.ty.clone())
                } else {
                    // projection out of an rvalue
                    match e {
                        Ex::Member(base, m) => {
                            let (bv, bt) = self.eval(base)?;
                            match &bt {
                                Ty::Struct(si) => {
                                    let s = &self.u.structs[*si];
                                    let Some(fi) = s.fields.iter().position(|f| &f.1 == m) else { return bad(format!("struct {} has no member {}", s.name, m)) };
                                    let ft = self.with_dims(self.ty(&s.fields[fi].0)?, &s.fields[fi].2);
                                    (get_path(&bv, &[Step::Field(fi)])?, ft)
                                }
                                Ty::Num(k, n) => {
                                    let Some(idx) = swizzle_indices(m) else { return bad(format!("no member {} on a numeric value", m)) };
                                    if idx.iter().any(|i| *i >= *n) {
                                        return bad(format!("swizzle .{} on a {}-component value", m, n));
                                    }
                                    if *n == 1 && self.d == Dialect::Msl && !matches!(bv, V::Vec(_)) {
                                        return bad("swizzle on a scalar in Metal");
                                    }
                                    let len = idx.len();
                                    (get_path(&bv, &[Step::Swizzle(idx)])?, Ty::Num(*k, len))
                                }
                                other => return bad(format!("member {} on {:?}", m, other)),
                            }
                        }
                        Ex::Index(base, i) => {
                            let (bv, bt) = self.eval(base)?;
                            let (iv, _) = self.eval(i)?;
                            let idx = match conv_scalar(&first_scalar(&iv), K::LitI) {
                                V::LitI(x) if x >= 0 => x as usize,
                                _ => return unsupported("negative index"),
                            };
                            let (ty, n) = match &bt {
                                Ty::Array(inner, n) => ((**inner).clone(), *n),
                                Ty::Num(k, n) if *n > 1 => (Ty::Num(*k, 1), *n),
                                other => return bad(format!("subscript on {:?}", other)),
                            };
                            if idx >= n {
                                return unsupported("index out of range");
                            }
                            (get_path(&bv, &[Step::Index(idx)])?, ty)
                        }
                        _ => unreachable!(),
                    }
                }
            }
        })
    }

    /// type of an expression without evaluating it (used for the unevaluated ternary arm);
    /// `None` when it cannot be told cheaply — the caller then keeps the evaluated arm's type
    fn static_type(&self, e: &Ex) -> Option<Ty> {
        Some(match e {
            Ex::Int(_, s) => Ty::Num(if s.starts_with('u') || s.ends_with('u') { K::UInt } else { K::LitI }, 1),
            Ex::Flt(_, s) => Ty::Num(
                match s.as_str() {
                    "f" => K::Float,
                    "h" => K::Half,
                    "l" => K::Double,
                    _ => K::LitF,
                },
                1,
            ),
            Ex::Bool(_) => Ty::Num(K::Bool, 1),
            Ex::Name(n) => self.lookup(n)?.ty,
            Ex::Cast(t, _) | Ex::Ctor(t, _) | Ex::AsType(t, _) => self.ty(t).ok()?,
            Ex::Comma(_, b) => self.static_type(b)?,
            Ex::Asg(_, l, _) => self.static_type(l)?,
            Ex::Post(_, x) => self.static_type(x)?,
            Ex::Un(op, x) => {
                let t = self.static_type(x)?;
                match (*op, &t) {
                    ("!", Ty::Num(_, n)) => Ty::Num(K::Bool, *n),
                    ("++", _) | ("--", _) => t,
                    (_, Ty::Num(K::Bool, n)) => Ty::Num(K::Int, *n),
                    (_, Ty::Enum(_)) => Ty::Num(K::Int, 1),
                    _ => t,
                }
            }
            _ => return None,
        })
    }

    // ---- calls

    fn builtin(&self, name: &str) -> Option<(&'static str, bool)> {
        // returns (canonical operation, result is converted to the argument's float kind)
        let n = match self.d {
            Dialect::Hlsl => name,
            Dialect::Msl => name.strip_prefix("metal::")?,
        };
        let both = ["abs", "floor", "ceil", "trunc", "round", "saturate", "sqrt", "rsqrt", "exp2", "exp", "log2", "log", "sin", "cos", "min", "max", "clamp", "step", "pow", "fmod", "smoothstep", "dot", "length", "distance", "normalize", "cross", "any", "all", "isnan", "isinf", "isfinite"];
        if let Some(x) = both.iter().find(|x| **x == n) {
            return Some((x, false));
        }
        match (self.d, n) {
            (Dialect::Hlsl, "frac") => Some(("frac", false)),
            (Dialect::Hlsl, "rcp") => Some(("rcp", false)),
            (Dialect::Hlsl, "lerp") => Some(("lerp", false)),
            (Dialect::Hlsl, "asfloat") => Some(("asfloat", false)),
            (Dialect::Hlsl, "asint") => Some(("asint", false)),
            (Dialect::Hlsl, "asuint") => Some(("asuint", false)),
            (Dialect::Hlsl, "sign") => Some(("sign", false)),
            (Dialect::Hlsl, "select") => Some(("select", false)),
            (Dialect::Hlsl, "countbits") => Some(("countbits", false)),
            (Dialect::Hlsl, "reversebits") => Some(("reversebits", false)),
            (Dialect::Msl, "fract") => Some(("frac", false)),
            (Dialect::Msl, "mix") => Some(("lerp", false)),
            (Dialect::Msl, "sign") => Some(("sign", true)),
            (Dialect::Msl, "select") => Some(("msl_select", false)),
            (Dialect::Msl, "popcount") => Some(("countbits", false)),
            (Dialect::Msl, "reverse_bits") => Some(("reversebits", false)),
            _ => None,
        }
    }

    fn call(&mut self, name: &str, _targs: &[String], args: &[Ex]) -> R<(V, Ty)> {
        // a local variable or parameter of that name hides every function (the call is then ill-formed)
        if !name.contains("::") && self.scopes.iter().any(|sc| sc.contains_key(name)) {
            return bad(format!("call of {}: a local variable of that name hides the function", name));
        }
        // inside a method, an unqualified name is first looked up among the methods of the object
        if !name.contains("::") {
            if let Some(Some((pl, si))) = self.this_stack.last().cloned() {
                let ms: Vec<&'u FuncD> = self.u.structs[si].methods.iter().filter(|f| f.name == name && f.has_body).collect();
                if !ms.is_empty() {
                    return self.invoke_user(&ms, name, args, Some((pl, si)));
                }
            }
        }
        // unqualified lookup goes outward from the namespace of the calling function; ::name starts at the root scope
        let mut cands: Vec<&'u FuncD> = Vec::new();
        let mut prefix: Vec<String> = if name.starts_with("::") { Vec::new() } else { self.ns_stack.last().cloned().unwrap_or_default() };
        let name = name.strip_prefix("::").unwrap_or(name);
        loop {
            let full = if prefix.is_empty() { name.to_string() } else { format!("{}::{}", prefix.join("::"), name) };
            cands = self.u.funcs.iter().filter(|f| f.name == full && f.has_body).collect();
            if !cands.is_empty() || prefix.is_empty() {
                break;
            }
            prefix.pop();
        }
        if cands.is_empty() {
            if let Some((op, float_result)) = self.builtin(name) {
                let mut vals = Vec::new();
                let mut tys = Vec::new();
                for a in args {
                    let (v, t) = self.eval(a)?;
                    let (v, t) = self.promote(v, t, false);
                    if !matches!(t, Ty::Num(..)) {
                        return bad(format!("builtin {} applied to {:?}", name, t));
                    }
                    vals.push(v);
                    tys.push(t);
                }
                // overload selection of builtins: all numeric arguments of one call share a kind
                // (Metal has no implicit mixing; HLSL promotes to the highest rank)
                let numeric_same = !matches!(op, "select" | "msl_select" | "asfloat" | "asint" | "asuint");
                if numeric_same && vals.len() > 1 {
                    let kinds: Vec<K> = tys.iter().map(|t| if let Ty::Num(k, _) = t { *k } else { K::Int }).collect();
                    let top = *kinds.iter().max().unwrap();
                    if kinds.iter().any(|k| *k != top) {
                        if self.d == Dialect::Msl && kinds.iter().any(|k| !matches!(k, K::LitI | K::LitF) && *k != top) {
                            return bad(format!("Metal builtin {} called with mixed argument types {:?}", name, kinds));
                        }
                        for (v, t) in vals.iter_mut().zip(tys.iter()) {
                            if let Ty::Num(_, n) = t {
                                *v = conv(v, top, *n);
                            }
                        }
                    }
                }
                let r = if op == "msl_select" {
                    if vals.len() != 3 {
                        return bad("metal::select takes three arguments");
                    }
                    // metal::select(a, b, c) = c ? b : a
                    intrinsic("select", &[vals[2].clone(), vals[1].clone(), vals[0].clone()])
                } else {
                    intrinsic(op, &vals)
                };
                let Some(mut r) = r else { return unsupported(format!("builtin {} with {} arguments", name, vals.len())) };
                if float_result {
                    if let Some(Ty::Num(k, n)) = tys.first() {
                        r = conv(&r, *k, *n);
                    }
                }
                let t = self.type_of_value(&r);
                return Ok((r, t));
            }
            return bad(format!("call of an unknown function {}", name));
        }
        self.invoke_user(&cands, name, args, None)
    }

    /// call one of `cands` (same name): selection by arity and trampoline tag, argument binding, frame, copy-back;
    /// `this` is the object of a method call
    fn invoke_user(&mut self, cands: &[&'u FuncD], name: &str, args: &[Ex], this: Option<(Place, usize)>) -> R<(V, Ty)> {
        // evaluate the arguments that are not lvalue-bound lazily: first pick the callee by arity
        let n = args.len();
        let mut viable: Vec<&'u FuncD> = Vec::new();
        for f in cands {
            if n > f.params.len() {
                continue;
            }
            if f.params[n..].iter().any(|p| p.default.is_none()) {
                continue;
            }
            // the tag parameter tells the two halves of an out-parameter trampoline apart
            let mut tags_ok = true;
            for (i, p) in f.params.iter().enumerate().take(n) {
                let is_tag_arg = matches!(&args[i], Ex::Ctor(TyE::TrueType, _));
                if (p.ty == TyE::TrueType) != is_tag_arg {
                    tags_ok = false;
                }
            }
            if tags_ok {
                viable.push(*f);
            }
        }
        if viable.is_empty() {
            return bad(format!("no function {} accepts {} arguments ({} candidates)", name, n, cands.len()));
        }
        if viable.len() > 1 {
            return unsupported(format!("call of {} is ambiguous between {} candidates", name, viable.len()));
        }
        let f = viable[0];
        // bind arguments
        enum Bound {
            Value(V),
            CopyBack(Place, bool),
            Alias(Place),
        }
        let mut bound = Vec::new();
        let mut decayed_here: Vec<(String, V)> = Vec::new();
        for (i, p) in f.params.iter().enumerate() {
            let pt = self.with_dims(self.ty(&p.ty)?, &p.dims);
            match (args.get(i), p.mode) {
                (Some(a), Mode::In) if self.d == Dialect::Msl && !p.dims.is_empty() && self.place(a)?.is_some() => {
                    // a C++ parameter of array type is a pointer to the argument's first element: the callee works on
                    // the caller's array (HLSL passes a copy)
                    // (modelled as a copy that must come back unchanged: a function that writes such a parameter
                    // would write the caller's array, which the source language does not do)
                    let (v, t) = self.eval(a)?;
                    let v = self.convert(&v, &t, &pt, false)?;
                    decayed_here.push((p.name.clone(), v.clone()));
                    bound.push((pt.clone(), Bound::Value(v)));
                }
                (Some(a), Mode::In) => {
                    let (v, t) = self.eval(a)?;
                    bound.push((pt.clone(), Bound::Value(self.convert(&v, &t, &pt, false)?)));
                }
                (Some(a), Mode::Out) | (Some(a), Mode::InOut) => {
                    let Some(pl) = self.place(a)? else { return bad(format!("argument {} of {} is not an lvalue", i, name)) };
                    bound.push((pt.clone(), Bound::CopyBack(pl, p.mode == Mode::InOut)));
                }
                (Some(a), Mode::Ref) => {
                    let Some(pl) = self.place(a)? else { return bad(format!("reference parameter {} of {} bound to an rvalue", i, name)) };
                    if pl.ty != pt {
                        return bad(format!("reference parameter {} of {} has type {:?} but the argument has type {:?}", i, name, pt, pl.ty));
                    }
                    if pl.is_const {
                        return bad(format!("non-const reference parameter {} of {} bound to a const object", i, name));
                    }
                    if pl.path.iter().any(|s| matches!(s, Step::Swizzle(_))) {
                        return bad("reference bound to a swizzle");
                    }
                    bound.push((pt.clone(), Bound::Alias(pl)));
                }
                (None, Mode::In) => {
                    let d = p.default.as_ref().unwrap();
                    // default arguments are evaluated in the callee's declaration context: globals only
                    let saved = std::mem::take(&mut self.scopes);
                    self.scopes.push(HashMap::new());
                    let r = self.eval(d);
                    self.scopes = saved;
                    let (v, t) = r?;
                    bound.push((pt.clone(), Bound::Value(self.convert(&v, &t, &pt, false)?)));
                }
                (None, _) => return bad("default value on an out or reference parameter"),
            }
        }
        if self.depth > 64 {
            return unsupported("call depth");
        }
        // new frame
        let saved = std::mem::take(&mut self.scopes);
        self.scopes.push(HashMap::new());
        let mut copy_back = Vec::new();
        let mut err = None;
        for (p, (pt, b)) in f.params.iter().zip(bound.into_iter()) {
            match b {
                Bound::Value(v) => self.declare(&p.name, pt, v, false),
                Bound::Alias(pl) => {
                    self.scopes.last_mut().unwrap().insert(p.name.clone(), pl);
                }
                Bound::CopyBack(pl, copy_in) => {
                    let init = if copy_in {
                        let cur = match get_path(&self.store[pl.slot], &pl.path) {
                            Ok(v) => v,
                            Err(e) => {
                                err = Some(e);
                                break;
                            }
                        };
                        match self.convert(&cur, &pl.ty, &pt, false) {
                            Ok(v) => v,
                            Err(e) => {
                                err = Some(e);
                                break;
                            }
                        }
                    } else {
                        match self.zero(&pt) {
                            Ok(v) => v,
                            Err(e) => {
                                err = Some(e);
                                break;
                            }
                        }
                    };
                    self.declare(&p.name, pt.clone(), init, false);
                    let local = self.lookup(&p.name).unwrap();
                    copy_back.push((pl, local, pt));
                }
            }
        }
        let ret_ty = self.ty(&f.ret)?;
        let flow = if let Some(e) = err {
            Err(e)
        } else {
            self.depth += 1;
            self.ret_stack.push(ret_ty.clone());
            // a method is looked up from the namespace of its struct
            self.ns_stack.push(match &this {
                Some((_, si)) => namespace_of(&self.u.structs[*si].name),
                None => namespace_of(&f.name),
            });
            self.this_stack.push(this.clone());
            let mut r = self.block(&f.body);
            if r.is_ok() {
                for (pname, before) in &decayed_here {
                    if let Some(pl) = self.scopes.last().and_then(|s| s.get(pname)).cloned() {
                        let after = self.read(&pl)?;
                        if !same(before, &after) {
                            r = bad("a by-value array parameter is written: the C++ array parameter is a pointer to the caller's array");
                        }
                    }
                }
            }
            self.this_stack.pop();
            self.ns_stack.pop();
            self.ret_stack.pop();
            self.depth -= 1;
            r
        };
        let mut result = flow.and_then(|fl| match fl {
            Flow::Return(v) => Ok(v),
            _ => {
                if ret_ty == Ty::Void {
                    Ok(V::Void)
                } else {
                    bad(format!("function {} ends without returning a value", name))
                }
            }
        });
        if result.is_ok() {
            for (pl, local, pt) in copy_back {
                let v = self.read(&local)?;
                let v = match self.convert(&v, &pt, &pl.ty, false) {
                    Ok(v) => v,
                    Err(e) => {
                        result = Err(e);
                        break;
                    }
                };
                if let Err(e) = self.write(&pl, v) {
                    result = Err(e);
                    break;
                }
            }
        }
        self.scopes = saved;
        Ok((result?, ret_ty))
    }

    /// Run one function of the unit. `args[i]` corresponds to parameter i; returns the return
    /// value and, for every parameter, the final value of its storage (None for by-value ones).
    pub fn run(&mut self, f: &'u FuncD, args: Vec<Arg>) -> R<(V, Vec<Option<V>>)> {
        if args.len() != f.params.len() {
            return unsupported("argument count");
        }
        let saved = std::mem::take(&mut self.scopes);
        self.scopes.push(HashMap::new());
        let mut cells = Vec::new();
        for (p, a) in f.params.iter().zip(args.into_iter()) {
            let pt = self.with_dims(self.ty(&p.ty)?, &p.dims);
            match (a, p.mode) {
                (Arg::Val(v), Mode::In) => {
                    self.declare(&p.name, pt, v, false);
                    cells.push(false);
                }
                (Arg::Cell(v), Mode::InOut) | (Arg::Cell(v), Mode::Ref) => {
                    self.declare(&p.name, pt, v, false);
                    cells.push(true);
                }
                (Arg::Cell(_), Mode::Out) => {
                    let z = self.zero(&pt)?;
                    self.declare(&p.name, pt, z, false);
                    cells.push(true);
                }
                _ => return unsupported("argument kind does not match the parameter mode"),
            }
        }
        let ret_ty = self.ty(&f.ret)?;
        self.ret_stack.push(ret_ty.clone());
        self.ns_stack.push(namespace_of(&f.name));
        let flow = self.block(&f.body);
        self.ns_stack.pop();
        self.ret_stack.pop();
        let r = flow.and_then(|fl| match fl {
            Flow::Return(v) => Ok(v),
            _ => {
                if ret_ty == Ty::Void {
                    Ok(V::Void)
                } else {
                    bad(format!("function {} ends without returning a value", f.name))
                }
            }
        });
        let mut outs = Vec::new();
        if r.is_ok() {
            for (p, c) in f.params.iter().zip(cells.iter()) {
                if *c {
                    let pl = self.lookup(&p.name).ok_or_else(|| Stop::Unsupported("parameter lookup".into()))?;
                    outs.push(Some(self.read(&pl)?));
                } else {
                    outs.push(None);
                }
            }
        }
        self.scopes = saved;
        Ok((r?, outs))
    }

    /// Run an entry point with by-value arguments and return the final values of the variables of its outermost
    /// block (a Metal entry point holds the program's static variables as locals)
    pub fn run_capture(&mut self, f: &'u FuncD, args: Vec<V>) -> R<HashMap<String, V>> {
        if args.len() != f.params.len() {
            return unsupported("argument count");
        }
        let saved = std::mem::take(&mut self.scopes);
        self.scopes.push(HashMap::new());
        let mut result = (|| {
            for (p, v) in f.params.iter().zip(args.into_iter()) {
                let pt = self.with_dims(self.ty(&p.ty)?, &p.dims);
                self.declare(&p.name, pt, v, false);
            }
            let ret_ty = self.ty(&f.ret)?;
            self.ret_stack.push(ret_ty);
            self.ns_stack.push(namespace_of(&f.name));
            let flow = self.stmts(&f.body);
            self.ns_stack.pop();
            self.ret_stack.pop();
            flow?;
            let mut out = HashMap::new();
            let places: Vec<(String, Place)> = self.scopes.last().map(|s| s.iter().map(|(k, p)| (k.clone(), p.clone())).collect()).unwrap_or_default();
            for (k, p) in places {
                out.insert(k, self.read(&p)?);
            }
            Ok(out)
        })();
        self.scopes = saved;
        if let Ok(m) = result.as_mut() {
            let _ = m;
        }
        result
    }

    /// Run a method of struct `si` on an object; returns (return value, parameter cells, final object)
    pub fn run_method(&mut self, si: usize, f: &'u FuncD, this: V, args: Vec<Arg>) -> R<(V, Vec<Option<V>>, V)> {
        let ty = Ty::Struct(si);
        let slot = self.new_slot(this);
        let pl = Place { slot, path: Vec::new(), ty, is_const: false };
        self.this_stack.push(Some((pl.clone(), si)));
        let r = self.run(f, args);
        self.this_stack.pop();
        let (ret, outs) = r?;
        let fin = self.read(&pl)?;
        Ok((ret, outs, fin))
    }

    // ---- statements

    fn block(&mut self, ss: &[Stm]) -> R<Flow> {
        self.scopes.push(HashMap::new());
        let r = self.stmts(ss);
        self.scopes.pop();
        r
    }

    fn stmts(&mut self, ss: &[Stm]) -> R<Flow> {
        for s in ss {
            match self.stmt(s)? {
                Flow::Normal => {}
                other => return Ok(other),
            }
        }
        Ok(Flow::Normal)
    }

    fn cond(&mut self, e: &Ex) -> R<bool> {
        let (v, t) = self.eval(e)?;
        match t {
            Ty::Num(_, 1) => Ok(conv_scalar(&first_scalar(&v), K::Bool).truthy()),
            other => bad(format!("condition of type {:?}", other)),
        }
    }

    fn declaration(&mut self, t: &TyE, ds: &[Declarator], is_const: bool) -> R<()> {
        let base = self.ty(t)?;
        for d in ds {
            let ty = self.with_dims(base.clone(), &d.dims);
            let v = match &d.init {
                Some(i) => self.initializer(i, &ty)?,
                None => self.zero(&ty)?,
            };
            self.declare(&d.name, ty, v, is_const);
        }
        Ok(())
    }

    fn stmt(&mut self, s: &Stm) -> R<Flow> {
        self.tick()?;
        Ok(match s {
            Stm::Empty | Stm::Case(_) | Stm::Default => Flow::Normal,
            Stm::Decl(t, ds, c) => {
                self.declaration(t, ds, *c)?;
                Flow::Normal
            }
            Stm::Expr(e) => {
                self.eval_discard(e)?;
                Flow::Normal
            }
            Stm::Block(b) => self.block(b)?,
            Stm::If(c, a, b) => {
                if self.cond(c)? {
                    self.block(std::slice::from_ref(a))?
                } else if let Some(b) = b {
                    self.block(std::slice::from_ref(b))?
                } else {
                    Flow::Normal
                }
            }
            Stm::For(init, c, inc, body) => {
                self.scopes.push(HashMap::new());
                let r = (|| -> R<Flow> {
                    if let Some(i) = init {
                        // the init statement lives in the loop's own scope
                        match &**i {
                            Stm::Decl(t, ds, k) => self.declaration(t, ds, *k)?,
                            Stm::Expr(e) => self.eval_discard(e)?,
                            _ => return unsupported("for initialiser"),
                        }
                    }
                    loop {
                        self.tick()?;
                        if let Some(c) = c {
                            if !self.cond(c)? {
                                break;
                            }
                        }
                        match self.block(std::slice::from_ref(body))? {
                            Flow::Break => break,
                            Flow::Return(v) => return Ok(Flow::Return(v)),
                            _ => {}
                        }
                        if let Some(i) = inc {
                            self.eval_discard(i)?;
                        }
                    }
                    Ok(Flow::Normal)
                })();
                self.scopes.pop();
                r?
            }
            Stm::While(c, body) => {
                loop {
                    self.tick()?;
                    if !self.cond(c)? {
                        break;
                    }
                    match self.block(std::slice::from_ref(body))? {
                        Flow::Break => break,
                        Flow::Return(v) => return Ok(Flow::Return(v)),
                        _ => {}
                    }
                }
                Flow::Normal
            }
            Stm::DoWhile(body, c) => {
                loop {
                    self.tick()?;
                    match self.block(std::slice::from_ref(body))? {
                        Flow::Break => break,
                        Flow::Return(v) => return Ok(Flow::Return(v)),
                        _ => {}
                    }
                    if !self.cond(c)? {
                        break;
                    }
                }
                Flow::Normal
            }
            Stm::Switch(e, body) => {
                let (v, t) = self.eval(e)?;
                let (v, _) = self.promote(v, t, true);
                let key = conv_scalar(&first_scalar(&v), K::LitI);
                let mut start = None;
                let mut default = None;
                for (i, st) in body.iter().enumerate() {
                    match st {
                        Stm::Case(c) => {
                            let (cv, ct) = self.eval(c)?;
                            let (cv, _) = self.promote(cv, ct, true);
                            if start.is_none() && same(&conv_scalar(&first_scalar(&cv), K::LitI), &key) {
                                start = Some(i);
                            }
                        }
                        Stm::Default => default = Some(i),
                        _ => {}
                    }
                }
                let Some(begin) = start.or(default) else { return Ok(Flow::Normal) };
                self.scopes.push(HashMap::new());
                let r = self.stmts(&body[begin..]);
                self.scopes.pop();
                match r? {
                    Flow::Break | Flow::Normal => Flow::Normal,
                    other => other,
                }
            }
            Stm::Break => Flow::Break,
            Stm::Continue => Flow::Continue,
            Stm::Return(e) => Flow::Return(match e {
                Some(e) => {
                    let (v, t) = self.eval(e)?;
                    let rt = self.ret_stack.last().cloned().unwrap_or(Ty::Void);
                    if rt == Ty::Void {
                        return bad("return with a value in a void function");
                    }
                    self.convert(&v, &t, &rt, false)?
                }
                None => V::Void,
            }),
        })
    }
}

fn namespace_of(qualified: &str) -> Vec<String> {
    let mut parts: Vec<String> = qualified.split("::").map(|s| s.to_string()).collect();
    parts.pop();
    parts
}

fn first_scalar(v: &V) -> V {
    match v {
        V::Vec(c) => c.first().cloned().unwrap_or(V::Int(0)),
        other => other.clone(),
    }
}

#[derive(Clone, Debug)]
enum CppClause {
    Value(V, Ty),
    List(Vec<CppClause>),
}

fn flatten_value(v: &V, out: &mut Vec<V>) {
    match v {
        V::Vec(c) | V::Struct(c) | V::Array(c) => {
            for x in c {
                flatten_value(x, out);
            }
        }
        V::Void => {}
        s => out.push(s.clone()),
    }
}
