//! E1 — typed program generator.
//!
//! Programs are built from a *choice sequence* (a `Vec<u32>` drawn by proptest): every decision
//! of the generator consumes the next number, so shrinking the vector shrinks the program and a
//! program is a pure function of its choices. Programs are well-typed by construction: the
//! generator tracks a typing environment and only builds expressions of the requested type
//! (RSSL typing facts: DESIGN.md appendix A). No rejection sampling.
//!
//! Evaluation-order soundness: expressions are *pure* except at the top of an expression
//! statement (assignment, compound assignment, ++/--, calls with out parameters, calls to
//! functions that write statics); sequenced positions (`,`, `&&`, `||`, `?:`) may hold an
//! assignment to a local that is not otherwise used in the statement.

use std::fmt::Write;

#[derive(Clone, Copy, PartialEq, Eq, Hash, Debug)]
pub enum Sc {
    Bool,
    Int,
    UInt,
    Half,
    Float,
    Double,
}

impl Sc {
    pub fn name(self) -> &'static str {
        match self {
            Sc::Bool => "bool",
            Sc::Int => "int",
            Sc::UInt => "uint",
            Sc::Half => "half",
            Sc::Float => "float",
            Sc::Double => "double",
        }
    }
    pub fn is_int(self) -> bool {
        matches!(self, Sc::Int | Sc::UInt)
    }
    pub fn is_float(self) -> bool {
        matches!(self, Sc::Half | Sc::Float | Sc::Double)
    }
    pub fn rank(self) -> u32 {
        match self {
            Sc::Bool => 1,
            Sc::Int => 3,
            Sc::UInt => 4,
            Sc::Half => 6,
            Sc::Float => 7,
            Sc::Double => 8,
        }
    }
}

#[derive(Clone, PartialEq, Eq, Hash, Debug)]
pub enum Ty {
    Void,
    S(Sc),
    V(Sc, u8),
    Struct(usize),
    Enum(usize),
    Array(Box<Ty>, u32),
}

impl Ty {
    pub fn is_scalar(&self) -> bool {
        matches!(self, Ty::S(_))
    }
}

/// An identifier of the program. Names are looked up in `Prog::names` so that renaming is a table edit.
pub type Name = usize;

#[derive(Clone, Debug)]
pub enum E {
    /// literal text with its type (rendered verbatim)
    Lit(String, Ty),
    Var(Name, Ty),
    EnumVal(usize, Name),
    Un(&'static str, Box<E>),
    PostInc(&'static str, Box<E>),
    Bin(&'static str, Box<E>, Box<E>),
    Assign(&'static str, Box<E>, Box<E>),
    Ternary(Box<E>, Box<E>, Box<E>),
    Comma(Box<E>, Box<E>),
    Cast(Ty, Box<E>),
    Ctor(Ty, Vec<E>),
    Swizzle(Box<E>, String),
    Index(Box<E>, Box<E>),
    Member(Box<E>, Name),
    Call(Name, Vec<E>),
    /// call of a function inside a namespace, fully qualified: A::B::f(args)
    QCall(Vec<Name>, Name, Vec<E>),
    /// call with explicit template arguments (rendered text)
    CallT(Name, String, Vec<E>),
    Method(Box<E>, Name, Vec<E>),
    Intrinsic(&'static str, Vec<E>),
}

#[derive(Clone, Debug)]
pub enum St {
    Decl(Ty, Name, Option<E>, bool), // type, name, init, is_const
    DeclArr(Ty, Name, Vec<E>),       // element type with array type in Ty::Array, aggregate init
    Expr(E),
    If(E, Vec<St>, Option<Vec<St>>),
    For(Name, u32, Vec<St>),             // for (int i = 0; i < n; i++)
    ForMulti(Name, Name, u32, Vec<St>),  // for (int i = 0, j = n; i < j; i++, j--)
    While(Name, u32, Vec<St>),           // int w = 0; while (w++ < n)
    DoWhile(Name, u32, Vec<St>),         // int w = 0; do { } while (++w < n);
    Switch(E, Vec<(Vec<i32>, Vec<St>)>, Vec<St>), // cases (labels, body ending in break), default body
    Break,
    Continue,
    Return(Option<E>),
    Block(Vec<St>),
}

#[derive(Clone, Debug)]
pub struct Param {
    pub name: Name,
    pub ty: Ty,
    /// 0 in, 1 out, 2 inout
    pub io: u8,
    pub default: Option<E>,
}

#[derive(Clone, Debug)]
pub struct Func {
    pub name: Name,
    pub ret: Ty,
    pub params: Vec<Param>,
    pub body: Vec<St>,
    /// template header text, e.g. "template<typename T>" with T's name entity
    pub template: Option<(Name, bool)>, // (param name, is_value_param)
    pub writes_statics: bool,
    pub reads_statics: bool,
    pub has_out: bool,
    pub attrs: String,
    /// struct index when this is a method
    pub method_of: Option<usize>,
    /// forward declaration before the definition: 0 none, 1 defaults on both, 2 defaults only on the declaration,
    /// 3 defaults only on the definition
    pub proto: u8,
}

#[derive(Clone, Debug)]
pub struct StructDef {
    pub name: Name,
    pub fields: Vec<(Name, Ty)>,
    pub methods: Vec<Func>,
}

#[derive(Clone, Debug)]
pub struct EnumDef {
    pub name: Name,
    pub values: Vec<(Name, Option<i32>)>,
}

#[derive(Clone, Debug)]
pub struct Global {
    pub name: Name,
    pub ty: Ty,
    /// "static", "static const", "groupshared"
    pub storage: &'static str,
    pub init: Option<E>,
    pub init_list: Option<Vec<E>>,
}

#[derive(Clone, Debug)]
pub struct Resource {
    pub name: Name,
    /// rendered type, e.g. "Texture2D<float4>"
    pub ty_text: String,
    pub kind: &'static str,
    pub array: Option<u32>,
    pub prefix: String,
    pub suffix: String,
    pub cbuffer_members: Vec<(Name, Ty)>,
    pub static_sampler: bool,
    pub bindless: bool,
    pub group: Option<u32>,
    /// the array type is introduced by a typedef: `typedef T TD[n]; TD name;`
    pub via_typedef: bool,
}

#[derive(Clone, Debug)]
pub struct Pipeline {
    pub name: Name,
    /// (stage property name, function name)
    pub stages: Vec<(&'static str, Name)>,
    pub default_group: Option<u32>,
    pub extra: String,
}

/// A piece of templated top-level text: literal text or a renamable identifier.
#[derive(Clone, Debug)]
pub enum Frag {
    T(String),
    N(Name),
}

#[derive(Clone, Debug)]
pub struct SceneResource {
    pub res: usize,
    /// kind label, e.g. "Texture2D"
    pub kind: &'static str,
}

#[derive(Clone, Debug, Default)]
pub struct SceneInfo {
    /// per pipeline: (pipeline name, stage kinds in order, entry function names, thread group size of the compute-like stages)
    pub pipelines: Vec<ScenePipeline>,
    /// reader function name -> resource indices it touches (directly)
    pub readers: Vec<(Name, Vec<usize>)>,
}

#[derive(Clone, Debug)]
pub struct ScenePipeline {
    pub name: Name,
    pub kind: &'static str,
    pub stages: Vec<(&'static str, Name)>,
    pub numthreads: Option<(u32, u32, u32)>,
    /// resources reachable from the entry points (indices into prog.resources)
    pub reachable: Vec<usize>,
    pub default_group: Option<u32>,
}

#[derive(Clone, Debug)]
pub enum Item {
    Raw(usize),
    Struct(usize),
    Enum(usize),
    Global(usize),
    Func(usize),
    Resource(usize),
    Pipeline(usize),
    NamespaceBegin(Name),
    NamespaceEnd,
}

#[derive(Clone, Debug, Default)]
pub struct Prog {
    pub names: Vec<String>,
    pub structs: Vec<StructDef>,
    pub enums: Vec<EnumDef>,
    pub globals: Vec<Global>,
    pub funcs: Vec<Func>,
    pub resources: Vec<Resource>,
    pub pipelines: Vec<Pipeline>,
    pub items: Vec<Item>,
    /// namespace path (names) of each function, for qualified calls
    pub func_ns: Vec<Vec<Name>>,
    /// namespace path of the static variables declared inside a namespace
    pub global_ns: std::collections::HashMap<Name, Vec<Name>>,
    pub raws: Vec<Vec<Frag>>,
    pub scene: SceneInfo,
}

#[derive(Clone, Debug)]
pub struct Profile {
    pub double: bool,
    /// Metal target: avoid constructs the Metal back end rejects with a diagnostic
    pub msl: bool,
    pub half: bool,
    pub structs: bool,
    pub methods: bool,
    pub arrays: bool,
    pub enums: bool,
    pub vectors: bool,
    pub statics: bool,
    pub templates: bool,
    pub overloads: bool,
    pub out_params: bool,
    pub defaults: bool,
    pub intrinsics: bool,
    pub switch: bool,
    pub loops: bool,
    pub seq_effects: bool,
    /// initialisers, assignments, arguments and returns may have another (implicitly convertible) type
    pub implicit: bool,
    /// forward declarations of functions, with default arguments on the declaration, the definition or both
    pub prototypes: bool,
    pub namespaces: bool,
    pub resources: bool,
    pub pipelines: bool,
    pub pipeline_range: (usize, usize),
    /// task shaders may dispatch with two payload types (accepted by the front end; only used where the result is
    /// compared with itself)
    pub multi_payload: bool,
    pub max_funcs: usize,
    pub expr_depth: u32,
    pub stmt_depth: u32,
    /// avoid shapes behind known findings (see known_findings.json); counted in `diverted`
    pub avoid: Vec<&'static str>,
}

impl Profile {
    pub fn exec_hlsl() -> Profile {
        Profile {
            double: true,
            msl: false,
            half: false,
            structs: true,
            methods: true,
            arrays: true,
            enums: true,
            vectors: true,
            statics: true,
            templates: true,
            overloads: true,
            out_params: true,
            defaults: true,
            intrinsics: true,
            switch: true,
            loops: true,
            seq_effects: true,
            implicit: true,
            prototypes: true,
            namespaces: true,
            resources: false,
            pipelines: false,
            pipeline_range: (1, 3),
            multi_payload: false,
            max_funcs: 7,
            expr_depth: 5,
            stmt_depth: 3,
            avoid: Vec::new(),
        }
    }
    pub fn exec_msl() -> Profile {
        Profile { double: false, msl: true, ..Profile::exec_hlsl() }
    }
    pub fn full() -> Profile {
        Profile { namespaces: true, resources: true, pipelines: true, half: false, double: false, msl: true, max_funcs: 3, ..Profile::exec_hlsl() }
    }
}

#[derive(Clone, Debug)]
struct VarInfo {
    name: Name,
    ty: Ty,
    is_const: bool,
    /// loop counters and other variables the body must not write
    frozen: bool,
    is_static: bool,
}

pub struct Gen<'a> {
    choices: &'a [u32],
    pos: usize,
    pub prog: Prog,
    pub prof: Profile,
    scopes: Vec<Vec<VarInfo>>,
    statics: Vec<VarInfo>,
    cur_ret: Ty,
    in_loop: u32,
    cur_writes_statics: bool,
    cur_reads_statics: bool,
    cur_struct: Option<usize>,
    pub implicit_sites: u32,
    cur_ns: Vec<Name>,
    /// (struct index, index in its method list)
    methods: Vec<(usize, usize)>,
    ns_pool: Vec<(Vec<Name>, Name)>,
    /// functions callable from the function being generated (indices into prog.funcs)
    callable: Vec<usize>,
    pub diverted: u32,
    fuel: u32,
}

const IDENT_POOL: &[&str] = &[
    "alpha", "beta", "gamma", "delta", "omega", "count", "index", "value", "result", "temp", "accum", "weight", "scale", "offset", "mask", "bits", "flag",
    "state", "total", "limit", "coord", "pos", "dir", "col", "norm", "uv", "data", "item", "node", "lhs", "rhs", "acc", "tmp", "val", "idx", "num",
];

impl<'a> Gen<'a> {
    pub fn new(choices: &'a [u32], prof: Profile) -> Gen<'a> {
        Gen {
            choices,
            pos: 0,
            prog: Prog::default(),
            prof,
            scopes: Vec::new(),
            statics: Vec::new(),
            cur_ret: Ty::Void,
            in_loop: 0,
            cur_writes_statics: false,
            cur_reads_statics: false,
            cur_struct: None,
            implicit_sites: 0,
            cur_ns: Vec::new(),
            methods: Vec::new(),
            ns_pool: Vec::new(),
            callable: Vec::new(),
            diverted: 0,
            fuel: 4000,
        }
    }

    /// next choice in 0..n (0 when the sequence is exhausted: the minimal alternative)
    pub fn pick(&mut self, n: usize) -> usize {
        if n <= 1 {
            return 0;
        }
        let v = self.choices.get(self.pos).copied().unwrap_or(0);
        self.pos += 1;
        if self.fuel == 0 {
            return 0;
        }
        self.fuel -= 1;
        (v as usize) % n
    }
    fn chance(&mut self, num: usize, den: usize) -> bool {
        self.pick(den) < num && self.pos <= self.choices.len()
    }
    fn exhausted(&self) -> bool {
        self.pos >= self.choices.len() || self.fuel == 0
    }

    fn fresh(&mut self, hint: &str) -> Name {
        let base = if hint.is_empty() { IDENT_POOL[self.pick(IDENT_POOL.len())].to_string() } else { hint.to_string() };
        let n = self.prog.names.len();
        self.prog.names.push(format!("{}_{}", base, n));
        n
    }

    // ---- types

    fn scalar_pool(&self) -> Vec<Sc> {
        let mut v = vec![Sc::Int, Sc::UInt, Sc::Float, Sc::Bool];
        if self.prof.double {
            v.push(Sc::Double);
        }
        if self.prof.half {
            v.push(Sc::Half);
        }
        v
    }

    fn pick_scalar(&mut self) -> Sc {
        let pool = self.scalar_pool();
        // int and float are the most common
        match self.pick(8) {
            0 | 1 => Sc::Int,
            2 | 3 => Sc::Float,
            4 => Sc::UInt,
            _ => pool[self.pick(pool.len())],
        }
    }

    fn pick_value_ty(&mut self) -> Ty {
        match self.pick(10) {
            0..=4 => Ty::S(self.pick_scalar()),
            5 | 6 if self.prof.vectors => {
                let sc = [Sc::Float, Sc::Int, Sc::UInt, Sc::Float][self.pick(4)];
                Ty::V(sc, 2 + self.pick(3) as u8)
            }
            7 if self.prof.structs && !self.prog.structs.is_empty() => Ty::Struct(self.pick(self.prog.structs.len())),
            8 if self.prof.enums && !self.prog.enums.is_empty() => Ty::Enum(self.pick(self.prog.enums.len())),
            _ => Ty::S(self.pick_scalar()),
        }
    }

    pub fn ty_text(&self, t: &Ty) -> String {
        match t {
            Ty::Void => "void".into(),
            Ty::S(s) => s.name().into(),
            Ty::V(s, n) => format!("{}{}", s.name(), n),
            Ty::Struct(i) => self.prog.names[self.prog.structs[*i].name].clone(),
            Ty::Enum(i) => self.prog.names[self.prog.enums[*i].name].clone(),
            Ty::Array(inner, _) => self.ty_text(inner),
        }
    }

    // ---- environment

    fn visible(&self) -> Vec<VarInfo> {
        let mut v: Vec<VarInfo> = self.scopes.iter().flatten().cloned().collect();
        v.extend(self.statics.iter().cloned());
        v
    }

    fn vars_of(&self, ty: &Ty, need_lvalue: bool) -> Vec<VarInfo> {
        self.visible().into_iter().filter(|v| &v.ty == ty && (!need_lvalue || (!v.is_const && !v.frozen))).collect()
    }

    fn note_static(&mut self, v: &VarInfo, write: bool) {
        if v.is_static {
            if write {
                self.cur_writes_statics = true;
            } else {
                self.cur_reads_statics = true;
            }
        }
    }

    // ---- literals

    fn int_lit(&mut self) -> i64 {
        match self.pick(12) {
            0 => 0,
            1 => 1,
            2 => 2,
            3 => 3,
            4 => 7,
            5 => 31,
            6 => 32,
            7 => 100,
            8 => 255,
            9 => 1000,
            _ => self.pick(64) as i64,
        }
    }

    fn lit(&mut self, sc: Sc) -> E {
        let t = Ty::S(sc);
        match sc {
            Sc::Bool => E::Lit(if self.pick(2) == 0 { "false".into() } else { "true".into() }, t),
            Sc::Int => {
                let v = self.int_lit();
                match self.pick(10) {
                    0 => E::Cast(Ty::S(Sc::Int), Box::new(E::Lit("2147483647".into(), Ty::S(Sc::Int)))),
                    1 => E::Un("-", Box::new(E::Lit(v.to_string(), t))),
                    _ => E::Lit(v.to_string(), t),
                }
            }
            Sc::UInt => {
                let v = match self.pick(10) {
                    0 => 4294967295u64,
                    1 => 2147483648u64,
                    _ => self.int_lit() as u64,
                };
                E::Lit(format!("{}u", v), t)
            }
            Sc::Half => {
                const H: &[&str] = &["0.0h", "1.0h", "0.5h", "2.0h", "1.5h", "0.25h"];
                E::Lit(H[self.pick(H.len())].into(), t)
            }
            Sc::Float => {
                const F: &[&str] = &["0.0", "1.0", "0.5", "2.0", "1.5", "0.25", "3.0", "10.0", "0.1", "100.5", "0.001", "1e10", "1e-10", "16777216.0", "0.333"];
                let s = F[self.pick(F.len())];
                if self.pick(2) == 0 { E::Lit(format!("{}f", s), t) } else { E::Lit(s.to_string(), t) }
            }
            Sc::Double => {
                const D: &[&str] = &["0.0L", "1.0L", "0.5L", "2.0L", "1.5L", "0.1L", "1e100L", "3.0L"];
                E::Lit(D[self.pick(D.len())].into(), t)
            }
        }
    }

    /// Intrinsics are overloaded: an untyped literal argument would make the call ambiguous, so literals are cast.
    fn intr(name: &'static str, args: Vec<E>) -> E {
        let args = args
            .into_iter()
            .map(|a| match &a {
                E::Lit(_, t) => E::Cast(t.clone(), Box::new(a)),
                E::Un(_, inner) if Self::is_lit(inner) => {
                    let t = Self::lit_ty(inner);
                    E::Cast(t, Box::new(a))
                }
                _ => a,
            })
            .collect();
        E::Intrinsic(name, args)
    }

    /// Conservative: may the RSSL type of this expression be an untyped literal type?
    fn lit_typed(e: &E) -> bool {
        match e {
            E::Lit(s, _) => {
                let last = s.chars().last().unwrap_or('0');
                s != "true" && s != "false" && (last.is_ascii_digit() || last == '.')
            }
            E::Un(op, i) => *op != "!" && Self::lit_typed(i),
            E::Bin(op, a, b) => {
                !matches!(*op, "<" | "<=" | ">" | ">=" | "==" | "!=" | "&&" | "||") && Self::weak_typed(a) && Self::weak_typed(b) && (Self::lit_typed(a) || Self::lit_typed(b))
            }
            E::Ternary(_, a, b) => Self::lit_typed(a) && Self::lit_typed(b),
            E::Comma(_, b) => Self::lit_typed(b),
            _ => false,
        }
    }

    /// literal-typed, or of a type less significant than every literal type (bool, enum)
    fn weak_typed(e: &E) -> bool {
        if Self::lit_typed(e) {
            return true;
        }
        match e {
            E::Lit(s, _) => s == "true" || s == "false",
            E::Cast(Ty::S(Sc::Bool), _) | E::Cast(Ty::Enum(_), _) | E::EnumVal(..) => true,
            E::Var(_, Ty::S(Sc::Bool)) | E::Var(_, Ty::Enum(_)) => true,
            E::Un(op, _) if *op == "!" => true,
            E::Bin(op, ..) if matches!(*op, "<" | "<=" | ">" | ">=" | "==" | "!=" | "&&" | "||") => true,
            _ => false,
        }
    }

    fn lit_ty(e: &E) -> Ty {
        match e {
            E::Lit(_, t) => t.clone(),
            E::Un(_, i) => Self::lit_ty(i),
            _ => Ty::S(Sc::Int),
        }
    }

    fn is_lit(e: &E) -> bool {
        match e {
            E::Lit(..) => true,
            E::Un(_, i) => Self::is_lit(i),
            _ => false,
        }
    }

    // ---- expressions (pure)

    /// A pure expression of exactly type `ty`.
    pub fn expr(&mut self, ty: &Ty, depth: u32) -> E {
        if depth == 0 || self.exhausted() {
            return self.leaf(ty);
        }
        let e = match ty {
            Ty::S(Sc::Bool) => self.bool_expr(depth),
            Ty::S(sc) => self.num_expr(*sc, depth),
            Ty::V(sc, n) => self.vec_expr(*sc, *n, depth),
            Ty::Struct(_) | Ty::Enum(_) | Ty::Array(..) => self.other_expr(ty, depth),
            Ty::Void => unreachable!(),
        };
        // `c ? 1.0 : 2.0`, `-(3)` ... have an untyped literal type in RSSL: pin them to the requested type so that
        // the generator's typing (and with it overload resolution and operand ranking) stays exact
        if !Self::is_lit(&e) && Self::lit_typed(&e) { E::Cast(ty.clone(), Box::new(e)) } else { e }
    }

    /// An expression that is implicitly convertible to `ty`: usually of exactly that type, sometimes of
    /// another scalar kind, a scalar for a vector (splat) or a longer vector (truncation).
    pub fn conv_expr(&mut self, ty: &Ty, depth: u32) -> E {
        if !self.prof.implicit || self.exhausted() || self.pick(4) != 0 {
            return self.expr(ty, depth);
        }
        let kinds: Vec<Sc> = self.scalar_pool();
        let src = match ty {
            Ty::S(sc) => {
                let others: Vec<Sc> = kinds.iter().copied().filter(|k| k != sc).collect();
                Ty::S(others[self.pick(others.len())])
            }
            Ty::V(sc, n) if self.prof.vectors => match self.pick(4) {
                0 => Ty::S(*sc),
                1 => {
                    let others: Vec<Sc> = [Sc::Int, Sc::UInt, Sc::Float].into_iter().filter(|k| k != sc).collect();
                    Ty::S(others[self.pick(others.len())])
                }
                2 if *n < 4 => Ty::V(*sc, n + 1),
                _ => {
                    let others: Vec<Sc> = [Sc::Int, Sc::UInt, Sc::Float].into_iter().filter(|k| k != sc).collect();
                    Ty::V(others[self.pick(others.len())], *n)
                }
            },
            other => other.clone(),
        };
        self.implicit_sites += 1;
        self.expr(&src, depth)
    }

    fn leaf(&mut self, ty: &Ty) -> E {
        let vars = self.vars_of(ty, false);
        if !vars.is_empty() && self.pick(3) != 0 {
            let v = vars[self.pick(vars.len())].clone();
            self.note_static(&v, false);
            return E::Var(v.name, v.ty);
        }
        match ty {
            Ty::S(sc) => self.lit(*sc),
            Ty::V(sc, n) => {
                // vector literal by constructor of literals, or splat cast
                if self.pick(3) == 0 {
                    E::Cast(ty.clone(), Box::new(self.lit(*sc)))
                } else {
                    let args = (0..*n).map(|_| self.lit(*sc)).collect();
                    E::Ctor(ty.clone(), args)
                }
            }
            Ty::Enum(i) => {
                let vals = self.prog.enums[*i].values.clone();
                let k = self.pick(vals.len());
                E::EnumVal(*i, vals[k].0)
            }
            Ty::Struct(_) | Ty::Array(..) => {
                let vars = self.vars_of(ty, false);
                if !vars.is_empty() {
                    let v = vars[self.pick(vars.len())].clone();
                    self.note_static(&v, false);
                    E::Var(v.name, v.ty)
                } else {
                    // callers guarantee a variable of this type exists (see `ensure_var`)
                    E::Cast(ty.clone(), Box::new(E::Lit("0".into(), Ty::S(Sc::Int))))
                }
            }
            Ty::Void => unreachable!(),
        }
    }

    /// scalar-typed sub-expressions reachable through members / indices / swizzles
    fn access_expr(&mut self, ty: &Ty, need_lvalue: bool, depth: u32) -> Option<E> {
        let vis = self.visible();
        let mut cands: Vec<(VarInfo, u8)> = Vec::new();
        for v in vis {
            if need_lvalue && (v.is_const || v.frozen) {
                continue;
            }
            match (&v.ty, ty) {
                (Ty::V(sc, _), Ty::S(s2)) if sc == s2 => cands.push((v, 0)),
                (Ty::V(sc, n), Ty::V(s2, m)) if sc == s2 && (m <= n || !need_lvalue) && !(need_lvalue && m > n) => cands.push((v, 1)),
                (Ty::Array(inner, _), t) if **inner == *t => cands.push((v, 2)),
                (Ty::Struct(i), t) if self.prog.structs[*i].fields.iter().any(|f| &f.1 == t) => cands.push((v, 3)),
                _ => {}
            }
        }
        if cands.is_empty() {
            return None;
        }
        let (v, how) = cands[self.pick(cands.len())].clone();
        self.note_static(&v, need_lvalue);
        if !need_lvalue {
            self.note_static(&v, false);
        }
        let base = E::Var(v.name, v.ty.clone());
        Some(match how {
            0 => {
                let Ty::V(_, n) = v.ty else { unreachable!() };
                let c = ["x", "y", "z", "w"][self.pick(n as usize)];
                E::Swizzle(Box::new(base), c.to_string())
            }
            1 => {
                let (Ty::V(_, n), Ty::V(_, m)) = (&v.ty, ty) else { unreachable!() };
                // distinct components when an lvalue is needed
                let comps = ["x", "y", "z", "w"];
                let mut s = String::new();
                let mut used = [false; 4];
                for _ in 0..*m {
                    let mut k = self.pick(*n as usize);
                    if need_lvalue {
                        let mut tries = 0;
                        while used[k] && tries < 4 {
                            k = (k + 1) % (*n as usize);
                            tries += 1;
                        }
                        used[k] = true;
                    }
                    s.push_str(comps[k]);
                }
                E::Swizzle(Box::new(base), s)
            }
            2 => {
                let Ty::Array(_, len) = &v.ty else { unreachable!() };
                let idx = self.index_expr(*len, depth);
                E::Index(Box::new(base), Box::new(idx))
            }
            _ => {
                let Ty::Struct(i) = &v.ty else { unreachable!() };
                let fields: Vec<(Name, Ty)> = self.prog.structs[*i].fields.iter().filter(|f| &f.1 == ty).cloned().collect();
                let f = fields[self.pick(fields.len())].clone();
                E::Member(Box::new(base), f.0)
            }
        })
    }

    /// an in-range index expression for an array of `len` elements
    fn index_expr(&mut self, len: u32, depth: u32) -> E {
        if self.pick(2) == 0 || depth == 0 {
            E::Lit(self.pick(len as usize).to_string(), Ty::S(Sc::Int))
        } else {
            let e = self.expr(&Ty::S(Sc::UInt), depth.saturating_sub(1).min(2));
            E::Bin("%", Box::new(e), Box::new(E::Lit(format!("{}u", len), Ty::S(Sc::UInt))))
        }
    }

    fn call_expr(&mut self, ty: &Ty, depth: u32) -> Option<E> {
        // inside a method: an earlier method of the same struct, called without naming an object
        if let Some(si) = self.cur_struct {
            let siblings: Vec<Func> = self.prog.structs[si].methods.iter().filter(|m| &m.ret == ty && !m.has_out && !m.writes_statics).cloned().collect();
            if !siblings.is_empty() && self.pick(2) == 0 {
                let m = siblings[self.pick(siblings.len())].clone();
                if m.reads_statics {
                    self.cur_reads_statics = true;
                }
                let mut args = Vec::new();
                for p in &m.params {
                    let mut a = if m.template.is_some() { self.expr(&p.ty, depth.saturating_sub(1)) } else { self.conv_expr(&p.ty, depth.saturating_sub(1)) };
                    if Self::is_lit(&a) {
                        a = E::Cast(p.ty.clone(), Box::new(a));
                    }
                    args.push(a);
                }
                return Some(match m.template {
                    Some((_, false)) if self.pick(2) == 0 => E::CallT(m.name, self.ty_text(&m.ret), args),
                    _ => E::Call(m.name, args),
                });
            }
        }
        // pure calls only: no out parameters, no static writes
        let cands: Vec<usize> = self
            .callable
            .iter()
            .copied()
            .filter(|i| {
                let f = &self.prog.funcs[*i];
                &f.ret == ty && !f.has_out && !f.writes_statics && f.method_of.is_none() && !f.params.iter().any(|p| matches!(p.ty, Ty::Array(..)))
            })
            .collect();
        if cands.is_empty() {
            return None;
        }
        let fi = cands[self.pick(cands.len())];
        Some(self.build_call(fi, depth))
    }

    fn build_call(&mut self, fi: usize, depth: u32) -> E {
        let f = self.prog.funcs[fi].clone();
        if f.reads_statics {
            self.cur_reads_statics = true;
        }
        if f.writes_statics {
            self.cur_writes_statics = true;
        }
        let mut args = Vec::new();
        let nparams = f.params.len();
        // trailing defaults may be omitted
        let mut keep = nparams;
        while keep > 0 && f.params[keep - 1].default.is_some() && self.pick(2) == 0 {
            keep -= 1;
        }
        // an argument of another type would change which overload or template instance is selected
        let exact = f.template.is_some() || self.prog.funcs.iter().filter(|g| g.name == f.name).count() > 1;
        for p in f.params.iter().take(keep) {
            let mut a = if exact { self.expr(&p.ty, depth.saturating_sub(1)) } else { self.conv_expr(&p.ty, depth.saturating_sub(1)) };
            // an untyped literal argument makes overload resolution ambiguous between int and uint: cast it
            if Self::is_lit(&a) {
                a = E::Cast(p.ty.clone(), Box::new(a));
            }
            args.push(a);
        }
        match f.template {
            Some((_, true)) => E::CallT(f.name, format!("{}", 1 + self.pick(5)), args),
            Some((_, false)) => {
                if self.pick(2) == 0 {
                    E::CallT(f.name, self.ty_text(&f.ret), args)
                } else {
                    E::Call(f.name, args)
                }
            }
            None => {
                let ns = self.prog.func_ns[fi].clone();
                if ns.is_empty() { E::Call(f.name, args) } else { E::QCall(ns, f.name, args) }
            }
        }
    }

    fn num_expr(&mut self, sc: Sc, depth: u32) -> E {
        let ty = Ty::S(sc);
        let d = depth - 1;
        loop {
            match self.pick(16) {
                0 | 1 => return self.leaf(&ty),
                2 => {
                    if let Some(e) = self.access_expr(&ty, false, d) {
                        return e;
                    }
                }
                3..=6 => {
                    // arithmetic on the same type
                    let ops: &[&'static str] = if sc.is_int() { &["+", "-", "*", "/", "%", "+", "-", "*"] } else { &["+", "-", "*", "/", "+", "*"] };
                    let op = ops[self.pick(ops.len())];
                    let mut a = self.expr(&ty, d);
                    let b = self.expr(&ty, d);
                    if Self::is_lit(&a) && Self::is_lit(&b) {
                        a = E::Cast(ty.clone(), Box::new(a));
                    }
                    return E::Bin(op, Box::new(a), Box::new(b));
                }
                7 if sc.is_int() => {
                    let ops: &[&'static str] = &["&", "|", "^", "<<", ">>"];
                    let op = ops[self.pick(ops.len())];
                    let mut a = self.expr(&ty, d);
                    let b = self.expr(&ty, d);
                    if Self::is_lit(&a) && Self::is_lit(&b) {
                        a = E::Cast(ty.clone(), Box::new(a));
                    }
                    return E::Bin(op, Box::new(a), Box::new(b));
                }
                8 => {
                    // mixed operand types: the other operand is less significant, so the result keeps `sc`
                    let lower: Vec<Sc> = self.scalar_pool().into_iter().filter(|s| s.rank() < sc.rank()).collect();
                    if lower.is_empty() {
                        continue;
                    }
                    let other = lower[self.pick(lower.len())];
                    let ops: &[&'static str] = if sc.is_int() { &["+", "-", "*", "&", "|"] } else { &["+", "-", "*", "/"] };
                    let op = ops[self.pick(ops.len())];
                    let mut a = self.expr(&ty, d);
                    let mut b = self.expr(&Ty::S(other), d);
                    if Self::lit_typed(&a) {
                        a = E::Cast(ty.clone(), Box::new(a));
                    }
                    if Self::lit_typed(&b) {
                        b = E::Cast(Ty::S(other), Box::new(b));
                    }
                    return if self.pick(2) == 0 { E::Bin(op, Box::new(a), Box::new(b)) } else { E::Bin(op, Box::new(b), Box::new(a)) };
                }
                9 => {
                    let op = if sc.is_int() && self.pick(3) == 0 { "~" } else if self.pick(4) == 0 { "+" } else { "-" };
                    let inner = self.expr(&ty, d);
                    if op == "-" || op == "+" {
                        // `-(-x)` and `+(+x)` are printed as `--x` / `++x` by the exporter (known finding); see `avoid`
                        if let E::Un(o2, _) = &inner {
                            if *o2 == op && self.prof.avoid.contains(&"same-sign-unary") {
                                self.diverted += 1;
                                return inner;
                            }
                        }
                    }
                    return E::Un(op, Box::new(inner));
                }
                10 => {
                    let c = self.expr(&Ty::S(Sc::Bool), d);
                    let a = self.expr(&ty, d);
                    let b = self.expr(&ty, d);
                    return E::Ternary(Box::new(c), Box::new(a), Box::new(b));
                }
                11 => {
                    // conversion from another scalar type
                    let pool = self.scalar_pool();
                    let from = pool[self.pick(pool.len())];
                    if from == sc {
                        continue;
                    }
                    let inner = self.expr(&Ty::S(from), d);
                    return E::Cast(ty.clone(), Box::new(inner));
                }
                12 => {
                    if let Some(e) = self.call_expr(&ty, d) {
                        return e;
                    }
                }
                13 | 14 if self.prof.intrinsics => {
                    if let Some(e) = self.intrinsic_scalar(sc, d) {
                        return e;
                    }
                }
                15 if self.prof.enums && sc == Sc::Int && !self.prog.enums.is_empty() => {
                    let ei = self.pick(self.prog.enums.len());
                    let inner = self.expr(&Ty::Enum(ei), d);
                    return E::Cast(ty.clone(), Box::new(inner));
                }
                _ => {}
            }
            if self.exhausted() {
                return self.leaf(&ty);
            }
        }
    }

    fn intrinsic_scalar(&mut self, sc: Sc, d: u32) -> Option<E> {
        let t = Ty::S(sc);
        match sc {
            Sc::Float => {
                let one: &[&'static str] = &["abs", "floor", "ceil", "trunc", "frac", "saturate", "sqrt", "rcp", "exp2", "round"];
                match self.pick(9) {
                    0..=2 => {
                        let n = one[self.pick(one.len())];
                        Some(Self::intr(n, vec![self.expr(&t, d)]))
                    }
                    3 => {
                        let n = ["min", "max", "step", "pow", "fmod"][self.pick(5)];
                        Some(Self::intr(n, vec![self.expr(&t, d), self.expr(&t, d)]))
                    }
                    4 => {
                        let n = ["clamp", "lerp", "smoothstep"][self.pick(3)];
                        Some(Self::intr(n, vec![self.expr(&t, d), self.expr(&t, d), self.expr(&t, d)]))
                    }
                    5 if self.prof.vectors => {
                        let n = 2 + self.pick(3) as u8;
                        let vt = Ty::V(Sc::Float, n);
                        let name = ["dot", "distance"][self.pick(2)];
                        Some(Self::intr(name, vec![self.expr(&vt, d), self.expr(&vt, d)]))
                    }
                    6 if self.prof.vectors => {
                        let n = 2 + self.pick(3) as u8;
                        Some(Self::intr("length", vec![self.expr(&Ty::V(Sc::Float, n), d)]))
                    }
                    7 => Some(Self::intr("asfloat", vec![self.expr(&Ty::S(Sc::UInt), d)])),
                    _ => Some(Self::intr("select", vec![self.expr(&Ty::S(Sc::Bool), d), self.expr(&t, d), self.expr(&t, d)])),
                }
            }
            Sc::Int => match self.pick(7) {
                0 => Some(Self::intr("abs", vec![self.expr(&t, d)])),
                1 => {
                    let n = ["min", "max"][self.pick(2)];
                    Some(Self::intr(n, vec![self.expr(&t, d), self.expr(&t, d)]))
                }
                2 => Some(Self::intr("clamp", vec![self.expr(&t, d), self.expr(&t, d), self.expr(&t, d)])),
                3 => {
                    let from = [Sc::UInt, Sc::Float][self.pick(2)];
                    Some(Self::intr("asint", vec![self.expr(&Ty::S(from), d)]))
                }
                4 => {
                    let from = [Sc::Int, Sc::Float][self.pick(2)];
                    Some(Self::intr("sign", vec![self.expr(&Ty::S(from), d)]))
                }
                5 if self.prof.vectors && !self.prof.msl => {
                    let n = 2 + self.pick(3) as u8;
                    let vt = Ty::V(Sc::Int, n);
                    Some(Self::intr("dot", vec![self.expr(&vt, d), self.expr(&vt, d)]))
                }
                _ => Some(Self::intr("select", vec![self.expr(&Ty::S(Sc::Bool), d), self.expr(&t, d), self.expr(&t, d)])),
            },
            Sc::UInt => match self.pick(4) {
                0 => {
                    let n = ["countbits", "reversebits"][self.pick(2)];
                    Some(Self::intr(n, vec![self.expr(&t, d)]))
                }
                1 => {
                    let from = [Sc::Int, Sc::Float][self.pick(2)];
                    Some(Self::intr("asuint", vec![self.expr(&Ty::S(from), d)]))
                }
                _ => Some(Self::intr("select", vec![self.expr(&Ty::S(Sc::Bool), d), self.expr(&t, d), self.expr(&t, d)])),
            },
            _ => None,
        }
    }

    fn bool_expr(&mut self, depth: u32) -> E {
        let d = depth - 1;
        let ty = Ty::S(Sc::Bool);
        loop {
            match self.pick(12) {
                0 => return self.leaf(&ty),
                1..=4 => {
                    let sc = self.pick_scalar();
                    let sc = if sc == Sc::Bool { Sc::Int } else { sc };
                    let ops: &[&'static str] = &["<", "<=", ">", ">=", "==", "!="];
                    let op = ops[self.pick(ops.len())];
                    let mut a = self.expr(&Ty::S(sc), d);
                    let b = self.expr(&Ty::S(sc), d);
                    if Self::is_lit(&a) && Self::is_lit(&b) {
                        a = E::Cast(Ty::S(sc), Box::new(a));
                    }
                    return E::Bin(op, Box::new(a), Box::new(b));
                }
                5 | 6 => {
                    let op = ["&&", "||"][self.pick(2)];
                    let a = self.expr(&ty, d);
                    let b = self.expr(&ty, d);
                    return E::Bin(op, Box::new(a), Box::new(b));
                }
                7 => return E::Un("!", Box::new(self.expr(&ty, d))),
                8 => {
                    let pool = self.scalar_pool();
                    let from = pool[self.pick(pool.len())];
                    if from == Sc::Bool {
                        continue;
                    }
                    return E::Cast(ty.clone(), Box::new(self.expr(&Ty::S(from), d)));
                }
                9 if self.prof.vectors && self.prof.intrinsics => {
                    let sc = [Sc::Float, Sc::Int, Sc::UInt][self.pick(3)];
                    let n = 2 + self.pick(3) as u8;
                    let vt = Ty::V(sc, n);
                    let ops: &[&'static str] = &["<", "<=", ">", ">=", "==", "!="];
                    let op = ops[self.pick(ops.len())];
                    let cmp = E::Bin(op, Box::new(self.expr(&vt, d)), Box::new(self.expr(&vt, d)));
                    return Self::intr(["any", "all"][self.pick(2)], vec![cmp]);
                }
                10 if self.prof.enums && !self.prog.enums.is_empty() => {
                    let ei = self.pick(self.prog.enums.len());
                    let et = Ty::Enum(ei);
                    let op = ["==", "!="][self.pick(2)];
                    return E::Bin(op, Box::new(self.expr(&et, d)), Box::new(self.expr(&et, d)));
                }
                11 => {
                    if let Some(e) = self.call_expr(&ty, d) {
                        return e;
                    }
                    if let Some(e) = self.access_expr(&ty, false, d) {
                        return e;
                    }
                }
                _ => {}
            }
            if self.exhausted() {
                return self.leaf(&ty);
            }
        }
    }

    fn vec_expr(&mut self, sc: Sc, n: u8, depth: u32) -> E {
        let d = depth - 1;
        let ty = Ty::V(sc, n);
        let st = Ty::S(sc);
        loop {
            match self.pick(14) {
                0 => return self.leaf(&ty),
                1 | 2 => {
                    // constructor from mixed parts
                    let mut args = Vec::new();
                    let mut left = n;
                    while left > 0 {
                        let take = if left >= 2 && self.pick(3) == 0 { 2 + self.pick((left - 1).min(2) as usize) as u8 } else { 1 };
                        let take = take.min(left);
                        if take == 1 {
                            args.push(self.expr(&st, d));
                        } else {
                            args.push(self.expr(&Ty::V(sc, take), d));
                        }
                        left -= take;
                    }
                    return E::Ctor(ty.clone(), args);
                }
                3..=5 if sc != Sc::Bool => {
                    let ops: &[&'static str] = if sc.is_int() { &["+", "-", "*", "&", "|", "^"] } else { &["+", "-", "*", "/"] };
                    let op = ops[self.pick(ops.len())];
                    let a = self.expr(&ty, d);
                    // scalar operands are splatted
                    let b = if self.pick(3) == 0 {
                        let s = self.expr(&st, d);
                        if Self::is_lit(&s) { E::Cast(st.clone(), Box::new(s)) } else { s }
                    } else {
                        self.expr(&ty, d)
                    };
                    return if self.pick(4) == 0 { E::Bin(op, Box::new(b), Box::new(a)) } else { E::Bin(op, Box::new(a), Box::new(b)) };
                }
                6 => {
                    if let Some(e) = self.access_expr(&ty, false, d) {
                        return e;
                    }
                }
                7 if sc != Sc::Bool => return E::Un("-", Box::new(self.expr(&ty, d))),
                8 => {
                    let c = self.expr(&Ty::S(Sc::Bool), d);
                    return E::Ternary(Box::new(c), Box::new(self.expr(&ty, d)), Box::new(self.expr(&ty, d)));
                }
                9 if sc != Sc::Bool => {
                    let from = [Sc::Float, Sc::Int, Sc::UInt][self.pick(3)];
                    if from == sc {
                        continue;
                    }
                    return E::Cast(ty.clone(), Box::new(self.expr(&Ty::V(from, n), d)));
                }
                10 => {
                    if let Some(e) = self.call_expr(&ty, d) {
                        return e;
                    }
                }
                11 | 12 if self.prof.intrinsics && sc == Sc::Float => {
                    match self.pick(6) {
                        0 => {
                            let nme = ["abs", "floor", "ceil", "frac", "saturate", "trunc"][self.pick(6)];
                            return Self::intr(nme, vec![self.expr(&ty, d)]);
                        }
                        1 => {
                            let nme = ["min", "max", "step"][self.pick(3)];
                            return Self::intr(nme, vec![self.expr(&ty, d), self.expr(&ty, d)]);
                        }
                        2 => {
                            let nme = ["lerp", "clamp"][self.pick(2)];
                            return Self::intr(nme, vec![self.expr(&ty, d), self.expr(&ty, d), self.expr(&ty, d)]);
                        }
                        3 if n == 3 => return Self::intr("cross", vec![self.expr(&ty, d), self.expr(&ty, d)]),
                        4 => return Self::intr("normalize", vec![self.expr(&ty, d)]),
                        _ => {
                            let cmp = E::Bin("<", Box::new(self.expr(&ty, d)), Box::new(self.expr(&ty, d)));
                            return Self::intr("select", vec![cmp, self.expr(&ty, d), self.expr(&ty, d)]);
                        }
                    }
                }
                13 if sc != Sc::Bool => {
                    // splat
                    return E::Cast(ty.clone(), Box::new(self.expr(&st, d)));
                }
                _ => {}
            }
            if self.exhausted() {
                return self.leaf(&ty);
            }
        }
    }

    fn other_expr(&mut self, ty: &Ty, depth: u32) -> E {
        let d = depth - 1;
        match self.pick(5) {
            0 => {
                if let Some(e) = self.call_expr(ty, d) {
                    return e;
                }
            }
            1 if !matches!(ty, Ty::Array(..)) => {
                let c = self.expr(&Ty::S(Sc::Bool), d);
                return E::Ternary(Box::new(c), Box::new(self.expr(ty, d)), Box::new(self.expr(ty, d)));
            }
            3 if matches!(ty, Ty::Struct(_)) => {
                // a scalar converted to a struct fills every field with it; the operand is evaluated once
                let sc = [Sc::Int, Sc::Float, Sc::UInt][self.pick(3)];
                return E::Cast(ty.clone(), Box::new(self.expr(&Ty::S(sc), d)));
            }
            2 => {
                if let Ty::Enum(_) = ty {
                    return E::Cast(ty.clone(), Box::new(self.expr(&Ty::S(Sc::Int), d)));
                }
                if let Some(e) = self.access_expr(ty, false, d) {
                    return e;
                }
            }
            _ => {}
        }
        self.leaf(ty)
    }

    // ---- lvalues

    fn lvalue(&mut self, ty: &Ty, depth: u32) -> Option<E> {
        let vars = self.vars_of(ty, true);
        if !vars.is_empty() && self.pick(4) != 0 {
            let v = vars[self.pick(vars.len())].clone();
            self.note_static(&v, true);
            return Some(E::Var(v.name, v.ty));
        }
        if let Some(e) = self.access_expr(ty, true, depth) {
            return Some(e);
        }
        if !vars.is_empty() {
            let v = vars[0].clone();
            self.note_static(&v, true);
            return Some(E::Var(v.name, v.ty));
        }
        None
    }

    // ---- statements

    fn declare(&mut self, ty: Ty, is_const: bool, frozen: bool) -> Name {
        let n = self.fresh("");
        self.scopes.last_mut().unwrap().push(VarInfo { name: n, ty, is_const, frozen, is_static: false });
        n
    }

    fn block(&mut self, depth: u32, max: usize) -> Vec<St> {
        self.scopes.push(Vec::new());
        let n = 1 + self.pick(max);
        let mut out = Vec::new();
        for _ in 0..n {
            if self.exhausted() {
                break;
            }
            self.stmt(depth, &mut out);
        }
        self.scopes.pop();
        out
    }

    fn stmt(&mut self, depth: u32, out: &mut Vec<St>) {
        let ed = self.prof.expr_depth;
        match self.pick(20) {
            0..=3 => {
                // local declaration
                let ty = self.pick_value_ty();
                let init = self.conv_expr(&ty, ed);
                let is_const = self.pick(6) == 0;
                let name = self.declare(ty.clone(), is_const, false);
                out.push(St::Decl(ty, name, Some(init), is_const));
            }
            4 if self.prof.arrays && self.prof.structs && !self.prog.structs.is_empty() && self.pick(3) == 0 => {
                // a struct filled from a scalar whose evaluation has an effect: `S v = (S)arr[i++ & 1];` - the operand is
                // evaluated exactly once
                let ints: Vec<VarInfo> = self.vars_of(&Ty::S(Sc::Int), true).into_iter().filter(|v| !v.is_static).collect();
                let arrays: Vec<VarInfo> = self.visible().into_iter().filter(|v| matches!(&v.ty, Ty::Array(inner, _) if matches!(**inner, Ty::S(Sc::Int | Sc::UInt | Sc::Float)))).collect();
                if !ints.is_empty() && !arrays.is_empty() {
                    let i = ints[self.pick(ints.len())].clone();
                    let a = arrays[self.pick(arrays.len())].clone();
                    self.note_static(&a, false);
                    let sty = Ty::Struct(self.pick(self.prog.structs.len()));
                    let index = E::Bin("&", Box::new(E::PostInc("++", Box::new(E::Var(i.name, i.ty.clone())))), Box::new(E::Lit("1".into(), Ty::S(Sc::Int))));
                    let operand = E::Index(Box::new(E::Var(a.name, a.ty.clone())), Box::new(index));
                    let name = self.declare(sty.clone(), false, false);
                    out.push(St::Decl(sty.clone(), name, Some(E::Cast(sty, Box::new(operand))), false));
                } else {
                    let ty = Ty::S(Sc::Int);
                    let init = self.expr(&ty, 2);
                    let name = self.declare(ty.clone(), false, false);
                    out.push(St::Decl(ty, name, Some(init), false));
                }
            }
            4 if self.prof.arrays => {
                let sc = self.pick_scalar();
                let elem = if self.prof.vectors && self.pick(4) == 0 { Ty::V(Sc::Float, 2 + self.pick(3) as u8) } else { Ty::S(sc) };
                let len = 2 + self.pick(3) as u32;
                let inits: Vec<E> = (0..len).map(|_| self.expr(&elem, 2)).collect();
                let ty = Ty::Array(Box::new(elem), len);
                let name = self.declare(ty.clone(), false, false);
                out.push(St::DeclArr(ty, name, inits));
            }
            5..=9 => {
                // assignment / compound assignment / increment
                let ty = self.pick_value_ty();
                let Some(lv) = self.lvalue(&ty, 2) else {
                    let init = self.expr(&ty, ed);
                    let name = self.declare(ty.clone(), false, false);
                    out.push(St::Decl(ty, name, Some(init), false));
                    return;
                };
                let numeric = matches!(ty, Ty::S(Sc::Int | Sc::UInt | Sc::Float | Sc::Double | Sc::Half) | Ty::V(Sc::Int | Sc::UInt | Sc::Float, _));
                let is_intish = matches!(ty, Ty::S(Sc::Int | Sc::UInt) | Ty::V(Sc::Int | Sc::UInt, _));
                match self.pick(8) {
                    0 | 1 if numeric => {
                        let ops: &[&'static str] = if is_intish { &["+=", "-=", "*=", "/=", "%=", "<<=", ">>=", "&=", "|=", "^="] } else { &["+=", "-=", "*=", "/=", "%="] };
                        let op = ops[self.pick(ops.len())];
                        // the right operand may have another (convertible) scalar type
                        let rhs_ty = match (&ty, self.pick(4)) {
                            (Ty::S(_), 0) => Ty::S([Sc::Int, Sc::Float, Sc::UInt][self.pick(3)]),
                            _ => ty.clone(),
                        };
                        let rhs_ty = if is_intish && matches!(rhs_ty, Ty::S(Sc::Float)) && matches!(op, "%=" | "<<=" | ">>=" | "&=" | "|=" | "^=") { ty.clone() } else { rhs_ty };
                        let rhs = self.expr(&rhs_ty, ed);
                        out.push(St::Expr(E::Assign(op, Box::new(lv), Box::new(rhs))));
                    }
                    2 if matches!(ty, Ty::S(Sc::Int | Sc::UInt | Sc::Float)) => {
                        let op = ["++", "--"][self.pick(2)];
                        if self.pick(2) == 0 {
                            out.push(St::Expr(E::Un(op, Box::new(lv))));
                        } else {
                            out.push(St::Expr(E::PostInc(op, Box::new(lv))));
                        }
                    }
                    3 if self.prof.seq_effects && matches!(ty, Ty::S(_)) => {
                        // value of an assignment / increment used in a sequenced position
                        let rhs = self.expr(&ty, ed.min(3));
                        let t2 = self.pick_value_ty();
                        let other = self.expr(&t2, 2);
                        let n2 = self.declare(t2.clone(), false, false);
                        let asg = E::Assign("=", Box::new(lv), Box::new(rhs));
                        out.push(St::Decl(t2, n2, Some(E::Comma(Box::new(asg), Box::new(other))), false));
                    }
                    _ => {
                        let rhs = self.conv_expr(&ty, ed);
                        out.push(St::Expr(E::Assign("=", Box::new(lv), Box::new(rhs))));
                    }
                }
            }
            10 | 11 if depth > 0 => {
                let c = self.expr(&Ty::S(Sc::Bool), ed.min(4));
                let a = self.block(depth - 1, 3);
                let b = if self.pick(2) == 0 { Some(self.block(depth - 1, 3)) } else { None };
                out.push(St::If(c, a, b));
            }
            12 if depth > 0 && self.prof.loops => {
                let n = 1 + self.pick(3) as u32;
                self.scopes.push(Vec::new());
                let i = self.declare(Ty::S(Sc::Int), false, true);
                self.in_loop += 1;
                let kind = self.pick(4);
                if kind == 0 {
                    let j = self.declare(Ty::S(Sc::Int), false, true);
                    let body = self.block(depth - 1, 3);
                    out.push(St::ForMulti(i, j, n + 1, body));
                } else {
                    let body = self.block(depth - 1, 3);
                    out.push(match kind {
                        1 => St::While(i, n, body),
                        2 => St::DoWhile(i, n, body),
                        _ => St::For(i, n, body),
                    });
                }
                self.in_loop -= 1;
                self.scopes.pop();
            }
            13 if depth > 0 && self.prof.switch => {
                let e = self.expr(&Ty::S(Sc::Int), 3);
                let ncases = 1 + self.pick(3);
                let mut cases = Vec::new();
                let mut next = 0i32;
                for _ in 0..ncases {
                    let mut labels = vec![next];
                    next += 1;
                    if self.pick(3) == 0 {
                        labels.push(next);
                        next += 1;
                    }
                    cases.push((labels, self.block(depth - 1, 2)));
                }
                let def = self.block(depth - 1, 2);
                out.push(St::Switch(E::Bin("%", Box::new(e), Box::new(E::Lit("5".into(), Ty::S(Sc::Int)))), cases, def));
            }
            14 if self.in_loop > 0 => {
                let c = self.expr(&Ty::S(Sc::Bool), 2);
                let s = if self.pick(2) == 0 { St::Break } else { St::Continue };
                out.push(St::If(c, vec![s], None));
            }
            15 if self.cur_ret != Ty::Void && depth > 0 => {
                let c = self.expr(&Ty::S(Sc::Bool), 2);
                let rt = self.cur_ret.clone();
                let r = self.conv_expr(&rt, 3);
                out.push(St::If(c, vec![St::Return(Some(r))], None));
            }
            16 | 17 => self.call_stmt(out),
            18 if depth > 0 => out.push(St::Block(self.block(depth - 1, 2))),
            _ => {
                let ty = Ty::S(self.pick_scalar());
                let init = self.expr(&ty, ed);
                let name = self.declare(ty.clone(), false, false);
                out.push(St::Decl(ty, name, Some(init), false));
            }
        }
    }

    /// a call at statement level: may have out parameters and may write statics
    /// `obj.method(args);` or `T r = obj.method(args);` on a struct variable (declared here when none is visible)
    fn method_call_stmt(&mut self, out: &mut Vec<St>) -> bool {
        // inside a method only earlier methods exist, and the object would be another instance: keep it simple
        if self.methods.is_empty() {
            return false;
        }
        let k = self.pick(self.methods.len());
        let (si, mi) = self.methods[k];
        let m = self.prog.structs[si].methods[mi].clone();
        let sty = Ty::Struct(si);
        let vars = self.vars_of(&sty, true);
        let obj = if !vars.is_empty() {
            let v = vars[self.pick(vars.len())].clone();
            self.note_static(&v, true);
            v.name
        } else {
            let n = self.declare(sty.clone(), false, false);
            out.push(St::Decl(sty.clone(), n, Some(E::Cast(sty.clone(), Box::new(E::Lit("0".into(), Ty::S(Sc::Int))))), false));
            n
        };
        let mut args = Vec::new();
        for p in &m.params {
            if p.io == 0 {
                let mut a = self.conv_expr(&p.ty, 3);
                if Self::is_lit(&a) {
                    a = E::Cast(p.ty.clone(), Box::new(a));
                }
                args.push(a);
            } else {
                let init = self.expr(&p.ty, 2);
                let n = self.declare(p.ty.clone(), false, false);
                out.push(St::Decl(p.ty.clone(), n, Some(init), false));
                args.push(E::Var(n, p.ty.clone()));
            }
        }
        let call = E::Method(Box::new(E::Var(obj, sty)), m.name, args);
        if m.ret != Ty::Void {
            let n = self.declare(m.ret.clone(), false, false);
            out.push(St::Decl(m.ret.clone(), n, Some(call), false));
        } else {
            out.push(St::Expr(call));
        }
        true
    }

    fn call_stmt(&mut self, out: &mut Vec<St>) {
        if self.prof.methods && self.cur_struct.is_none() && self.pick(3) == 0 && self.method_call_stmt(out) {
            return;
        }
        let cands: Vec<usize> = self.callable.iter().copied().filter(|i| self.prog.funcs[*i].method_of.is_none()).collect();
        if cands.is_empty() {
            return;
        }
        let fi = cands[self.pick(cands.len())];
        let f = self.prog.funcs[fi].clone();
        if f.reads_statics {
            self.cur_reads_statics = true;
        }
        if f.writes_statics {
            self.cur_writes_statics = true;
        }
        let mut args = Vec::new();
        let mut pre = Vec::new();
        let mut io_locals: Vec<(Ty, Name)> = Vec::new();
        let exact = f.template.is_some() || self.prog.funcs.iter().filter(|g| g.name == f.name).count() > 1;
        for p in &f.params {
            if let Ty::Array(elem, len) = &p.ty {
                // an array argument is a variable: an existing one of that type or a fresh one
                let existing: Vec<VarInfo> = self.vars_of(&p.ty, true).into_iter().filter(|v| !v.is_static).collect();
                if !existing.is_empty() && self.pick(2) == 0 {
                    let v = existing[self.pick(existing.len())].clone();
                    args.push(E::Var(v.name, v.ty));
                } else {
                    let inits: Vec<E> = (0..*len).map(|_| self.expr(elem, 2)).collect();
                    let n = self.declare(p.ty.clone(), false, false);
                    pre.push(St::DeclArr(p.ty.clone(), n, inits));
                    args.push(E::Var(n, p.ty.clone()));
                }
                continue;
            }
            if p.io == 0 {
                let mut a = if exact { self.expr(&p.ty, 3) } else { self.conv_expr(&p.ty, 3) };
                if Self::is_lit(&a) {
                    a = E::Cast(p.ty.clone(), Box::new(a));
                }
                args.push(a);
            } else {
                // aliasing: the same variable for two out / inout parameters, or a static global that the
                // callee may also touch - copy-in / copy-out has to behave as if the arguments were distinct
                let earlier: Vec<Name> = io_locals.iter().filter(|(t, _)| t == &p.ty).map(|(_, n)| *n).collect();
                let statics: Vec<VarInfo> = self.statics.iter().filter(|v| v.ty == p.ty && !v.is_const).cloned().collect();
                if !earlier.is_empty() && self.pick(3) == 0 {
                    args.push(E::Var(earlier[self.pick(earlier.len())], p.ty.clone()));
                    continue;
                }
                if !statics.is_empty() && self.pick(3) == 0 {
                    let v = statics[self.pick(statics.len())].clone();
                    self.note_static(&v, true);
                    args.push(E::Var(v.name, p.ty.clone()));
                    continue;
                }
                // a fresh local of exactly the parameter type receives the result
                let init = self.expr(&p.ty, 2);
                let n = self.declare(p.ty.clone(), false, false);
                pre.push(St::Decl(p.ty.clone(), n, Some(init), false));
                io_locals.push((p.ty.clone(), n));
                args.push(E::Var(n, p.ty.clone()));
            }
        }
        out.extend(pre);
        let call = match f.template {
            Some((_, true)) => E::CallT(f.name, format!("{}", 1 + self.pick(5)), args),
            _ => {
                let ns = self.prog.func_ns[fi].clone();
                if ns.is_empty() { E::Call(f.name, args) } else { E::QCall(ns, f.name, args) }
            }
        };
        if f.ret != Ty::Void {
            let n = self.declare(f.ret.clone(), false, false);
            out.push(St::Decl(f.ret.clone(), n, Some(call), false));
        } else {
            out.push(St::Expr(call));
        }
    }

    // ---- top level

    fn open_ns(&mut self) {
        // a namespace may be reopened, but only under the same parent: a name that exists at two depths would make
        // the qualified calls ambiguous
        let here = self.cur_ns.clone();
        let reopen: Vec<Name> = self.ns_pool.iter().filter(|(parent, _)| *parent == here).map(|(_, n)| *n).collect();
        let name = if !reopen.is_empty() && self.pick(2) == 0 {
            let k = self.pick(reopen.len());
            reopen[k]
        } else {
            let n = self.fresh("NS");
            self.ns_pool.push((here, n));
            n
        };
        self.cur_ns.push(name);
        self.prog.items.push(Item::NamespaceBegin(name));
        // half of the namespaces start with a static variable of their own
        if self.prof.statics && self.pick(2) == 0 {
            self.gen_static();
        }
    }

    fn close_ns(&mut self) {
        if self.cur_ns.pop().is_some() {
            self.prog.items.push(Item::NamespaceEnd);
        }
    }

    fn gen_struct(&mut self) {
        let name = self.fresh("S");
        let nf = 1 + self.pick(4);
        let mut fields = Vec::new();
        for _ in 0..nf {
            let ty = match self.pick(8) {
                0 if !self.prog.structs.is_empty() => Ty::Struct(self.pick(self.prog.structs.len())),
                1 if self.prof.arrays => Ty::Array(Box::new(Ty::S([Sc::Int, Sc::Float, Sc::UInt][self.pick(3)])), 2 + self.pick(2) as u32),
                2 | 3 if self.prof.vectors => Ty::V([Sc::Float, Sc::Int][self.pick(2)], 2 + self.pick(3) as u8),
                _ => Ty::S(self.pick_scalar()),
            };
            fields.push((self.fresh("m"), ty));
        }
        let idx = self.prog.structs.len();
        self.prog.structs.push(StructDef { name, fields, methods: Vec::new() });
        self.prog.items.push(Item::Struct(idx));
        if self.prof.methods && self.pick(2) == 0 {
            // a template method first, so that the other methods can call it without naming an object
            if self.prof.templates && self.pick(2) == 0 {
                let name = self.fresh("tm");
                let tp = self.fresh("T");
                let a = self.fresh("p");
                let b = self.fresh("p");
                let t = Ty::S([Sc::Int, Sc::Float, Sc::UInt][self.pick(3)]);
                let op = ["+", "*", "-"][self.pick(3)];
                let body = vec![St::Return(Some(E::Bin(op, Box::new(E::Var(a, t.clone())), Box::new(E::Var(b, t.clone())))))];
                let params = vec![Param { name: a, ty: t.clone(), io: 0, default: None }, Param { name: b, ty: t.clone(), io: 0, default: None }];
                self.prog.structs[idx].methods.push(Func { name, ret: t, params, body, template: Some((tp, false)), writes_statics: false, reads_statics: false, has_out: false, attrs: String::new(), method_of: Some(idx), proto: 0 });
            }
            for _ in 0..1 + self.pick(2) {
                self.gen_func_or_method(None, Some(idx));
            }
        }
    }

    fn gen_enum(&mut self) {
        let name = self.fresh("En");
        let n = 2 + self.pick(3);
        let mut values = Vec::new();
        let mut last = -1i32;
        for _ in 0..n {
            let explicit = if self.pick(3) == 0 {
                last += 1 + self.pick(4) as i32;
                Some(last)
            } else {
                last += 1;
                None
            };
            values.push((self.fresh("EV"), explicit));
        }
        let idx = self.prog.enums.len();
        self.prog.enums.push(EnumDef { name, values });
        self.prog.items.push(Item::Enum(idx));
    }

    fn gen_static(&mut self) {
        let ty = match self.pick(6) {
            0 if self.prof.vectors => Ty::V(Sc::Float, 2 + self.pick(3) as u8),
            1 if self.prof.arrays => Ty::Array(Box::new(Ty::S([Sc::Int, Sc::Float][self.pick(2)])), 2 + self.pick(3) as u32),
            _ => Ty::S(self.pick_scalar()),
        };
        let is_const = self.pick(3) == 0;
        let name = self.fresh("g");
        let saved = std::mem::take(&mut self.callable);
        let (init, init_list) = match &ty {
            Ty::Array(elem, len) => (None, Some((0..*len).map(|_| self.leaf_lit(elem)).collect::<Vec<_>>())),
            t => (Some(self.leaf_lit(t)), None),
        };
        self.callable = saved;
        let idx = self.prog.globals.len();
        if !self.cur_ns.is_empty() {
            self.prog.global_ns.insert(name, self.cur_ns.clone());
        }
        self.prog.globals.push(Global { name, ty: ty.clone(), storage: if is_const { "static const" } else { "static" }, init, init_list });
        self.prog.items.push(Item::Global(idx));
        self.statics.push(VarInfo { name, ty, is_const, frozen: false, is_static: !is_const });
    }

    /// literal-only initialiser (global initialisers must not depend on other globals' run-time state)
    fn leaf_lit(&mut self, ty: &Ty) -> E {
        match ty {
            Ty::S(sc) => self.lit(*sc),
            Ty::V(sc, n) => E::Ctor(ty.clone(), (0..*n).map(|_| self.lit(*sc)).collect()),
            _ => unreachable!(),
        }
    }

    fn gen_func(&mut self, name_share: Option<Name>) -> usize {
        self.gen_func_or_method(name_share, None)
    }

    /// a free function, or (method_of = struct index) a member function whose body sees the fields as variables
    fn gen_func_or_method(&mut self, name_share: Option<Name>, method_of: Option<usize>) -> usize {
        let ret = if self.pick(6) == 0 { Ty::Void } else { self.pick_value_ty() };
        let ret = if matches!(ret, Ty::Array(..)) { Ty::S(Sc::Int) } else { ret };
        let name = name_share.unwrap_or_else(|| self.fresh(if method_of.is_some() { "mt" } else { "fn" }));
        self.cur_struct = method_of;
        let np = self.pick(4);
        let mut params = Vec::new();
        // the members of the object are the outermost variables of a method
        let mut fields_scope = Vec::new();
        if let Some(si) = method_of {
            for (fname, fty) in self.prog.structs[si].fields.clone() {
                // a write to a member is an effect outside of the method, like a write to a static: such a method is not
                // called where the order of evaluation is unspecified
                fields_scope.push(VarInfo { name: fname, ty: fty, is_const: false, frozen: false, is_static: true });
            }
        }
        self.scopes.push(fields_scope);
        self.scopes.push(Vec::new());
        let mut has_out = false;
        for k in 0..np {
            let ty = self.pick_value_ty();
            let ty = if matches!(ty, Ty::Array(..)) { Ty::S(Sc::Int) } else { ty };
            // arrays as parameters: passed by value, or written through as out / inout
            let ty = if self.prof.arrays && method_of.is_none() && name_share.is_none() && self.pick(7) == 0 {
                Ty::Array(Box::new(Ty::S([Sc::Int, Sc::Float, Sc::UInt][self.pick(3)])), 2 + self.pick(3) as u32)
            } else {
                ty
            };
            let io = if self.prof.out_params && name_share.is_none() && self.pick(5) == 0 { 1 + self.pick(2) as u8 } else { 0 };
            has_out |= io != 0;
            let pname = self.fresh("p");
            let default = if self.prof.defaults && io == 0 && k + 1 == np && name_share.is_none() && matches!(ty, Ty::S(Sc::Int | Sc::Float | Sc::UInt)) && self.pick(3) == 0 {
                let Ty::S(sc) = &ty else { unreachable!() };
                Some(self.lit(*sc))
            } else {
                None
            };
            self.scopes.last_mut().unwrap().push(VarInfo { name: pname, ty: ty.clone(), is_const: false, frozen: false, is_static: false });
            params.push(Param { name: pname, ty, io, default });
        }
        self.cur_ret = ret.clone();
        self.cur_writes_statics = false;
        self.cur_reads_statics = false;
        let depth = self.prof.stmt_depth;
        let mut body = Vec::new();
        // out parameters are written first so that they are always assigned
        for p in params.clone().iter().filter(|p| p.io == 1) {
            if let Ty::Array(elem, len) = &p.ty {
                for k in 0..*len {
                    let v = self.expr(elem, 2);
                    let target = E::Index(Box::new(E::Var(p.name, p.ty.clone())), Box::new(E::Lit(format!("{}", k), Ty::S(Sc::Int))));
                    body.push(St::Expr(E::Assign("=", Box::new(target), Box::new(v))));
                }
                continue;
            }
            let v = self.expr(&p.ty, 2);
            body.push(St::Expr(E::Assign("=", Box::new(E::Var(p.name, p.ty.clone())), Box::new(v))));
        }
        self.scopes.push(Vec::new());
        let n = 1 + self.pick(5);
        for _ in 0..n {
            if self.exhausted() {
                break;
            }
            self.stmt(depth, &mut body);
        }
        if ret != Ty::Void {
            let e = self.conv_expr(&ret, self.prof.expr_depth);
            body.push(St::Return(Some(e)));
        }
        self.scopes.pop();
        self.scopes.pop();
        self.scopes.pop();
        let f = Func {
            name,
            ret,
            params,
            body,
            template: None,
            writes_statics: self.cur_writes_statics,
            reads_statics: self.cur_reads_statics,
            has_out,
            attrs: String::new(),
            method_of,
            proto: 0,
        };
        self.cur_struct = None;
        let mut f = f;
        if method_of.is_none() && self.prof.prototypes && self.pick(5) == 0 {
            // (mode 3 - defaults only on the definition after a declaration without them - is not generated: the front
            // end keeps the declaration's arity and rejects calls that rely on the later defaults)
            f.proto = 1 + self.pick(2) as u8;
        }
        if let Some(si) = method_of {
            self.prog.structs[si].methods.push(f);
            let k = self.prog.structs[si].methods.len() - 1;
            self.methods.push((si, k));
            return usize::MAX;
        }
        let idx = self.prog.funcs.len();
        self.prog.funcs.push(f);
        self.prog.func_ns.push(self.cur_ns.clone());
        self.prog.items.push(Item::Func(idx));
        self.callable.push(idx);
        idx
    }

    fn gen_template_func(&mut self) {
        // template<typename T> T f(T a, T b) { return cond ? a : b; }   or   template<int N> int f(int a) { return a + N; }
        let name = self.fresh("tf");
        let tp = self.fresh("T");
        let value_param = self.pick(3) == 0;
        let a = self.fresh("p");
        let b = self.fresh("p");
        let idx = self.prog.funcs.len();
        let (ret, params, body) = if value_param {
            let p = vec![Param { name: a, ty: Ty::S(Sc::Int), io: 0, default: None }];
            let body = vec![St::Return(Some(E::Bin(
                ["+", "*", "-"][self.pick(3)],
                Box::new(E::Var(a, Ty::S(Sc::Int))),
                Box::new(E::Var(tp, Ty::S(Sc::Int))),
            )))];
            (Ty::S(Sc::Int), p, body)
        } else {
            // instantiated at a concrete scalar type chosen here: calls use that type
            let sc = [Sc::Int, Sc::Float, Sc::UInt][self.pick(3)];
            let t = Ty::S(sc);
            let p = vec![Param { name: a, ty: t.clone(), io: 0, default: None }, Param { name: b, ty: t.clone(), io: 0, default: None }];
            let op = ["+", "*", "-"][self.pick(3)];
            let body = vec![St::Return(Some(E::Bin(op, Box::new(E::Var(a, t.clone())), Box::new(E::Var(b, t.clone())))))];
            (t, p, body)
        };
        self.prog.funcs.push(Func {
            name,
            ret,
            params,
            body,
            template: Some((tp, value_param)),
            writes_statics: false,
            reads_statics: false,
            has_out: false,
            attrs: String::new(),
            method_of: None,
            proto: 0,
        });
        self.prog.func_ns.push(Vec::new());
        self.prog.items.push(Item::Func(idx));
        self.callable.push(idx);
    }

    pub fn generate(mut self) -> (Prog, u32) {
        // the scene layer draws from its own prefix of the choice sequence so that the executable part cannot starve it
        let all = self.choices;
        let scene_len = if self.prof.pipelines { all.len().min(96) } else { 0 };
        let (scene_choices, exec_choices) = all.split_at(scene_len);
        self.choices = exec_choices;
        if self.prof.enums {
            for _ in 0..self.pick(3) {
                self.gen_enum();
            }
        }
        if self.prof.structs {
            for _ in 0..self.pick(3) {
                self.gen_struct();
            }
        }
        if self.prof.statics {
            for _ in 0..self.pick(5) {
                self.gen_static();
            }
        }
        if self.prof.templates && self.pick(2) == 0 {
            self.gen_template_func();
        }
        let nf = 2 + self.pick(self.prof.max_funcs.saturating_sub(1).max(1));
        let mut i = 0;
        while i < nf {
            // namespaces: function groups inside (possibly nested, possibly reopened) namespaces; a function may
            // share its name with a function of another namespace
            let mut share = None;
            if self.prof.namespaces {
                if self.cur_ns.is_empty() {
                    if self.pick(3) == 0 {
                        self.open_ns();
                    }
                } else if self.pick(3) == 0 {
                    self.close_ns();
                } else if self.cur_ns.len() < 2 && self.pick(4) == 0 {
                    self.open_ns();
                }
                if !self.cur_ns.is_empty() && self.pick(2) == 0 {
                    let here = self.cur_ns.clone();
                    let cands: Vec<Name> = (0..self.prog.funcs.len())
                        .filter(|k| !self.prog.func_ns[*k].is_empty() && self.prog.func_ns[*k] != here)
                        .map(|k| self.prog.funcs[k].name)
                        .filter(|n| !(0..self.prog.funcs.len()).any(|k| self.prog.func_ns[k] == here && self.prog.funcs[k].name == *n))
                        .collect();
                    if !cands.is_empty() {
                        share = Some(cands[self.pick(cands.len())]);
                    }
                }
            }
            // static variables declared inside the namespace; referenced from inside and (qualified) from outside
            if self.prof.statics && !self.cur_ns.is_empty() && self.pick(3) == 0 {
                self.gen_static();
            }
            let fi = self.gen_func(share);
            i += 1;
            if self.prof.overloads && self.pick(5) == 0 {
                // an overload with a different first parameter type
                let first = self.prog.funcs[fi].clone();
                if !first.has_out && first.params.iter().all(|p| p.default.is_none()) {
                    let fi2 = self.gen_func(Some(first.name));
                    let sig = |f: &Func| f.params.iter().map(|p| p.ty.clone()).collect::<Vec<_>>();
                    let s1 = sig(&first);
                    let s2 = sig(&self.prog.funcs[fi2]);
                    // overloads must differ in arity or in a parameter that cannot be confused by implicit conversion
                    let distinct = s1.len() != s2.len();
                    if !distinct {
                        // not a safe overload set: give the second function its own name
                        let nn = self.fresh("fn");
                        self.prog.funcs[fi2].name = nn;
                    }
                    i += 1;
                }
            }
            if self.exhausted() && i >= 2 {
                break;
            }
        }
        while !self.cur_ns.is_empty() {
            self.close_ns();
        }
        if self.prof.pipelines {
            let (lo, hi) = self.prof.pipeline_range;
            self.choices = scene_choices;
            self.pos = 0;
            self.fuel = 4000;
            self.gen_scene(lo, hi);
        }
        let d = self.diverted;
        (self.prog, d)
    }
}


// ---------------------------------------------------------------------------------------------
// resources, entry points and pipelines (the "scene" layer on top of the executable functions)

pub const RES_KINDS: &[(&str, &str)] = &[
    // (kind label, declared type)
    ("Texture2D", "Texture2D<float4>"),
    ("Texture2DArray", "Texture2DArray<float4>"),
    ("Texture3D", "Texture3D<float4>"),
    ("TextureCube", "TextureCube<float4>"),
    ("RWTexture2D", "RWTexture2D<float4>"),
    ("RWTexture3D", "RWTexture3D<float4>"),
    ("Buffer", "Buffer<float4>"),
    ("RWBuffer", "RWBuffer<float4>"),
    ("ByteAddressBuffer", "ByteAddressBuffer"),
    ("RWByteAddressBuffer", "RWByteAddressBuffer"),
    ("StructuredBuffer", "StructuredBuffer<SR>"),
    ("RWStructuredBuffer", "RWStructuredBuffer<SR>"),
    ("ConstantBuffer", "ConstantBuffer<SR>"),
    ("cbuffer", "cbuffer"),
    ("SamplerState", "SamplerState"),
    ("SamplerComparisonState", "SamplerComparisonState"),
    ("StaticSampler", "SamplerState"),
    ("BufferAddress", "BufferAddress"),
    ("RWBufferAddress", "RWBufferAddress"),
    ("RaytracingAccelerationStructure", "RaytracingAccelerationStructure"),
];

impl<'a> Gen<'a> {
    fn raw(&mut self, frags: Vec<Frag>) {
        let i = self.prog.raws.len();
        self.prog.raws.push(frags);
        self.prog.items.push(Item::Raw(i));
    }

    /// float4-valued expression text that touches resource `ri` (as fragments)
    fn usage(&mut self, ri: usize, sr: Name, srv: Name) -> Vec<Frag> {
        let _ = sr;
        let r = self.prog.resources[ri].clone();
        let idx = if r.array.is_some() { "[1]" } else { "" };
        let n = Frag::N(r.name);
        let t = |s: &str| Frag::T(s.to_string());
        match r.kind {
            "Texture2D" => vec![n, t(idx), t(".Load(int3(0, 0, 0))")],
            "Texture2DArray" | "Texture3D" => vec![n, t(idx), t(".Load(int4(0, 0, 0, 0))")],
            "RWTexture2D" => vec![n, t(idx), t("[uint2(0, 0)]")],
            "RWTexture3D" => vec![n, t(idx), t("[uint3(0, 0, 0)]")],
            "Buffer" => vec![n, t(idx), t(".Load(0)")],
            "RWBuffer" => vec![n, t(idx), t("[0]")],
            "ByteAddressBuffer" | "RWByteAddressBuffer" => vec![t("asfloat("), n, t(idx), t(".Load4(0))")],
            // the Metal back end cannot rewrite a member access on `buffer[i]`: elements are read through Load
            "StructuredBuffer" | "RWStructuredBuffer" => vec![n, t(idx), t(".Load(0)."), Frag::N(srv)],
            "ConstantBuffer" => vec![n, t(idx), t("."), Frag::N(srv)],
            "cbuffer" => vec![Frag::N(r.cbuffer_members[0].0)],
            _ => vec![t("float4(0.0, 0.0, 0.0, 0.0)")],
        }
    }

    /// Resources, reader functions, entry points and pipelines.
    pub fn gen_scene(&mut self, min_pipelines: usize, max_pipelines: usize) {
        let t = |s: &str| Frag::T(s.to_string());
        // element struct for structured / constant buffers
        let sr = self.fresh("SR");
        let srv = self.fresh("v");
        self.raw(vec![t("struct "), Frag::N(sr), t(" {\n    float4 "), Frag::N(srv), t(";\n};\n\n")]);
        // resources
        let nres = 1 + self.pick(10);
        for k in 0..nres {
            let (kind, ty_text) = RES_KINDS[self.pick(RES_KINDS.len())];
            let name = self.fresh("res");
            let can_array = !matches!(kind, "cbuffer" | "StaticSampler" | "BufferAddress" | "RWBufferAddress");
            let array = if can_array && self.pick(4) == 0 { Some(2 + self.pick(3) as u32) } else { None };
            let group = if self.pick(3) == 0 { Some(self.pick(3) as u32) } else { None };
            let mut prefix = String::new();
            let mut suffix = String::new();
            if let Some(g) = group {
                match if kind == "StaticSampler" { 0 } else { self.pick(3) } {
                    0 => prefix = format!("[[rssl::bind_group({})]] ", g),
                    1 => suffix = format!(" : register(space{})", g),
                    _ => prefix = format!("[[vk::binding({}, {})]] ", 20 + k, g),
                }
            }
            let ty_text = ty_text.replace("SR", &self.prog.names[sr]);
            let mut members = Vec::new();
            if kind == "cbuffer" {
                members.push((self.fresh("cbm"), Ty::V(Sc::Float, 4)));
                if self.pick(2) == 0 {
                    members.push((self.fresh("cbm"), Ty::S(Sc::UInt)));
                }
            }
            let idx = self.prog.resources.len();
            // (a register() suffix is rejected on a typedef'd array type - the front end's own restriction)
            let via_typedef = array.is_some() && suffix.is_empty() && self.pick(4) == 0;
            self.prog.resources.push(Resource {
                name,
                ty_text,
                kind,
                array,
                prefix,
                suffix,
                cbuffer_members: members,
                static_sampler: kind == "StaticSampler",
                bindless: false,
                group,
                via_typedef,
            });
            self.prog.items.push(Item::Resource(idx));
        }
        // the struct name inside ty_text is literal text: keep a marker so renaming can fix it up
        // reader functions: each touches 1-3 resources and may call one executable function
        let nreaders = 1 + self.pick(4);
        let mut readers: Vec<(Name, Vec<usize>)> = Vec::new();
        for _ in 0..nreaders {
            let fname = self.fresh("read");
            let mut touched = Vec::new();
            let mut frags = vec![t("float4 "), Frag::N(fname), t("() {\n    float4 acc = float4(0.0, 0.0, 0.0, 0.0);\n")];
            for _ in 0..(1 + self.pick(3)) {
                let ri = self.pick(self.prog.resources.len());
                touched.push(ri);
                let r = self.prog.resources[ri].clone();
                match r.kind {
                    "SamplerState" | "SamplerComparisonState" | "StaticSampler" | "BufferAddress" | "RWBufferAddress" | "RaytracingAccelerationStructure" | "TextureCube" => {
                        frags.push(t("    "));
                        frags.push(Frag::N(r.name));
                        if r.array.is_some() {
                            frags.push(t("[1]"));
                        }
                        frags.push(t(";\n"));
                    }
                    _ => {
                        frags.push(t("    acc += "));
                        frags.extend(self.usage(ri, sr, srv));
                        frags.push(t(";\n"));
                    }
                }
            }
            // chain to an earlier reader half the time (transitive reachability)
            if !readers.is_empty() && self.pick(2) == 0 {
                let (other, rs) = readers[self.pick(readers.len())].clone();
                frags.push(t("    acc += "));
                frags.push(Frag::N(other));
                frags.push(t("();\n"));
                touched.extend(rs);
            }
            frags.push(t("    return acc;\n}\n\n"));
            self.raw(frags);
            touched.sort();
            touched.dedup();
            readers.push((fname, touched));
        }
        self.prog.scene.readers = readers.clone();
        // pipelines
        let np = min_pipelines + self.pick(max_pipelines - min_pipelines + 1);
        for _ in 0..np {
            let kind = ["compute", "vertex_pixel", "compute", "mesh_pixel", "task_mesh", "vertex_pixel", "compute", "vertex_pixel", "compute", "vertex_pixel"][self.pick(10)];
            // half of the later pipelines extend an earlier pipeline's name (prefix-related names)
            let pname = if !self.prog.pipelines.is_empty() && self.pick(2) == 0 {
                let pi = self.pick(self.prog.pipelines.len());
                let prev = self.prog.pipelines[pi].name;
                let hint = self.prog.names[prev].clone();
                self.fresh(&hint)
            } else {
                self.fresh("Pipe")
            };
            let default_group = if self.pick(3) == 0 { Some(self.pick(3) as u32) } else { None };
            let mut reachable: Vec<usize> = Vec::new();
            let mut body = |g: &mut Gen, reachable: &mut Vec<usize>| -> Vec<Frag> {
                let mut f = Vec::new();
                for _ in 0..(1 + g.pick(2)) {
                    let (rn, rs) = readers[g.pick(readers.len())].clone();
                    f.push(Frag::T("    sink += ".into()));
                    f.push(Frag::N(rn));
                    f.push(Frag::T("();\n".into()));
                    reachable.extend(rs);
                }
                f
            };
            let nt = [(1u32, 1u32, 1u32), (8, 8, 1), (64, 1, 1), (4, 2, 3)][self.pick(4)];
            let mut stages: Vec<(&'static str, Name)> = Vec::new();
            let mut numthreads = None;
            // a variant of an earlier pipeline: the same entry points under another name and default bind group
            let earlier: Vec<ScenePipeline> = self.prog.scene.pipelines.iter().filter(|sp| sp.kind == kind).cloned().collect();
            if !earlier.is_empty() && self.pick(3) == 0 {
                let base = earlier[self.pick(earlier.len())].clone();
                let idx = self.prog.pipelines.len();
                self.prog.pipelines.push(Pipeline { name: pname, stages: base.stages.clone(), default_group, extra: String::new() });
                self.prog.items.push(Item::Pipeline(idx));
                self.prog.scene.pipelines.push(ScenePipeline { name: pname, kind, stages: base.stages.clone(), numthreads: base.numthreads, reachable: base.reachable.clone(), default_group });
                continue;
            }
            match kind {
                "compute" => {
                    let e = self.fresh("cs_main");
                    let mut f = vec![t(&format!("[numthreads({}, {}, {})]\nvoid ", nt.0, nt.1, nt.2)), Frag::N(e), t("(uint3 dtid : SV_DispatchThreadID) {\n    float4 sink = float4(0.0, 0.0, 0.0, 0.0);\n")];
                    f.extend(body(self, &mut reachable));
                    f.push(t("}\n\n"));
                    self.raw(f);
                    stages.push(("ComputeShader", e));
                    numthreads = Some(nt);
                }
                "vertex_pixel" => {
                    let v = self.fresh("vs_main");
                    let p = self.fresh("ps_main");
                    let mut f = vec![t("void "), Frag::N(v), t("(uint vid : SV_VertexID, out float4 o_pos : SV_Position, out float2 o_uv : TEXCOORD) {\n    float4 sink = float4(0.0, 0.0, 0.0, 0.0);\n")];
                    f.extend(body(self, &mut reachable));
                    f.push(t("    o_pos = sink;\n    o_uv = sink.xy;\n}\n\n"));
                    self.raw(f);
                    let mut f = vec![t("float4 "), Frag::N(p), t("(float2 i_uv : TEXCOORD) : SV_Target0 {\n    float4 sink = float4(i_uv, 0.0, 0.0);\n")];
                    f.extend(body(self, &mut reachable));
                    f.push(t("    return sink;\n}\n\n"));
                    self.raw(f);
                    stages.push(("VertexShader", v));
                    stages.push(("PixelShader", p));
                }
                "mesh_pixel" => {
                    let va = self.fresh("MeshVertex");
                    let m = self.fresh("ms_main");
                    let p = self.fresh("ps_main");
                    self.raw(vec![t("struct "), Frag::N(va), t(" {\n    float4 position : SV_Position;\n    float2 texcoord : TEXCOORD;\n};\n\n")]);
                    // the other attribute before or after numthreads
                    let attrs = if self.pick(2) == 0 { format!("[numthreads({}, 1, 1)]\n[outputtopology(\"triangle\")]\nvoid ", nt.0.max(1)) } else { format!("[outputtopology(\"triangle\")]\n[numthreads({}, 1, 1)]\nvoid ", nt.0.max(1)) };
                    let mut f = vec![
                        t(&attrs),
                        Frag::N(m),
                        t("(uint3 dtid : SV_DispatchThreadID, out vertices "),
                        Frag::N(va),
                        t(" o_vertices[64], out indices uint3 o_triangles[32]) {\n    float4 sink = float4(0.0, 0.0, 0.0, 0.0);\n"),
                    ];
                    f.extend(body(self, &mut reachable));
                    f.push(t("    SetMeshOutputCounts(64, 32);\n    "));
                    f.push(Frag::N(va));
                    f.push(t(" vertex;\n    vertex.position = sink;\n    vertex.texcoord = sink.xy;\n    o_vertices[dtid.x] = vertex;\n    o_triangles[dtid.x] = uint3(0, 1, 2);\n}\n\n"));
                    self.raw(f);
                    let mut f = vec![t("float4 "), Frag::N(p), t("(float2 i_texcoord : TEXCOORD) : SV_Target0 {\n    float4 sink = float4(i_texcoord, 0.0, 0.0);\n")];
                    f.extend(body(self, &mut reachable));
                    f.push(t("    return sink;\n}\n\n"));
                    self.raw(f);
                    stages.push(("MeshShader", m));
                    stages.push(("PixelShader", p));
                    numthreads = Some((nt.0.max(1), 1, 1));
                }
                _ => {
                    let pl = self.fresh("Payload");
                    let va = self.fresh("MeshVertex");
                    let lds = self.fresh("lds_payload");
                    let tk = self.fresh("ts_main");
                    let m = self.fresh("ms_main");
                    self.raw(vec![
                        t("struct "),
                        Frag::N(pl),
                        t(" {\n    uint start_location;\n};\n\nstruct "),
                        Frag::N(va),
                        t(" {\n    float4 position : SV_Position;\n};\n\ngroupshared "),
                        Frag::N(pl),
                        t(" "),
                        Frag::N(lds),
                        t(";\n\n"),
                    ]);
                    // a second payload type dispatched from the same task shader
                    let second = if self.prof.multi_payload && self.pick(2) == 0 {
                        let pl2 = self.fresh("Payload");
                        let lds2 = self.fresh("lds_payload");
                        self.raw(vec![t("struct "), Frag::N(pl2), t(" {\n    uint start_location;\n    uint extra;\n};\n\ngroupshared "), Frag::N(pl2), t(" "), Frag::N(lds2), t(";\n\n")]);
                        Some((pl2, lds2))
                    } else {
                        None
                    };
                    let mut f = vec![t("[numthreads(64, 1, 1)]\nvoid "), Frag::N(tk), t("(uint3 dtid : SV_DispatchThreadID) {\n    float4 sink = float4(0.0, 0.0, 0.0, 0.0);\n")];
                    f.extend(body(self, &mut reachable));
                    f.push(t("    "));
                    f.push(Frag::N(lds));
                    f.push(t(".start_location = dtid.x;\n"));
                    if let Some((_, lds2)) = second {
                        f.push(t("    "));
                        f.push(Frag::N(lds2));
                        f.push(t(".start_location = dtid.y;\n    if (dtid.x == 0u) {\n        DispatchMesh(2u, 1u, 1u, "));
                        f.push(Frag::N(lds2));
                        f.push(t(");\n        return;\n    }\n"));
                    }
                    f.push(t("    DispatchMesh(4u, 1u, 1u, "));
                    f.push(Frag::N(lds));
                    f.push(t(");\n}\n\n"));
                    self.raw(f);
                    let mesh_attrs = if self.pick(2) == 0 { "[numthreads(64, 1, 1)]\n[outputtopology(\"triangle\")]\nvoid " } else { "[outputtopology(\"triangle\")]\n[numthreads(64, 1, 1)]\nvoid " };
                    let mut f = vec![
                        t(mesh_attrs),
                        Frag::N(m),
                        t("(uint3 dtid : SV_DispatchThreadID, in payload "),
                        Frag::N(pl),
                        t(" data, out vertices "),
                        Frag::N(va),
                        t(" o_vertices[64], out indices uint3 o_triangles[64]) {\n    float4 sink = float4(0.0, 0.0, 0.0, 0.0);\n"),
                    ];
                    f.extend(body(self, &mut reachable));
                    f.push(t("    SetMeshOutputCounts(64, 64);\n    "));
                    f.push(Frag::N(va));
                    f.push(t(" vertex;\n    vertex.position = float4(data.start_location, 0, 0, 1) + sink;\n    o_vertices[dtid.x] = vertex;\n    o_triangles[dtid.x] = uint3(0, 1, 2);\n}\n\n"));
                    self.raw(f);
                    stages.push(("TaskShader", tk));
                    stages.push(("MeshShader", m));
                    numthreads = Some((64, 1, 1));
                }
            }
            reachable.sort();
            reachable.dedup();
            // the stage properties of a pipeline block come in any order
            if self.pick(2) == 0 {
                stages.reverse();
            }
            let idx = self.prog.pipelines.len();
            self.prog.pipelines.push(Pipeline { name: pname, stages: stages.clone(), default_group, extra: String::new() });
            // a pipeline may be declared inside a namespace: it is still requested by its plain name
            if self.prof.namespaces && self.pick(4) == 0 {
                let ns = self.fresh("PNS");
                self.prog.items.push(Item::NamespaceBegin(ns));
                self.prog.items.push(Item::Pipeline(idx));
                self.prog.items.push(Item::NamespaceEnd);
            } else {
                self.prog.items.push(Item::Pipeline(idx));
            }
            self.prog.scene.pipelines.push(ScenePipeline { name: pname, kind, stages, numthreads, reachable, default_group });
        }
    }
}

// ---------------------------------------------------------------------------------------------
// rendering

pub struct Renderer<'a> {
    pub prog: &'a Prog,
    /// name table override (renaming)
    pub names: &'a [String],
    /// namespace of the function being rendered
    pub cur_ns: std::cell::RefCell<Vec<Name>>,
}

impl Renderer<'_> {
    fn n(&self, name: Name) -> &str {
        &self.names[name]
    }

    pub fn ty(&self, t: &Ty) -> String {
        match t {
            Ty::Void => "void".into(),
            Ty::S(s) => s.name().into(),
            Ty::V(s, n) => format!("{}{}", s.name(), n),
            Ty::Struct(i) => self.n(self.prog.structs[*i].name).to_string(),
            Ty::Enum(i) => self.n(self.prog.enums[*i].name).to_string(),
            Ty::Array(inner, _) => self.ty(inner),
        }
    }

    fn arr_suffix(&self, t: &Ty) -> String {
        match t {
            Ty::Array(inner, n) => format!("[{}]{}", n, self.arr_suffix(inner)),
            _ => String::new(),
        }
    }

    /// C operator precedence of the node (higher binds tighter)
    fn prec(e: &E) -> u32 {
        match e {
            E::Lit(s, _) => {
                if s.starts_with('-') { 15 } else { 17 }
            }
            E::Var(..) | E::EnumVal(..) | E::Ctor(..) | E::Call(..) | E::QCall(..) | E::CallT(..) | E::Intrinsic(..) => 17,
            E::Swizzle(..) | E::Index(..) | E::Member(..) | E::Method(..) | E::PostInc(..) => 16,
            E::Un(..) | E::Cast(..) => 15,
            E::Bin(op, ..) => match *op {
                "*" | "/" | "%" => 13,
                "+" | "-" => 12,
                "<<" | ">>" => 11,
                "<" | "<=" | ">" | ">=" => 10,
                "==" | "!=" => 9,
                "&" => 8,
                "^" => 7,
                "|" => 6,
                "&&" => 5,
                "||" => 4,
                _ => unreachable!(),
            },
            E::Ternary(..) => 3,
            E::Assign(..) => 2,
            E::Comma(..) => 1,
        }
    }

    fn sub(&self, e: &E, min_prec: u32, out: &mut String) {
        if Self::prec(e) < min_prec {
            out.push('(');
            self.expr(e, out);
            out.push(')');
        } else {
            self.expr(e, out);
        }
    }

    /// Render with the minimal parentheses C precedence requires (deep redundant nesting makes the
    /// RSSL parser backtrack exponentially, which is C08's subject, not this generator's).
    pub fn expr(&self, e: &E, out: &mut String) {
        match e {
            E::Lit(s, _) => out.push_str(s),
            E::Var(n, _) => {
                // a static of a namespace: unqualified where that is enough (every other one), else fully qualified
                if let Some(ns) = self.prog.global_ns.get(n) {
                    let inside = self.cur_ns.borrow().starts_with(ns);
                    if !(inside && *n % 2 == 0) {
                        for part in ns {
                            out.push_str(self.n(*part));
                            out.push_str("::");
                        }
                    }
                }
                out.push_str(self.n(*n))
            }
            E::EnumVal(ei, v) => {
                out.push_str(self.n(self.prog.enums[*ei].name));
                out.push_str("::");
                out.push_str(self.n(*v));
            }
            E::Un(op, a) => {
                out.push_str(op);
                // `- -x`, `+ +x`, `-(-1)`: never let two sign characters touch
                let touch = matches!(**a, E::Un(..)) || matches!(&**a, E::Lit(s, _) if s.starts_with('-'));
                if touch {
                    out.push('(');
                    self.expr(a, out);
                    out.push(')');
                } else {
                    self.sub(a, 15, out);
                }
            }
            E::PostInc(op, a) => {
                self.sub(a, 16, out);
                out.push_str(op);
            }
            E::Bin(op, a, b) => {
                let p = Self::prec(e);
                // `x < y ... > (z)` is read by the RSSL parser as a template call `x<...>(z)`; a `<` inside its own
                // parentheses cannot pair with a later `>`, so `<`/`<=` comparisons are always wrapped
                let wrap = matches!(*op, "<" | "<=");
                if wrap {
                    out.push('(');
                }
                self.sub(a, p, out);
                out.push(' ');
                out.push_str(op);
                out.push(' ');
                self.sub(b, p + 1, out);
                if wrap {
                    out.push(')');
                }
            }
            E::Assign(op, a, b) => {
                self.sub(a, 15, out);
                out.push(' ');
                out.push_str(op);
                out.push(' ');
                self.sub(b, 2, out);
            }
            E::Ternary(c, a, b) => {
                self.sub(c, 4, out);
                out.push_str(" ? ");
                self.sub(a, 3, out);
                out.push_str(" : ");
                self.sub(b, 3, out);
            }
            E::Comma(a, b) => {
                out.push('(');
                self.sub(a, 2, out);
                out.push_str(", ");
                self.sub(b, 2, out);
                out.push(')');
            }
            E::Cast(t, a) => {
                out.push('(');
                out.push_str(&self.ty(t));
                out.push(')');
                let touch = matches!(&**a, E::Lit(s, _) if s.starts_with('-'));
                if touch {
                    out.push('(');
                    self.expr(a, out);
                    out.push(')');
                } else {
                    self.sub(a, 15, out);
                }
            }
            E::Ctor(t, args) => {
                out.push_str(&self.ty(t));
                self.args(args, out);
            }
            E::Swizzle(a, s) => {
                self.sub(a, 16, out);
                out.push('.');
                out.push_str(s);
            }
            E::Index(a, i) => {
                self.sub(a, 16, out);
                out.push('[');
                self.expr(i, out);
                out.push(']');
            }
            E::Member(a, f) => {
                self.sub(a, 16, out);
                out.push('.');
                out.push_str(self.n(*f));
            }
            E::Call(f, args) => {
                out.push_str(self.n(*f));
                self.args(args, out);
            }
            E::QCall(path, f, args) => {
                for p in path {
                    out.push_str(self.n(*p));
                    out.push_str("::");
                }
                out.push_str(self.n(*f));
                self.args(args, out);
            }
            E::CallT(f, targs, args) => {
                out.push_str(self.n(*f));
                out.push('<');
                out.push_str(targs);
                out.push('>');
                self.args(args, out);
            }
            E::Method(obj, m, args) => {
                self.sub(obj, 16, out);
                out.push('.');
                out.push_str(self.n(*m));
                self.args(args, out);
            }
            E::Intrinsic(n, args) => {
                out.push_str(n);
                self.args(args, out);
            }
        }
    }

    fn args(&self, args: &[E], out: &mut String) {
        out.push('(');
        for (i, a) in args.iter().enumerate() {
            if i > 0 {
                out.push_str(", ");
            }
            self.sub(a, 2, out);
        }
        out.push(')');
    }

    fn ind(out: &mut String, n: usize) {
        for _ in 0..n {
            out.push_str("    ");
        }
    }

    pub fn stmts(&self, ss: &[St], out: &mut String, lvl: usize) {
        for s in ss {
            self.stmt(s, out, lvl);
        }
    }

    fn stmt(&self, s: &St, out: &mut String, lvl: usize) {
        Self::ind(out, lvl);
        match s {
            St::Decl(t, n, init, is_const) => {
                if *is_const {
                    out.push_str("const ");
                }
                let _ = write!(out, "{} {}{}", self.ty(t), self.n(*n), self.arr_suffix(t));
                if let Some(e) = init {
                    out.push_str(" = ");
                    self.expr(e, out);
                }
                out.push_str(";\n");
            }
            St::DeclArr(t, n, inits) => {
                let _ = write!(out, "{} {}{} = {{ ", self.ty(t), self.n(*n), self.arr_suffix(t));
                for (i, e) in inits.iter().enumerate() {
                    if i > 0 {
                        out.push_str(", ");
                    }
                    self.expr(e, out);
                }
                out.push_str(" };\n");
            }
            St::Expr(e) => {
                self.expr(e, out);
                out.push_str(";\n");
            }
            St::If(c, a, b) => {
                out.push_str("if (");
                self.expr(c, out);
                out.push_str(") {\n");
                self.stmts(a, out, lvl + 1);
                Self::ind(out, lvl);
                out.push('}');
                if let Some(b) = b {
                    out.push_str(" else {\n");
                    self.stmts(b, out, lvl + 1);
                    Self::ind(out, lvl);
                    out.push('}');
                }
                out.push('\n');
            }
            St::For(i, n, body) => {
                let _ = writeln!(out, "for (int {i} = 0; {i} < {n}; {i}++) {{", i = self.n(*i), n = n);
                self.stmts(body, out, lvl + 1);
                Self::ind(out, lvl);
                out.push_str("}\n");
            }
            St::ForMulti(i, j, n, body) => {
                let _ = writeln!(out, "for (int {i} = 0, {j} = {n}; {i} < {j}; {i}++, {j}--) {{", i = self.n(*i), j = self.n(*j), n = n);
                self.stmts(body, out, lvl + 1);
                Self::ind(out, lvl);
                out.push_str("}\n");
            }
            St::While(i, n, body) => {
                let _ = writeln!(out, "int {i} = 0;", i = self.n(*i));
                Self::ind(out, lvl);
                let _ = writeln!(out, "while ({i}++ < {n}) {{", i = self.n(*i), n = n);
                self.stmts(body, out, lvl + 1);
                Self::ind(out, lvl);
                out.push_str("}\n");
            }
            St::DoWhile(i, n, body) => {
                let _ = writeln!(out, "int {i} = 0;", i = self.n(*i));
                Self::ind(out, lvl);
                out.push_str("do {\n");
                self.stmts(body, out, lvl + 1);
                Self::ind(out, lvl);
                let _ = writeln!(out, "}} while (++{i} < {n});", i = self.n(*i), n = n);
            }
            St::Switch(e, cases, def) => {
                out.push_str("switch (");
                self.expr(e, out);
                out.push_str(") {\n");
                for (labels, body) in cases {
                    for l in labels {
                        Self::ind(out, lvl + 1);
                        let _ = writeln!(out, "case {}:", l);
                    }
                    Self::ind(out, lvl + 1);
                    out.push_str("{\n");
                    self.stmts(body, out, lvl + 2);
                    Self::ind(out, lvl + 2);
                    out.push_str("break;\n");
                    Self::ind(out, lvl + 1);
                    out.push_str("}\n");
                }
                Self::ind(out, lvl + 1);
                out.push_str("default:\n");
                Self::ind(out, lvl + 1);
                out.push_str("{\n");
                self.stmts(def, out, lvl + 2);
                Self::ind(out, lvl + 2);
                out.push_str("break;\n");
                Self::ind(out, lvl + 1);
                out.push_str("}\n");
                Self::ind(out, lvl);
                out.push_str("}\n");
            }
            St::Break => out.push_str("break;\n"),
            St::Continue => out.push_str("continue;\n"),
            St::Return(e) => {
                out.push_str("return");
                if let Some(e) = e {
                    out.push(' ');
                    self.expr(e, out);
                }
                out.push_str(";\n");
            }
            St::Block(b) => {
                out.push_str("{\n");
                self.stmts(b, out, lvl + 1);
                Self::ind(out, lvl);
                out.push_str("}\n");
            }
        }
    }

    pub fn func(&self, f: &Func, out: &mut String, lvl: usize) {
        Self::ind(out, lvl);
        if let Some((tp, is_value)) = &f.template {
            if *is_value {
                let _ = writeln!(out, "template<int {}>", self.n(*tp));
            } else {
                let _ = writeln!(out, "template<typename {}>", self.n(*tp));
            }
            Self::ind(out, lvl);
        }
        out.push_str(&f.attrs);
        let tyname = |t: &Ty| -> String {
            // type-parameter functions spell their parameter type as T
            match &f.template {
                Some((tp, false)) if *t == f.ret => self.n(*tp).to_string(),
                _ => self.ty(t),
            }
        };
        let signature = |with_defaults: bool, out: &mut String| {
            let _ = write!(out, "{} {}(", tyname(&f.ret), self.n(f.name));
            for (i, p) in f.params.iter().enumerate() {
                if i > 0 {
                    out.push_str(", ");
                }
                out.push_str(["", "out ", "inout "][p.io as usize]);
                let _ = write!(out, "{} {}{}", tyname(&p.ty), self.n(p.name), self.arr_suffix(&p.ty));
                if let (Some(d), true) = (&p.default, with_defaults) {
                    out.push_str(" = ");
                    self.expr(d, out);
                }
            }
            out.push(')');
        };
        if f.proto != 0 && f.template.is_none() {
            signature(f.proto != 3, out);
            out.push_str(";\n");
            Self::ind(out, lvl);
        }
        signature(f.proto != 2 || f.template.is_some(), out);
        out.push_str(" {\n");
        self.stmts(&f.body, out, lvl + 1);
        Self::ind(out, lvl);
        out.push_str("}\n\n");
    }

    pub fn render(&self) -> String {
        let mut out = String::new();
        let mut lvl = 0;
        for item in &self.prog.items {
            match item {
                Item::Raw(i) => {
                    for f in &self.prog.raws[*i] {
                        match f {
                            Frag::T(t) => out.push_str(t),
                            Frag::N(n) => out.push_str(self.n(*n)),
                        }
                    }
                }
                Item::Struct(i) => {
                    let s = &self.prog.structs[*i];
                    Self::ind(&mut out, lvl);
                    let _ = writeln!(out, "struct {} {{", self.n(s.name));
                    for (n, t) in &s.fields {
                        Self::ind(&mut out, lvl + 1);
                        let _ = writeln!(out, "{} {}{};", self.ty(t), self.n(*n), self.arr_suffix(t));
                    }
                    for m in &s.methods {
                        self.func(m, &mut out, lvl + 1);
                    }
                    Self::ind(&mut out, lvl);
                    out.push_str("};\n\n");
                }
                Item::Enum(i) => {
                    let e = &self.prog.enums[*i];
                    Self::ind(&mut out, lvl);
                    let _ = writeln!(out, "enum {} {{", self.n(e.name));
                    for (n, v) in &e.values {
                        Self::ind(&mut out, lvl + 1);
                        match v {
                            Some(v) => {
                                let _ = writeln!(out, "{} = {},", self.n(*n), v);
                            }
                            None => {
                                let _ = writeln!(out, "{},", self.n(*n));
                            }
                        }
                    }
                    Self::ind(&mut out, lvl);
                    out.push_str("};\n\n");
                }
                Item::Global(i) => {
                    let g = &self.prog.globals[*i];
                    Self::ind(&mut out, lvl);
                    let _ = write!(out, "{} {} {}{}", g.storage, self.ty(&g.ty), self.n(g.name), self.arr_suffix(&g.ty));
                    if let Some(e) = &g.init {
                        out.push_str(" = ");
                        self.expr(e, &mut out);
                    }
                    if let Some(list) = &g.init_list {
                        out.push_str(" = { ");
                        for (k, e) in list.iter().enumerate() {
                            if k > 0 {
                                out.push_str(", ");
                            }
                            self.expr(e, &mut out);
                        }
                        out.push_str(" }");
                    }
                    out.push_str(";\n");
                }
                Item::Func(i) => {
                    *self.cur_ns.borrow_mut() = self.prog.func_ns.get(*i).cloned().unwrap_or_default();
                    self.func(&self.prog.funcs[*i], &mut out, lvl);
                    self.cur_ns.borrow_mut().clear();
                }
                Item::Resource(i) => {
                    let r = &self.prog.resources[*i];
                    Self::ind(&mut out, lvl);
                    out.push_str(&r.prefix);
                    if r.kind == "cbuffer" {
                        let _ = writeln!(out, "cbuffer {}{} {{", self.n(r.name), r.suffix);
                        for (n, t) in &r.cbuffer_members {
                            Self::ind(&mut out, lvl + 1);
                            let _ = writeln!(out, "{} {}{};", self.ty(t), self.n(*n), self.arr_suffix(t));
                        }
                        Self::ind(&mut out, lvl);
                        out.push_str("}\n");
                    } else {
                        let arr = r.array.map(|n| format!("[{}]", n)).unwrap_or_default();
                        if r.via_typedef && r.array.is_some() && !r.bindless {
                            // the same declaration through an array typedef (the prefix attributes stay on the variable)
                            let pre_len = out.len() - r.prefix.len();
                            let attrs = out.split_off(pre_len);
                            let _ = writeln!(out, "typedef {} TD_{}{};", r.ty_text, self.n(r.name), arr);
                            Self::ind(&mut out, lvl);
                            out.push_str(&attrs);
                            let _ = write!(out, "TD_{} {}{}", self.n(r.name), self.n(r.name), r.suffix);
                        } else {
                            let _ = write!(out, "{} {}{}{}", r.ty_text, self.n(r.name), arr, r.suffix);
                        }
                        if r.static_sampler {
                            out.push_str(" = StaticSampler { Filter = MIN_MAG_MIP_LINEAR; }");
                        }
                        out.push_str(";\n");
                    }
                }
                Item::Pipeline(i) => {
                    let p = &self.prog.pipelines[*i];
                    let _ = writeln!(out, "Pipeline {} {{", self.n(p.name));
                    for (stage, f) in &p.stages {
                        let _ = writeln!(out, "    {} = {};", stage, self.n(*f));
                    }
                    if let Some(g) = p.default_group {
                        let _ = writeln!(out, "    DefaultBindGroup = {};", g);
                    }
                    out.push_str(&p.extra);
                    out.push_str("}\n\n");
                }
                Item::NamespaceBegin(n) => {
                    Self::ind(&mut out, lvl);
                    let _ = writeln!(out, "namespace {} {{", self.n(*n));
                    lvl += 1;
                }
                Item::NamespaceEnd => {
                    lvl -= 1;
                    Self::ind(&mut out, lvl);
                    out.push_str("}\n\n");
                }
            }
        }
        out
    }
}

pub fn render(prog: &Prog) -> String {
    Renderer { prog, names: &prog.names, cur_ns: Default::default() }.render()
}

/// Generate an executable-subset program and its source text.
pub fn generate(choices: &[u32], prof: Profile) -> (Prog, String, u32) {
    let (prog, diverted) = Gen::new(choices, prof).generate();
    let text = render(&prog);
    (prog, text, diverted)
}

pub fn choices_strategy(max: usize) -> impl proptest::strategy::Strategy<Value = Vec<u32>> {
    proptest::collection::vec(proptest::num::u32::ANY, 120..max.max(121))
}
