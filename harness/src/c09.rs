//! C09 — printing a syntax tree and parsing it back are inverse.
//!
//! Trees are obtained by parsing text whose grouping is made explicit with parentheses around
//! every compound operand (so any tree shape over the operator set is reachable, including the
//! shapes the exporters build), plus whole generated programs, the repository's inputs and the
//! exporters' own output. Oracle: format(T) parses, and unloc(parse(format(T))) == unloc(T).

use crate::common::*;
use crate::progen;
use proptest::prelude::*;
use rssl_formatter::Target;
use serde_json::{Value, json};

fn parse_text(text: &str) -> Result<Result<rssl_ast::Module, String>, String> {
    guard(|| {
        let mut sm = rssl::text::SourceManager::new();
        let tokens = match rssl::preprocess::preprocess_fragment(text, rssl::text::FileName("t.rssl".into()), &mut sm) {
            Ok(t) => t,
            Err(e) => {
                use rssl::text::CompileErrorExt;
                return Err(format!("preprocess: {}", e.display(&sm)));
            }
        };
        let tokens = rssl::preprocess::prepare_tokens(&tokens);
        match rssl::parser::parse(&tokens) {
            Ok(m) => Ok(m),
            Err(e) => {
                use rssl::text::CompileErrorExt;
                Err(format!("parse: {}", e.display(&sm)))
            }
        }
    })
}

/// Debug rendering with source locations removed
fn unloc(m: &rssl_ast::Module) -> String {
    let s = format!("{:?}", m);
    let b = s.as_bytes();
    let mut out = String::with_capacity(s.len());
    let mut i = 0;
    while i < b.len() {
        if b[i..].starts_with(b" @ ") {
            let mut j = i + 3;
            while j < b.len() && b[j].is_ascii_digit() {
                j += 1;
            }
            if j > i + 3 {
                i = j;
                continue;
            }
        }
        if b[i..].starts_with(b"SourceLocation(") {
            let mut j = i + 15;
            while j < b.len() && b[j].is_ascii_digit() {
                j += 1;
            }
            if j < b.len() && b[j] == b')' {
                out.push_str("SourceLocation(_)");
                i = j + 1;
                continue;
            }
        }
        out.push(b[i] as char);
        i += 1;
    }
    out
}

/// the debug text of a tree with every `[expression | type]` node ("either") replaced by its expression
fn without_either(s: &str) -> String {
    let b = s.as_bytes();
    let mut out = String::with_capacity(s.len());
    let mut i = 0;
    while i < b.len() {
        if b[i] == b'[' {
            // matching bracket and the first top-level " | "
            let mut depth = 0i32;
            let mut j = i;
            let mut bar = None;
            while j < b.len() {
                match b[j] {
                    b'[' | b'(' | b'{' => depth += 1,
                    b']' | b')' | b'}' => {
                        depth -= 1;
                        if depth == 0 {
                            break;
                        }
                    }
                    b' ' if depth == 1 && bar.is_none() && s[j..].starts_with(" | ") => bar = Some(j),
                    _ => {}
                }
                j += 1;
            }
            if let (Some(bar), true) = (bar, j < b.len() && b[j] == b']') {
                out.push_str(&without_either(&s[i + 1..bar]));
                i = j + 1;
                continue;
            }
        }
        out.push(b[i] as char);
        i += 1;
    }
    out
}

fn first_diff(a: &str, b: &str) -> String {
    let n = a.bytes().zip(b.bytes()).position(|(x, y)| x != y).unwrap_or(a.len().min(b.len()));
    let lo = n.saturating_sub(120);
    let cut = |s: &str| -> String { s.chars().skip(lo).take(300).collect() };
    format!("original tree : ...{}\nre-parsed tree: ...{}", cut(a), cut(b))
}

pub fn check_record(rec: &Value) -> Verdict {
    let text = rec["text"].as_str().unwrap_or("");
    let kind = rec["kind"].as_str().unwrap_or("text").to_string();
    let t = match parse_text(text) {
        // a text the parser does not get through yields no tree to print (totality of the front end is C08's property)
        Err(p) => return Verdict::Skip(format!("source does not parse: panic {}", normalise_panic(&p))),
        Ok(Err(e)) => return Verdict::Skip(format!("source does not parse: {}", normalise_panic(e.lines().next().unwrap_or("")))),
        Ok(Ok(m)) => m,
    };
    let original = unloc(&t);
    let mut labels = vec![format!("kind_{}", kind)];
    for (target, tname) in [(Target::Hlsl, "hlsl"), (Target::Msl, "msl")] {
        if tname == "msl" && (text.contains("#INF") || text.contains("3.4028235e38") || text.contains("340282350000000000000000000000000000000")) {
            // INFINITY / FLT_MAX are target spellings the RSSL lexer cannot read back as literals
            labels.push("msl_target_spelling(excluded)".into());
            continue;
        }
        let printed = match guard(|| rssl_formatter::format(&t, target)) {
            Err(p) => {
                // the printer documents typedef / pipeline / static sampler / template defaults / packoffset as unsupported
                if p.contains("not supported") || p.contains("not implemented") || p.contains("todo") {
                    return Verdict::Skip(format!("printer does not support a node: {}", p));
                }
                return Verdict::fail(format!("panic:{}", p), text.to_string());
            }
            Ok(Err(_)) => {
                labels.push("ambiguous_parse_branch(not printable)".into());
                return Verdict::pass(None, labels);
            }
            Ok(Ok(s)) => s,
        };
        // a literal can also become infinite or the largest float without being spelt that way (an overflowing
        // decimal): the Metal spelling of such a value is a name, which cannot be read back as a literal
        if tname == "msl" && !text.contains("INFINITY") && !text.contains("FLT_MAX") && (printed.contains("INFINITY") || printed.contains("FLT_MAX")) {
            labels.push("msl_target_spelling(excluded)".into());
            continue;
        }
        let t2 = match parse_text(&printed) {
            Err(p) => return Verdict::fail(format!("panic:{}", p), format!("--- printed ({})\n{}\n--- source\n{}", tname, printed, text)),
            Ok(Err(e)) => {
                let first = e.lines().next().unwrap_or("");
                let line = e.lines().nth(1).unwrap_or("");
                let sig = if crate::c04::template_call_shape(line) { "printed-text-rejected:template-call-ambiguity".to_string() } else { format!("printed-text-rejected:{}", normalise_panic(first.split("error:").nth(1).unwrap_or(first).trim())) };
                return Verdict::fail(sig, format!("target {}\n{}\n--- printed\n{}\n--- source\n{}", tname, e, printed, text));
            }
            Ok(Ok(m)) => m,
        };
        let reparsed = unloc(&t2);
        if reparsed != original && printed.lines().any(crate::c04::template_call_shape) {
            // `name < ... > (` re-read as a template call: the root cause recorded as KF-C04-1
            return Verdict::fail("tree-changed:template-call-ambiguity", format!("target {}\n{}\n--- printed\n{}\n--- source\n{}", tname, first_diff(&original, &reparsed), printed, text));
        }
        if reparsed != original && without_either(&reparsed) == without_either(&original) {
            // a template argument that was read as an expression (it was written in parentheses) is printed without
            // them and read back as "expression or type": recorded as KF-C09-2
            return Verdict::fail("tree-changed:expression-or-type-template-argument", format!("target {}\n{}\n--- printed\n{}\n--- source\n{}", tname, first_diff(&original, &reparsed), printed, text));
        }
        if reparsed != original {
            // an AmbiguousParseBranch in the re-parse is fine when one of its branches is the original
            if reparsed.contains("AmbiguousParseBranch") || reparsed.contains("AmbiguousDeclarationOrExpression") {
                labels.push("reparse_ambiguous(compared leniently)".into());
                continue;
            }
            let class = if original.contains("Literal(") && {
                // does only a literal differ?
                let strip = |s: &str| -> String {
                    let mut o = String::new();
                    let mut rest = s;
                    while let Some(i) = rest.find("Literal(") {
                        o.push_str(&rest[..i]);
                        let close = rest[i..].find("))").map(|j| i + j + 2).unwrap_or(rest.len());
                        rest = &rest[close..];
                    }
                    o.push_str(rest);
                    o
                };
                strip(&original) == strip(&reparsed)
            } {
                "tree-changed:literal"
            } else {
                "tree-changed:structure"
            };
            return Verdict::fail(class, format!("target {}\n{}\n--- printed\n{}\n--- source\n{}", tname, first_diff(&original, &reparsed), printed, text));
        }
    }
    let ops = text.matches(|c: char| "+-*/%<>=&|^!~?".contains(c)).count();
    let nontrivial = ops >= 3 || text.contains('.') || text.contains('e');
    Verdict::pass(if nontrivial { Some(hash_of(text)) } else { None }, labels)
}

// ---------------------------------------------------------------------------------------------
// expression texts with explicit grouping

#[derive(Clone, Debug)]
enum X {
    Leaf(String),
    Pre(&'static str, Box<X>),
    Post(&'static str, Box<X>),
    Bin(&'static str, Box<X>, Box<X>),
    Tern(Box<X>, Box<X>, Box<X>),
    Cast(&'static str, Box<X>),
    Call(String, Vec<X>),
    TCall(String, &'static str, Vec<X>),
    Index(Box<X>, Box<X>),
    Member(Box<X>, &'static str),
    SizeOfT(&'static str),
    SizeOfE(Box<X>),
    Ctor(&'static str, Vec<X>),
}

const LEAVES: &[&str] = &[
    "a", "b", "c", "x", "n", "0", "1", "7", "255", "2147483647", "4294967295", "18446744073709551615", "3u", "4294967295u", "0x7f", "017", "1.0", "0.5", "1.5f", "0.25h", "2.0L",
    "1e30", "1e-30f", "3.0e38f", "16777217.0f", "0.1", "0.0031308", "1e300L", "1e-320", "123456789.125L", "true", "false", "1.#INF", "1000000.0", "100000000000000000000.0", "1.", "5e3",
];
const PRE: &[&str] = &["-", "+", "!", "~", "++", "--"];
const POST: &[&str] = &["++", "--"];
const BIN: &[&str] = &[
    "+", "-", "*", "/", "%", "<<", ">>", "&", "|", "^", "&&", "||", "<", "<=", ">", ">=", "==", "!=", "=", "+=", "-=", "*=", "/=", "%=", "<<=", ">>=", "&=", "|=", "^=", ",",
];
const TYS: &[&str] = &["int", "uint", "float", "float3", "bool", "half", "double", "S"];

fn x_strategy() -> impl Strategy<Value = X> {
    let leaf = any::<u16>().prop_map(|r| X::Leaf(pick(LEAVES, r).to_string()));
    leaf.prop_recursive(6, 40, 3, |inner| {
        prop_oneof![
            10 => (any::<u16>(), inner.clone(), inner.clone()).prop_map(|(o, a, b)| X::Bin(*pick(BIN, o), Box::new(a), Box::new(b))),
            3 => (any::<u16>(), inner.clone()).prop_map(|(o, a)| X::Pre(*pick(PRE, o), Box::new(a))),
            1 => (any::<u16>(), inner.clone()).prop_map(|(o, a)| X::Post(*pick(POST, o), Box::new(a))),
            2 => (inner.clone(), inner.clone(), inner.clone()).prop_map(|(c, a, b)| X::Tern(Box::new(c), Box::new(a), Box::new(b))),
            2 => (any::<u16>(), inner.clone()).prop_map(|(t, a)| X::Cast(*pick(TYS, t), Box::new(a))),
            1 => proptest::collection::vec(inner.clone(), 0..3).prop_map(|args| X::Call("fn".into(), args)),
            1 => (any::<u16>(), proptest::collection::vec(inner.clone(), 0..3)).prop_map(|(t, args)| X::TCall("tf".into(), *pick(TYS, t), args)),
            1 => (inner.clone(), inner.clone()).prop_map(|(a, i)| X::Index(Box::new(a), Box::new(i))),
            1 => (inner.clone(), prop_oneof![Just("x"), Just("xyz"), Just("m"), Just("rgba")]).prop_map(|(a, m)| X::Member(Box::new(a), m)),
            1 => any::<u16>().prop_map(|t| X::SizeOfT(*pick(TYS, t))),
            1 => (any::<u16>(), proptest::collection::vec(inner.clone(), 1..4)).prop_map(|(t, args)| X::Ctor(*pick(&["float3", "int2", "float4", "uint3"], t), args)),
        ]
    })
}

fn is_compound(x: &X) -> bool {
    !matches!(x, X::Leaf(_) | X::Call(..) | X::TCall(..) | X::SizeOfT(_) | X::SizeOfE(_) | X::Ctor(..))
}

/// explicit grouping: every compound operand is parenthesised, leaves never are (a parenthesised name is ambiguous)
fn render_x(x: &X, out: &mut String) {
    let sub = |a: &X, out: &mut String| {
        if is_compound(a) {
            out.push('(');
            render_x(a, out);
            out.push(')');
        } else {
            render_x(a, out);
        }
    };
    match x {
        X::Leaf(s) => out.push_str(s),
        X::Pre(op, a) => {
            out.push_str(op);
            // keep sign characters apart in the *source*: the tree is what matters
            if matches!(**a, X::Leaf(_)) || !is_compound(a) {
                out.push(' ');
            }
            sub(a, out);
        }
        X::Post(op, a) => {
            sub(a, out);
            out.push_str(op);
        }
        X::Bin(op, a, b) => {
            sub(a, out);
            out.push(' ');
            out.push_str(op);
            out.push(' ');
            sub(b, out);
        }
        X::Tern(c, a, b) => {
            sub(c, out);
            out.push_str(" ? ");
            sub(a, out);
            out.push_str(" : ");
            sub(b, out);
        }
        X::Cast(t, a) => {
            out.push('(');
            out.push_str(t);
            out.push(')');
            sub(a, out);
        }
        X::Call(f, args) => {
            out.push_str(f);
            out.push('(');
            for (i, a) in args.iter().enumerate() {
                if i > 0 {
                    out.push_str(", ");
                }
                sub(a, out);
            }
            out.push(')');
        }
        X::TCall(f, t, args) => {
            out.push_str(f);
            out.push('<');
            out.push_str(t);
            out.push('>');
            out.push('(');
            for (i, a) in args.iter().enumerate() {
                if i > 0 {
                    out.push_str(", ");
                }
                sub(a, out);
            }
            out.push(')');
        }
        X::Index(a, i) => {
            sub(a, out);
            out.push('[');
            render_x(i, out);
            out.push(']');
        }
        X::Member(a, m) => {
            // a member of a numeric literal: written with a blank so that the source means that (`127 .m`)
            if matches!(&**a, X::Leaf(s) if s.chars().next().map(|c| c.is_ascii_digit()).unwrap_or(false)) {
                sub(a, out);
                out.push(' ');
            } else {
                sub(a, out);
            }
            out.push('.');
            out.push_str(m);
        }
        X::SizeOfT(t) => {
            out.push_str("sizeof(");
            out.push_str(t);
            out.push(')');
        }
        X::SizeOfE(a) => {
            out.push_str("sizeof(");
            render_x(a, out);
            out.push(')');
        }
        X::Ctor(t, args) => {
            out.push_str(t);
            out.push('(');
            for (i, a) in args.iter().enumerate() {
                if i > 0 {
                    out.push_str(", ");
                }
                sub(a, out);
            }
            out.push(')');
        }
    }
}

fn expr_program(x: &X, position: u8) -> String {
    let mut e = String::new();
    render_x(x, &mut e);
    let head = "struct S { int m; float3 xyz; };\n";
    match position % 14 {
        // positions outside of function bodies: the comma and the angle brackets mean something else around them
        6 => format!("{}void f(int a, int b = ({})) {{\n}}\n", head, e),
        7 => format!("{}static const int a = 1;\nstatic const int b = 2;\nstatic const int c = 3;\nenum En {{ EA = ({}), EB }};\n", head, e),
        8 => format!("{}static const int a = 1;\nstatic const int b = 2;\nstatic const int c = 3;\nstatic int arr[({})];\nstruct T {{ int m2[({})]; }};\n", head, e, e),
        9 => format!("{}static const int a = 1;\nstatic const int b = 2;\nstatic const int c = 3;\n[numthreads(({}), 1, ({}))]\nvoid f() {{\n}}\n", head, e, e),
        10 => format!("{}static const int a = 1;\nstatic const int b = 2;\nstatic const int c = 3;\nstatic int v = ({});\nstatic const int w[2] = {{ ({}), 1 }};\n", head, e, e),
        11 => format!("{}void f(int a, int b, int c, float x, uint n) {{\n    int v = tfn<({})>(a);\n    tfn<int, ({})>(a, ({}));\n}}\n", head, e, e, e),
        12 => format!("{}void f(int a, int b, int c, float x, uint n) {{\n    switch (a) {{ case ({}): break; default: break; }}\n    do {{ a++; }} while (({}));\n    for (; ({}); ({})) {{ }}\n}}\n", head, e, e, e, e),
        13 => format!("{}void f(int a, int b, int c, float x, uint n) {{\n    int v[2] = {{ ({}), ({}) }};\n    S s = {{ ({}), float3(({}), 0, 0) }};\n    fn(({}), ({}));\n}}\n", head, e, e, e, e, e, e),
        0 => format!("{}void f(int a, int b, int c, float x, uint n) {{\n    {};\n}}\n", head, e),
        1 => format!("{}int f(int a, int b, int c, float x, uint n) {{\n    return {};\n}}\n", head, e),
        2 => format!("{}void f(int a, int b, int c, float x, uint n) {{\n    int v = ({});\n}}\n", head, e),
        3 => format!("{}void f(int a, int b, int c, float x, uint n) {{\n    if ({}) {{ a = 1; }} else {{ b = 2; }}\n    while ({}) {{ break; }}\n}}\n", head, e, e),
        4 => format!("{}void f(int a, int b, int c, float x, uint n) {{\n    for (int i = ({}); i < 3; i++) {{ continue; }}\n    fn({}, ({}));\n}}\n", head, e, e, e),
        _ => format!("{}void f(int a, int b, int c, float x, uint n) {{\n    int arr[2] = {{ ({}), 0 }};\n    switch (a) {{ case 1: {{ x = ({}); break; }} default: break; }}\n}}\n", head, e, e),
    }
}

/// all (outer, inner, side) pairs of binary / unary / ternary operators at depth 2
fn pair_programs() -> Vec<String> {
    let mut v = Vec::new();
    let l = |s: &str| Box::new(X::Leaf(s.to_string()));
    let mut inners: Vec<X> = Vec::new();
    for op in BIN {
        inners.push(X::Bin(op, l("a"), l("b")));
    }
    for op in PRE {
        inners.push(X::Pre(op, l("a")));
    }
    for op in POST {
        inners.push(X::Post(op, l("a")));
    }
    inners.push(X::Tern(l("a"), l("b"), l("c")));
    inners.push(X::Cast("int", l("x")));
    inners.push(X::Index(l("a"), l("n")));
    inners.push(X::Member(l("a"), "m"));
    inners.push(X::Leaf("1.5f".into()));
    inners.push(X::Leaf("2.0L".into()));
    for inner in &inners {
        for op in BIN {
            v.push(X::Bin(op, Box::new(inner.clone()), l("c")));
            v.push(X::Bin(op, l("c"), Box::new(inner.clone())));
        }
        for op in PRE {
            v.push(X::Pre(op, Box::new(inner.clone())));
        }
        for op in POST {
            v.push(X::Post(op, Box::new(inner.clone())));
        }
        v.push(X::Tern(Box::new(inner.clone()), l("b"), l("c")));
        v.push(X::Tern(l("a"), Box::new(inner.clone()), l("c")));
        v.push(X::Tern(l("a"), l("b"), Box::new(inner.clone())));
        v.push(X::Cast("float", Box::new(inner.clone())));
        v.push(X::Index(Box::new(inner.clone()), l("n")));
        v.push(X::Index(l("a"), Box::new(inner.clone())));
        v.push(X::Member(Box::new(inner.clone()), "m"));
        v.push(X::Call("fn".into(), vec![inner.clone(), inner.clone()]));
    }
    let mut out: Vec<String> = v.iter().map(|x| expr_program(x, 0)).collect();
    // every operator (alone and over / under the comma and the comparison operators) in every other position
    let mut small: Vec<X> = inners.clone();
    for inner in &inners {
        for op in [",", "<", ">", ">>", "="] {
            small.push(X::Bin(op, Box::new(inner.clone()), l("c")));
            small.push(X::Bin(op, l("c"), Box::new(inner.clone())));
        }
    }
    for x in &small {
        for position in 1..14u8 {
            out.push(expr_program(x, position));
        }
    }
    out
}

fn repo_texts() -> Vec<String> {
    let mut v = Vec::new();
    if let Ok(rd) = std::fs::read_dir("/repo/tests/basic") {
        let mut paths: Vec<_> = rd.filter_map(|e| e.ok()).map(|e| e.path()).collect();
        paths.sort();
        for p in paths {
            let ext = p.extension().and_then(|e| e.to_str()).unwrap_or("");
            if ext == "rssl" || ext == "hlsl" {
                if let Ok(t) = std::fs::read_to_string(&p) {
                    v.push(t);
                }
            }
        }
    }
    v
}

pub fn run(ctx: &mut Ctx) {
    ctx.rule = "Trees T are obtained by parsing: (1) every (outer, inner, side) combination of the 30 binary, 6 prefix, 2 postfix operators, ternary, cast, subscript, member and call at depth 2 (exhaustive); (2) random expression trees to depth 6 over those nodes plus template calls, constructors, sizeof and 37 literal spellings of every kind (incl. 18446744073709551615, 1e300L, 1e-320, 16777217.0f, 1.#INF), placed as expression statement, return value, initialiser, if/while/do/for condition and increment, for-init, call argument, aggregate element, switch body and case label, default argument, enumerator value, array size (global and member), attribute argument, global initialiser and template argument, with every compound operand parenthesised in the source so any shape is reachable; (3) whole generated programs (all statement forms, declarators, templates, struct/enum definitions); (4) the repository's own inputs; (5) the HLSL and MSL(HLSL re-read) text the exporters emit for generated programs. Oracle: format(T, Hlsl) and format(T, Msl) parse, and the re-parsed tree equals T after removing source locations. Trees whose printing reports AmbiguousParseBranch are not printable (counted). Non-trivial = >= 3 operator characters or a non-integer literal. Distinct = hash of the source text.".into();
    ctx.assumptions.push("trees are built by the parser from explicitly grouped text rather than constructed in memory: a tree shape the parser can never produce (e.g. a negative literal node) is not covered".into());
    ctx.assumptions.push("INFINITY / FLT_MAX are Metal spellings the RSSL lexer cannot read back: the infinity literal and FLT_MAX are excluded for the Msl target".into());
    if !ctx.replay_tier(&check_record) {
        return;
    }
    let pairs = pair_programs();
    ctx.extra.insert("depth2_combinations".into(), json!(pairs.len()));
    ctx.run_enum("exhaustive_depth2_pairs", pairs.len() as u64, false, |i| json!({"kind": "pair", "text": pairs[i as usize]}), |i| check_record(&json!({"kind": "pair", "text": pairs[i as usize]})));
    ctx.run_prop(
        "random_expression_trees",
        ctx.tier.pick(30_000, 1_000_000),
        || (x_strategy(), any::<u8>()),
        |(x, p): &(X, u8)| json!({"kind": "expr", "text": expr_program(x, *p)}),
        check_record,
    );
    ctx.run_prop(
        "generated_programs",
        ctx.tier.pick(3_000, 60_000),
        || (progen::choices_strategy(500), any::<bool>()),
        |(ch, full): &(Vec<u32>, bool)| {
            let (_p, text, _) = progen::generate(ch, if *full { progen::Profile { pipelines: false, ..progen::Profile::full() } } else { progen::Profile::exec_hlsl() });
            json!({"kind": "program", "text": text})
        },
        check_record,
    );
    ctx.run_prop(
        "exporter_output",
        ctx.tier.pick(2_000, 40_000),
        || progen::choices_strategy(500),
        |ch: &Vec<u32>| {
            let (_p, text, _) = progen::generate(ch, progen::Profile::exec_hlsl());
            let emitted = match compile_text(&text, Tgt::Dx) {
                Ok(Ok(p)) => pipeline_text(&p[0]),
                _ => String::new(),
            };
            json!({"kind": "exported", "text": emitted})
        },
        check_record,
    );
    // declaration forms that the program generator does not produce
    const DECLARATIONS: &[&str] = &[
        "struct B { int a; };\nstruct D : B { int c; };\nstruct E : D, B { float e; };\n",
        "template<typename T> struct Box { T value; T twice() { return value + value; } };\ntemplate<typename T, int N> struct Arr { T v[N]; };\n",
        "typedef float3 Vec;\ntypedef int Arr4[4];\n",
        "typedef const uint CU;\ntypedef Texture2D<float4> Tex;\n",
        "cbuffer CB : register(b1, space2) { float4 a; float b; int c[3]; };\n",
        "cbuffer CB2 { float4 a : packoffset(c0); float b : packoffset(c1.y); }\n",
        "enum Plain { PA = 1 << 2, PB };\n",
        "enum class Mode { MA, MB = 3 };\n",
        "enum Typed : uint { TA, TB = 3 };\n",
        "namespace N { namespace M { static const int k = 1; struct S { int m; }; } }\nN::M::S g(N::M::S s) { return s; }\n",
        "[numthreads(8, 8, 1)]\nvoid cs(uint3 id : SV_DispatchThreadID, uint gi : SV_GroupIndex) { }\n",
        "struct V { float4 p : SV_Position; nointerpolation float2 uv : TEXCOORD0; };\nfloat4 ps(V v, bool f : SV_IsFrontFace) : SV_Target0 { return v.p; }\n",
        "Texture2D<float4> t : register(t3);\nSamplerState s : register(s0, space1);\nRWStructuredBuffer<uint> u[4];\nConstantBuffer<float4> c;\n",
        "static const float k[2][3] = { { 1, 2, 3 }, { 4, 5, 6 } };\ngroupshared uint lds[64];\nextern const int e;\n",
        "void f(in int a, out float b, inout uint c, const bool d = true, float e[2]) { b = 0; }\n",
        "template<typename T = float, int N = 4> T g(T x) { return x * N; }\nvoid h() { g<float, 2>(1.0); g(2); }\n",
        "void f() { [unroll] for (int i = 0; i < 4; ++i) { } [loop] while (false) { } [branch] if (true) { } [flatten] if (false) { } else { } [unroll(4)] do { } while (false); }\n",
        "void f(int a) { switch (a) { case 0: case 1: a++; break; case 2: { a--; } default: discard; } }\n",
        "struct S { int a; void m() { } int n(int x = 3) { return x; } };\n",
        "struct S2 { static const int k = 3; int a; };\n",
        "row_major float4x4 m;\ncolumn_major float3x2 n;\nprecise float p;\nvolatile int v;\nunorm float4 u;\nsnorm float s;\n",
    ];
    ctx.run_enum("declaration_forms", DECLARATIONS.len() as u64, false, |i| json!({"kind": "decl", "text": DECLARATIONS[i as usize]}), |i| check_record(&json!({"kind": "decl", "text": DECLARATIONS[i as usize]})));
    // ---- declarator lists: every ordered pair (and the triples with a plain name in the middle) of 12 declarator forms in
    // 5 places; the qualifier of a pointer sits next to the name it belongs to
    {
        const DECLARATORS: &[&str] = &["a", "*p", "*const q", "* volatile r", "**s", "*const *t", "* const volatile u", "b[2]", "*c[2]", "d[2][3]", "e = 0", "*const f = 0"];
        const PLACES: &[&str] = &["int @;\n", "void fn() { int @; }\n", "struct S { int @; };\n", "void fn() { for (int @; ; ) { } }\n", "static const float @;\n"];
        let n = DECLARATORS.len() as u64;
        let lists = n + n * n + n * n;
        let make = |i: u64| {
            let k = i % lists;
            let place = PLACES[(i / lists) as usize % PLACES.len()];
            let list = if k < n {
                DECLARATORS[k as usize].to_string()
            } else if k < n + n * n {
                let j = k - n;
                format!("{}, {}x", DECLARATORS[(j / n) as usize], DECLARATORS[(j % n) as usize])
            } else {
                let j = k - n - n * n;
                format!("{}, mid, {}x", DECLARATORS[(j / n) as usize], DECLARATORS[(j % n) as usize])
            };
            // the second declarator gets another name: the x is appended to its name (in front of [ or = if present)
            let list = {
                let mut out = String::new();
                for (idx, part) in list.split(", ").enumerate() {
                    if idx > 0 {
                        out.push_str(", ");
                    }
                    if let Some(stripped) = part.strip_suffix('x') {
                        let cut = stripped.find(|c: char| c == '[' || c == ' ' && stripped[stripped.find(' ').unwrap_or(0)..].trim_start().starts_with('=')).unwrap_or(stripped.len());
                        let (head, tail) = stripped.split_at(cut);
                        let head = head.trim_end();
                        out.push_str(&format!("{}2{}{}", head, if tail.starts_with('[') { "" } else { " " }, tail.trim_start()));
                    } else {
                        out.push_str(part);
                    }
                }
                out.trim_end().to_string()
            };
            json!({"kind": "decl", "text": place.replace('@', &list)})
        };
        ctx.run_enum("declarator_lists", lists * PLACES.len() as u64, false, make, |i| check_record(&make(i)));
    }
    let repo = repo_texts();
    ctx.run_enum("repository_inputs", repo.len() as u64, false, |i| json!({"kind": "repo", "text": repo[i as usize]}), |i| check_record(&json!({"kind": "repo", "text": repo[i as usize]})));
    for l in ["kind_pair", "kind_expr", "kind_program", "kind_exported"] {
        ctx.require_label(l, 50);
    }
    if ctx.tier == Tier::Thorough && ctx.failures.is_empty() {
        // coverage-guided stage: the fuzzer mutates generated programs (and the repository's inputs); the oracle in the
        // target is this check's check_record
        let mut seeds: Vec<Vec<u8>> = sample_strategy(&progen::choices_strategy(400), ctx.seed ^ 0xf09, 300)
            .iter()
            .enumerate()
            .map(|(i, ch)| progen::generate(ch, if i % 3 == 0 { progen::Profile { pipelines: false, ..progen::Profile::full() } } else { progen::Profile::exec_hlsl() }).1.into_bytes())
            .collect();
        seeds.extend(repo.iter().map(|t| t.clone().into_bytes()));
        seeds.extend(pair_programs().into_iter().step_by(17).map(|t| t.into_bytes()));
        crate::fuzz::campaign(ctx, "text_property", Some("C09"), seeds, 300, &|bytes: &[u8]| json!({"kind": "text", "text": String::from_utf8_lossy(bytes).to_string()}), &check_record);
    }
}
