//! C11 — conditional compilation selects exactly the branches C semantics select.
//!
//! Oracle: a reference conditional-inclusion automaton written from the C rules plus a u64
//! recursive-descent condition evaluator with textual macro substitution; both independent of
//! `preprocess/src/preprocess.rs` and `condition_parser.rs`.

use crate::common::*;
use proptest::prelude::*;
use rssl::preprocess::PreprocessError;
use serde_json::{Value, json};

// ---------------------------------------------------------------------------------------------
// Part 1: directive sequences

/// One line of a generated file.
#[derive(Clone, Debug, PartialEq)]
pub enum Line {
    If(bool),
    Ifdef(String),
    Ifndef(String),
    Elif(bool),
    Else,
    Endif,
    Text,
    Define,
    /// `#undef <name>`
    Undef(String),
    /// `#include "<file>"`
    Include(String),
    /// `#pragma once` in the current file
    PragmaOnce,
}

const SYMBOLS: u64 = 12;

fn symbol(d: u64) -> Line {
    match d {
        0 => Line::If(false),
        1 => Line::If(true),
        2 => Line::Ifdef("D".into()),
        3 => Line::Ifdef("U".into()),
        4 => Line::Ifndef("D".into()),
        5 => Line::Ifndef("U".into()),
        6 => Line::Elif(false),
        7 => Line::Elif(true),
        8 => Line::Else,
        9 => Line::Endif,
        10 => Line::Text,
        _ => Line::Define,
    }
}

/// Number of sequences of length <= n over the alphabet.
pub fn count_upto(n: u32) -> u64 {
    (0..=n).map(|l| SYMBOLS.pow(l)).sum()
}

/// Decode an index (shortest sequences first) into a sequence of alphabet digits.
fn decode(mut i: u64, out: &mut Vec<u8>) {
    out.clear();
    let mut len = 0u32;
    loop {
        let c = SYMBOLS.pow(len);
        if i < c {
            break;
        }
        i -= c;
        len += 1;
    }
    for _ in 0..len {
        out.push((i % SYMBOLS) as u8);
        i /= SYMBOLS;
    }
}

/// The include files every generated program may refer to.
fn include_files() -> Vec<(String, String)> {
    vec![
        ("inc.h".to_string(), "INC P0 Q\n".to_string()),
        ("once.h".to_string(), "#pragma once\nONCE\n".to_string()),
        ("def.h".to_string(), "#define Q QV\n".to_string()),
        ("cond.h".to_string(), "#ifdef D\nIN_D\n#else\nNOT_D\n#endif\n#ifdef Q\nHAS_Q\n#endif\n".to_string()),
        ("skiponce.h".to_string(), "#if 0\n#pragma once\n#endif\nSKIPONCE\n".to_string()),
        ("condonce.h".to_string(), "#ifdef Q\n#pragma once\n#endif\nCONDONCE\n".to_string()),
    ]
}

/// Render a sequence to text. Text line i is `T<i> P0 P1 ... Q D2`, define line j is `#define P<j> X<j>`.
pub fn render(lines: &[Line]) -> String {
    let ndef = lines.iter().filter(|l| matches!(l, Line::Define)).count();
    let mut s = String::with_capacity(lines.len() * 16);
    let mut t = 0;
    let mut d = 0;
    for l in lines {
        match l {
            Line::If(b) => {
                s.push_str(if *b { "#if 1\n" } else { "#if 0\n" });
            }
            Line::Ifdef(n) => {
                s.push_str("#ifdef ");
                s.push_str(n);
                s.push('\n');
            }
            Line::Ifndef(n) => {
                s.push_str("#ifndef ");
                s.push_str(n);
                s.push('\n');
            }
            Line::Elif(b) => s.push_str(if *b { "#elif 1\n" } else { "#elif 0\n" }),
            Line::Else => s.push_str("#else\n"),
            Line::Endif => s.push_str("#endif\n"),
            Line::Text => {
                s.push('T');
                s.push_str(&t.to_string());
                for j in 0..ndef {
                    s.push_str(" P");
                    s.push_str(&j.to_string());
                }
                s.push_str(" Q\n");
                t += 1;
            }
            Line::Define => {
                s.push_str("#define P");
                s.push_str(&d.to_string());
                s.push_str(" X");
                s.push_str(&d.to_string());
                s.push('\n');
                d += 1;
            }
            Line::Undef(n) => {
                s.push_str("#undef ");
                s.push_str(n);
                s.push('\n');
            }
            Line::Include(f) => {
                s.push_str("#include \"");
                s.push_str(f);
                s.push_str("\"\n");
            }
            Line::PragmaOnce => s.push_str("#pragma once\n"),
        }
    }
    s
}

#[derive(Debug, PartialEq, Clone)]
pub enum Expect {
    /// the words that survive
    Words(Vec<String>),
    Unfinished,
    ElseNotMatched,
    EndIfNotMatched,
    /// `#elif`/`#else` after `#else`: ill-formed in C, not covered by the property: no panic only
    IllFormed,
}

struct Frame {
    parent_active: bool,
    taken: bool,
    active: bool,
    seen_else: bool,
}

struct Model {
    stack: Vec<Frame>,
    /// currently defined object-like macros: name -> replacement word
    macros: Vec<(String, String)>,
    once_done: Vec<String>,
    words: Vec<String>,
    max_depth: usize,
    max_branches: usize,
    cur_branches: Vec<usize>,
    tcount: usize,
    dcount: usize,
    ndef: usize,
}

impl Model {
    fn active(&self) -> bool {
        self.stack.last().map(|f| f.active).unwrap_or(true)
    }
    fn defined(&self, n: &str) -> bool {
        self.macros.iter().any(|(k, _)| k == n)
    }
    fn emit_word(&mut self, w: &str) {
        let v = match self.macros.iter().find(|(k, _)| k == w) {
            Some((_, v)) => v.clone(),
            None => w.to_string(),
        };
        self.words.push(v);
    }
    fn push(&mut self, cond: bool) {
        let pa = self.active();
        let on = pa && cond;
        self.stack.push(Frame { parent_active: pa, taken: on, active: on, seen_else: false });
        self.cur_branches.push(1);
        self.max_depth = self.max_depth.max(self.stack.len());
    }

    /// Process the lines of one file. Err(expect) = the run stops with that expectation.
    fn run(&mut self, lines: &[Line], file: &str, files: &[(String, Vec<Line>)]) -> Result<(), Expect> {
        for l in lines {
            match l {
                Line::If(c) => self.push(*c),
                Line::Ifdef(n) => {
                    let d = self.defined(n);
                    self.push(d)
                }
                Line::Ifndef(n) => {
                    let d = self.defined(n);
                    self.push(!d)
                }
                Line::Elif(c) => {
                    let Some(f) = self.stack.last_mut() else { return Err(Expect::ElseNotMatched) };
                    if f.seen_else {
                        return Err(Expect::IllFormed);
                    }
                    if f.parent_active && !f.taken && *c {
                        f.active = true;
                        f.taken = true;
                    } else {
                        f.active = false;
                    }
                    let b = self.cur_branches.last_mut().unwrap();
                    *b += 1;
                    self.max_branches = self.max_branches.max(*b);
                }
                Line::Else => {
                    let Some(f) = self.stack.last_mut() else { return Err(Expect::ElseNotMatched) };
                    if f.seen_else {
                        return Err(Expect::IllFormed);
                    }
                    f.active = f.parent_active && !f.taken;
                    f.taken = true;
                    f.seen_else = true;
                    let b = self.cur_branches.last_mut().unwrap();
                    *b += 1;
                    self.max_branches = self.max_branches.max(*b);
                }
                Line::Endif => {
                    if self.stack.pop().is_none() {
                        return Err(Expect::EndIfNotMatched);
                    }
                    self.cur_branches.pop();
                }
                Line::Text => {
                    let t = self.tcount;
                    self.tcount += 1;
                    if self.active() {
                        self.words.push(format!("T{}", t));
                        for j in 0..self.ndef {
                            self.emit_word(&format!("P{}", j));
                        }
                        self.emit_word("Q");
                    }
                }
                Line::Define => {
                    let d = self.dcount;
                    self.dcount += 1;
                    if self.active() {
                        let name = format!("P{}", d);
                        self.macros.retain(|(k, _)| *k != name);
                        self.macros.push((name, format!("X{}", d)));
                    }
                }
                Line::Undef(n) => {
                    if self.active() {
                        self.macros.retain(|(k, _)| k != n);
                    }
                }
                Line::PragmaOnce => {
                    if self.active() && !self.once_done.iter().any(|f| f == file) {
                        self.once_done.push(file.to_string());
                    }
                }
                Line::Include(f) => {
                    if self.active() && !self.once_done.iter().any(|o| o == f) {
                        let inc = files.iter().find(|(n, _)| n == f).expect("include file exists");
                        self.run_include(&inc.0, &inc.1, files)?;
                    }
                }
            }
        }
        Ok(())
    }

    fn run_include(&mut self, name: &str, lines: &[Line], files: &[(String, Vec<Line>)]) -> Result<(), Expect> {
        // include files of this check are written as raw text; model them by name
        let _ = lines;
        match name {
            "inc.h" => {
                self.words.push("INC".into());
                self.emit_word("P0");
                self.emit_word("Q");
            }
            "once.h" => {
                if !self.once_done.iter().any(|f| f == "once.h") {
                    self.once_done.push("once.h".into());
                }
                self.words.push("ONCE".into());
            }
            "def.h" => {
                self.macros.retain(|(k, _)| k != "Q");
                self.macros.push(("Q".into(), "QV".into()));
            }
            "skiponce.h" => self.words.push("SKIPONCE".into()),
            "condonce.h" => {
                if self.defined("Q") && !self.once_done.iter().any(|f| f == "condonce.h") {
                    self.once_done.push("condonce.h".into());
                }
                self.words.push("CONDONCE".into());
            }
            "cond.h" => {
                if self.defined("D") {
                    self.words.push("IN_D".into());
                } else {
                    self.words.push("NOT_D".into());
                }
                if self.defined("Q") {
                    self.words.push("HAS_Q".into());
                }
            }
            _ => unreachable!(),
        }
        let _ = files;
        Ok(())
    }
}

pub struct ModelResult {
    pub expect: Expect,
    pub nontrivial: bool,
}

/// The reference: which words survive / which error is required.
pub fn model(lines: &[Line]) -> ModelResult {
    let ndef = lines.iter().filter(|l| matches!(l, Line::Define)).count();
    let mut m = Model {
        stack: Vec::new(),
        macros: vec![("D".to_string(), "1".to_string())],
        once_done: Vec::new(),
        words: Vec::new(),
        max_depth: 0,
        max_branches: 0,
        cur_branches: Vec::new(),
        tcount: 0,
        dcount: 0,
        ndef,
    };
    let files: Vec<(String, Vec<Line>)> =
        include_files().into_iter().map(|(n, _)| (n, Vec::new())).collect();
    let r = m.run(lines, "main", &files);
    let nontrivial = m.max_depth >= 2 || m.max_branches >= 3;
    let expect = match r {
        Err(e) => e,
        Ok(()) => {
            if !m.stack.is_empty() {
                Expect::Unfinished
            } else {
                Expect::Words(m.words)
            }
        }
    };
    ModelResult { expect, nontrivial }
}

/// Run the implementation on a text; Ok(words) or Err(error).
fn run_impl(text: &str) -> Result<Result<Vec<String>, PreprocessError>, String> {
    let files = {
        let mut f = include_files();
        f.push(("main".to_string(), text.to_string()));
        f
    };
    guard(|| {
        let mut sm = rssl::text::SourceManager::new();
        let mut handler = MemFiles(files);
        match rssl::preprocess::preprocess("main", &mut sm, &mut handler, &[("D", "1")]) {
            Ok(tokens) => {
                let out = rssl::preprocess::unlex(&tokens, &sm);
                Ok(out.split_whitespace().map(String::from).collect())
            }
            Err(e) => Err(e),
        }
    })
}

fn judge(lines: &[Line]) -> Verdict {
    let text = render(lines);
    let m = model(lines);
    let got = match run_impl(&text) {
        Ok(g) => g,
        Err(p) => return Verdict::fail(format!("panic:{}", p), format!("input:\n{}", text)),
    };
    let ok = match (&m.expect, &got) {
        (Expect::IllFormed, _) => {
            return Verdict::pass(None, vec!["ill_formed_else_chain(no-panic only)".into()]);
        }
        (Expect::Words(w), Ok(g)) => w == g,
        (Expect::Unfinished, Err(PreprocessError::ConditionChainNotFinished)) => true,
        (Expect::ElseNotMatched, Err(PreprocessError::ElseNotMatched)) => true,
        (Expect::EndIfNotMatched, Err(PreprocessError::EndIfNotMatched)) => true,
        _ => false,
    };
    if !ok {
        let sig = match (&m.expect, &got) {
            (Expect::Words(_), Ok(_)) => "selection:wrong-text".to_string(),
            (Expect::Words(_), Err(e)) => format!("selection:unexpected-error:{}", variant(e)),
            (e, Ok(_)) => format!("selection:accepted-but-expected:{:?}", e),
            (e, Err(g)) => format!("selection:wrong-error:expected={:?}:got={}", e, variant(g)),
        };
        return Verdict::fail(sig, format!("input:\n{}\nexpected: {:?}\ngot: {:?}", text, m.expect, got));
    }
    let label = match &m.expect {
        Expect::Words(_) => "accepted",
        Expect::Unfinished => "unfinished",
        Expect::ElseNotMatched => "else_not_matched",
        Expect::EndIfNotMatched => "endif_not_matched",
        Expect::IllFormed => unreachable!(),
    };
    Verdict::pass(if m.nontrivial { Some(hash_of(&text)) } else { None }, vec![label.into()])
}

fn variant(e: &PreprocessError) -> String {
    let s = format!("{:?}", e);
    s.split(['(', ' ']).next().unwrap_or("").to_string()
}

fn lines_to_json(lines: &[Line]) -> Value {
    json!({"kind": "sequence", "text": render(lines), "lines": lines.iter().map(|l| format!("{:?}", l)).collect::<Vec<_>>(),
        "lines_code": lines.iter().map(line_code).collect::<Vec<_>>()})
}

fn line_code(l: &Line) -> Value {
    match l {
        Line::If(b) => json!(["if", b]),
        Line::Ifdef(n) => json!(["ifdef", n]),
        Line::Ifndef(n) => json!(["ifndef", n]),
        Line::Elif(b) => json!(["elif", b]),
        Line::Else => json!(["else"]),
        Line::Endif => json!(["endif"]),
        Line::Text => json!(["text"]),
        Line::Define => json!(["define"]),
        Line::Undef(n) => json!(["undef", n]),
        Line::Include(n) => json!(["include", n]),
        Line::PragmaOnce => json!(["once"]),
    }
}

fn line_from_code(v: &Value) -> Line {
    let k = v[0].as_str().unwrap_or("");
    let s = || v[1].as_str().unwrap_or("").to_string();
    match k {
        "if" => Line::If(v[1].as_bool().unwrap_or(false)),
        "ifdef" => Line::Ifdef(s()),
        "ifndef" => Line::Ifndef(s()),
        "elif" => Line::Elif(v[1].as_bool().unwrap_or(false)),
        "else" => Line::Else,
        "endif" => Line::Endif,
        "text" => Line::Text,
        "define" => Line::Define,
        "undef" => Line::Undef(s()),
        "include" => Line::Include(s()),
        _ => Line::PragmaOnce,
    }
}

// ---------------------------------------------------------------------------------------------
// Part 2: condition expressions

#[derive(Clone, Debug)]
pub enum CExpr {
    Num(u64, u8), // value, spelling style
    Ident(String),
    DefinedBare(String),
    DefinedParen(String),
    Not(Box<CExpr>),
    Bin(&'static str, Box<CExpr>, Box<CExpr>),
    Paren(Box<CExpr>),
    Call(String, Vec<CExpr>),
}

#[derive(Clone, Debug)]
pub struct MacroDef {
    name: String,
    params: Vec<String>,
    function_like: bool,
    body: CExpr,
}

#[derive(Clone, Debug)]
pub struct CondCase {
    macros: Vec<MacroDef>,
    expr: CExpr,
    spacing: Vec<u8>,
    in_elif: bool,
}

#[derive(Clone, Debug, PartialEq)]
enum Tok {
    Num(u64),
    Id(String),
    Op(&'static str),
    LP,
    RP,
    Comma,
}

fn flatten(e: &CExpr, out: &mut Vec<Tok>) {
    match e {
        CExpr::Num(v, _) => out.push(Tok::Num(*v)),
        CExpr::Ident(n) => out.push(Tok::Id(n.clone())),
        CExpr::DefinedBare(n) => {
            out.push(Tok::Id("defined".into()));
            out.push(Tok::Id(n.clone()));
        }
        CExpr::DefinedParen(n) => {
            out.push(Tok::Id("defined".into()));
            out.push(Tok::LP);
            out.push(Tok::Id(n.clone()));
            out.push(Tok::RP);
        }
        CExpr::Not(a) => {
            out.push(Tok::Op("!"));
            flatten(a, out);
        }
        CExpr::Bin(op, a, b) => {
            flatten(a, out);
            out.push(Tok::Op(op));
            flatten(b, out);
        }
        CExpr::Paren(a) => {
            out.push(Tok::LP);
            flatten(a, out);
            out.push(Tok::RP);
        }
        CExpr::Call(n, args) => {
            out.push(Tok::Id(n.clone()));
            out.push(Tok::LP);
            for (i, a) in args.iter().enumerate() {
                if i > 0 {
                    out.push(Tok::Comma);
                }
                flatten(a, out);
            }
            out.push(Tok::RP);
        }
    }
}

fn sp(spacing: &[u8], pos: &mut usize, out: &mut String, must: bool) {
    let s = spacing.get(*pos % spacing.len().max(1)).copied().unwrap_or(1);
    *pos += 1;
    match s % 4 {
        0 if !must => {}
        2 => out.push_str("  "),
        3 => out.push('\t'),
        _ => out.push(' '),
    }
}

fn spell(e: &CExpr, spacing: &[u8], pos: &mut usize, out: &mut String) {
    match e {
        CExpr::Num(v, style) => match style % 4 {
            1 => out.push_str(&format!("0x{:x}", v)),
            2 => out.push_str(&format!("{}u", v)),
            3 if *v < (1 << 40) => out.push_str(&format!("0{:o}", v)),
            _ => out.push_str(&v.to_string()),
        },
        CExpr::Ident(n) => out.push_str(n),
        CExpr::DefinedBare(n) => {
            out.push_str("defined");
            sp(spacing, pos, out, true);
            out.push_str(n);
        }
        CExpr::DefinedParen(n) => {
            out.push_str("defined");
            sp(spacing, pos, out, false);
            out.push('(');
            sp(spacing, pos, out, false);
            out.push_str(n);
            sp(spacing, pos, out, false);
            out.push(')');
        }
        CExpr::Not(a) => {
            out.push('!');
            sp(spacing, pos, out, false);
            spell(a, spacing, pos, out);
        }
        CExpr::Bin(op, a, b) => {
            spell(a, spacing, pos, out);
            sp(spacing, pos, out, false);
            out.push_str(op);
            sp(spacing, pos, out, false);
            spell(b, spacing, pos, out);
        }
        CExpr::Paren(a) => {
            out.push('(');
            sp(spacing, pos, out, false);
            spell(a, spacing, pos, out);
            sp(spacing, pos, out, false);
            out.push(')');
        }
        CExpr::Call(n, args) => {
            out.push_str(n);
            out.push('(');
            for (i, a) in args.iter().enumerate() {
                if i > 0 {
                    out.push(',');
                    sp(spacing, pos, out, false);
                }
                spell(a, spacing, pos, out);
            }
            out.push(')');
        }
    }
}

fn render_cond(c: &CondCase) -> String {
    let mut s = String::new();
    for m in &c.macros {
        s.push_str("#define ");
        s.push_str(&m.name);
        if m.function_like {
            s.push('(');
            s.push_str(&m.params.join(", "));
            s.push(')');
        }
        s.push(' ');
        let mut pos = 0;
        spell(&m.body, &[1], &mut pos, &mut s);
        s.push('\n');
    }
    let mut cond = String::new();
    let mut pos = 0;
    spell(&c.expr, &c.spacing, &mut pos, &mut cond);
    if c.in_elif {
        s.push_str("#if 0\nNEVER\n#elif ");
    } else {
        s.push_str("#if ");
    }
    s.push_str(&cond);
    s.push_str("\nYES\n#else\nNO\n#endif\n");
    s
}

// reference: textual macro substitution on tokens, then evaluation

fn ref_expand(tokens: &[Tok], macros: &[MacroDef], disabled: &mut Vec<String>, handle_defined: bool) -> Vec<Tok> {
    let mut out = Vec::new();
    let mut i = 0;
    while i < tokens.len() {
        match &tokens[i] {
            Tok::Id(n) if handle_defined && n == "defined" => {
                // defined X | defined ( X )
                let (name, next) = match tokens.get(i + 1) {
                    Some(Tok::Id(x)) => (x.clone(), i + 2),
                    Some(Tok::LP) => match (tokens.get(i + 2), tokens.get(i + 3)) {
                        (Some(Tok::Id(x)), Some(Tok::RP)) => (x.clone(), i + 4),
                        _ => panic!("generator: malformed defined"),
                    },
                    _ => panic!("generator: malformed defined"),
                };
                let is = macros.iter().any(|m| m.name == name) || name == "__HLSL_VERSION" || name == "D";
                out.push(Tok::Num(is as u64));
                i = next;
            }
            Tok::Id(n) if !disabled.contains(n) && macros.iter().any(|m| &m.name == n) => {
                let m = macros.iter().rev().find(|m| &m.name == n).unwrap();
                if m.function_like {
                    if tokens.get(i + 1) != Some(&Tok::LP) {
                        out.push(tokens[i].clone());
                        i += 1;
                        continue;
                    }
                    // collect args
                    let mut depth = 0;
                    let mut j = i + 2;
                    let mut args: Vec<Vec<Tok>> = vec![Vec::new()];
                    loop {
                        match &tokens[j] {
                            Tok::LP => {
                                depth += 1;
                                args.last_mut().unwrap().push(Tok::LP);
                            }
                            Tok::RP if depth == 0 => break,
                            Tok::RP => {
                                depth -= 1;
                                args.last_mut().unwrap().push(Tok::RP);
                            }
                            Tok::Comma if depth == 0 => args.push(Vec::new()),
                            t => args.last_mut().unwrap().push(t.clone()),
                        }
                        j += 1;
                    }
                    // arguments are fully expanded first
                    let args: Vec<Vec<Tok>> =
                        args.iter().map(|a| ref_expand(a, macros, disabled, false)).collect();
                    let mut body = Vec::new();
                    flatten(&m.body, &mut body);
                    let mut sub = Vec::new();
                    for t in body {
                        match &t {
                            Tok::Id(p) if m.params.contains(p) => {
                                let k = m.params.iter().position(|x| x == p).unwrap();
                                sub.extend(args[k].iter().cloned());
                            }
                            _ => sub.push(t),
                        }
                    }
                    disabled.push(m.name.clone());
                    let r = ref_expand(&sub, macros, disabled, false);
                    disabled.pop();
                    out.extend(r);
                    i = j + 1;
                } else {
                    let mut body = Vec::new();
                    flatten(&m.body, &mut body);
                    disabled.push(m.name.clone());
                    let r = ref_expand(&body, macros, disabled, false);
                    disabled.pop();
                    out.extend(r);
                    i += 1;
                }
            }
            t => {
                out.push(t.clone());
                i += 1;
            }
        }
    }
    out
}

struct Ev<'a> {
    t: &'a [Tok],
    p: usize,
    ops: usize,
    levels: u8,
}

impl Ev<'_> {
    fn peek_op(&self) -> Option<&'static str> {
        match self.t.get(self.p) {
            Some(Tok::Op(o)) => Some(o),
            _ => None,
        }
    }
    fn or(&mut self) -> u64 {
        let mut v = self.and();
        while self.peek_op() == Some("||") {
            self.p += 1;
            let r = self.and();
            v = (v != 0 || r != 0) as u64;
            self.ops += 1;
            self.levels |= 1;
        }
        v
    }
    fn and(&mut self) -> u64 {
        let mut v = self.eq();
        while self.peek_op() == Some("&&") {
            self.p += 1;
            let r = self.eq();
            v = (v != 0 && r != 0) as u64;
            self.ops += 1;
            self.levels |= 2;
        }
        v
    }
    fn eq(&mut self) -> u64 {
        let mut v = self.rel();
        loop {
            match self.peek_op() {
                Some("==") => {
                    self.p += 1;
                    let r = self.rel();
                    v = (v == r) as u64;
                }
                Some("!=") => {
                    self.p += 1;
                    let r = self.rel();
                    v = (v != r) as u64;
                }
                _ => break,
            }
            self.ops += 1;
            self.levels |= 4;
        }
        v
    }
    fn rel(&mut self) -> u64 {
        let mut v = self.unary();
        loop {
            let op = match self.peek_op() {
                Some(o @ ("<" | "<=" | ">" | ">=")) => o,
                _ => break,
            };
            self.p += 1;
            let r = self.unary();
            v = match op {
                "<" => v < r,
                "<=" => v <= r,
                ">" => v > r,
                _ => v >= r,
            } as u64;
            self.ops += 1;
            self.levels |= 8;
        }
        v
    }
    fn unary(&mut self) -> u64 {
        if self.peek_op() == Some("!") {
            self.p += 1;
            let v = self.unary();
            self.ops += 1;
            self.levels |= 16;
            return (v == 0) as u64;
        }
        match self.t.get(self.p).cloned() {
            Some(Tok::Num(v)) => {
                self.p += 1;
                v
            }
            Some(Tok::Id(_)) => {
                self.p += 1;
                0
            }
            Some(Tok::LP) => {
                self.p += 1;
                let v = self.or();
                assert_eq!(self.t.get(self.p), Some(&Tok::RP), "generator: unbalanced");
                self.p += 1;
                v
            }
            other => panic!("generator produced an ill-formed condition at {:?}", other),
        }
    }
}

fn ref_eval(c: &CondCase) -> (bool, usize, u32) {
    let mut toks = Vec::new();
    flatten(&c.expr, &mut toks);
    let mut all = vec![MacroDef { name: "D".into(), params: vec![], function_like: false, body: CExpr::Num(1, 0) }];
    all.extend(c.macros.iter().cloned());
    let expanded = ref_expand(&toks, &all, &mut Vec::new(), true);
    let mut ev = Ev { t: &expanded, p: 0, ops: 0, levels: 0 };
    let v = ev.or();
    assert_eq!(ev.p, expanded.len(), "generator: trailing tokens");
    (v != 0, ev.ops, ev.levels.count_ones())
}

fn cexpr_strategy(names: Vec<String>, fnames: Vec<(String, usize)>, depth: u32) -> BoxedStrategy<CExpr> {
    let idents: Vec<String> = names.iter().cloned().chain(["UNKNOWN1".to_string(), "zz".to_string(), "D".to_string()]).collect();
    let id2 = idents.clone();
    let id3 = idents.clone();
    let leaf = prop_oneof![
        4 => (prop_oneof![Just(0u64), Just(1), Just(2), Just(3), Just(1u64 << 32), Just(u64::MAX), Just((1u64<<32)-1), 0u64..20], 0u8..4)
            .prop_map(|(v, s)| CExpr::Num(v, s)),
        3 => any::<u16>().prop_map(move |r| CExpr::Ident(pick(&idents, r).clone())),
        1 => any::<u16>().prop_map(move |r| CExpr::DefinedBare(pick(&id2, r).clone())),
        1 => any::<u16>().prop_map(move |r| CExpr::DefinedParen(pick(&id3, r).clone())),
    ]
    .boxed();
    let fnames2 = fnames.clone();
    leaf.prop_recursive(depth, 40, 3, move |inner| {
        let ops: &[&'static str] = &["||", "&&", "==", "!=", "<", "<=", ">", ">="];
        let mut alts: Vec<(u32, BoxedStrategy<CExpr>)> = vec![
            (
                6,
                (any::<u16>(), inner.clone(), inner.clone())
                    .prop_map(move |(o, a, b)| CExpr::Bin(*pick(ops, o), Box::new(a), Box::new(b)))
                    .boxed(),
            ),
            (2, inner.clone().prop_map(|a| CExpr::Not(Box::new(a))).boxed()),
            (2, inner.clone().prop_map(|a| CExpr::Paren(Box::new(a))).boxed()),
        ];
        for (n, arity) in fnames2.iter().cloned() {
            alts.push((
                1,
                proptest::collection::vec(inner.clone(), arity..=arity)
                    .prop_map(move |args| CExpr::Call(n.clone(), args.into_iter().map(|a| CExpr::Paren(Box::new(a))).collect()))
                    .boxed(),
            ));
        }
        proptest::strategy::Union::new_weighted(alts)
    })
    .boxed()
}

/// `defined` inside macro bodies/arguments is undefined behaviour in C: strip it from those.
fn strip_defined(e: CExpr) -> CExpr {
    match e {
        CExpr::DefinedBare(n) | CExpr::DefinedParen(n) => CExpr::Ident(n),
        CExpr::Not(a) => CExpr::Not(Box::new(strip_defined(*a))),
        CExpr::Paren(a) => CExpr::Paren(Box::new(strip_defined(*a))),
        CExpr::Bin(o, a, b) => CExpr::Bin(o, Box::new(strip_defined(*a)), Box::new(strip_defined(*b))),
        CExpr::Call(n, a) => CExpr::Call(n, a.into_iter().map(strip_defined).collect()),
        e => e,
    }
}

fn strip_defined_in_calls(e: CExpr) -> CExpr {
    match e {
        CExpr::Not(a) => CExpr::Not(Box::new(strip_defined_in_calls(*a))),
        CExpr::Paren(a) => CExpr::Paren(Box::new(strip_defined_in_calls(*a))),
        CExpr::Bin(o, a, b) => CExpr::Bin(o, Box::new(strip_defined_in_calls(*a)), Box::new(strip_defined_in_calls(*b))),
        CExpr::Call(n, a) => CExpr::Call(n, a.into_iter().map(strip_defined).collect()),
        e => e,
    }
}

fn cond_strategy() -> impl Strategy<Value = CondCase> {
    // macro i may refer to macros < i only (no recursion: C leaves the result to hide sets,
    // which the expression grammar cannot observe; recursion is C12's subject)
    let m0 = cexpr_strategy(vec![], vec![], 2);
    let m1 = cexpr_strategy(vec!["M0".into()], vec![], 2);
    let f0 = cexpr_strategy(vec!["M0".into(), "a".into(), "b".into()], vec![], 2);
    let f1 = cexpr_strategy(vec!["M1".into(), "a".into()], vec![("F0".into(), 2)], 2);
    let e = cexpr_strategy(
        vec!["M0".into(), "M1".into(), "M0".into(), "M1".into()],
        vec![("F0".into(), 2), ("F1".into(), 1)],
        5,
    );
    (m0, m1, f0, f1, e, proptest::collection::vec(0u8..4, 1..12), any::<bool>(), 0u8..16).prop_map(
        |(m0, m1, f0, f1, e, spacing, in_elif, which)| {
            let mut macros = Vec::new();
            if which & 1 != 0 {
                macros.push(MacroDef { name: "M0".into(), params: vec![], function_like: false, body: strip_defined(m0) });
            }
            if which & 2 != 0 {
                macros.push(MacroDef { name: "M1".into(), params: vec![], function_like: false, body: strip_defined(m1) });
            }
            macros.push(MacroDef {
                name: "F0".into(),
                params: vec!["a".into(), "b".into()],
                function_like: true,
                body: CExpr::Paren(Box::new(strip_defined(f0))),
            });
            macros.push(MacroDef {
                name: "F1".into(),
                params: vec!["a".into()],
                function_like: true,
                body: CExpr::Paren(Box::new(strip_defined(f1))),
            });
            CondCase { macros, expr: strip_defined_in_calls(e), spacing, in_elif }
        },
    )
}

fn judge_cond_text(text: &str, expected: bool, nontrivial: bool) -> Verdict {
    let got = match run_impl(text) {
        Ok(g) => g,
        Err(p) => return Verdict::fail(format!("panic:{}", p), format!("input:\n{}", text)),
    };
    let want = vec![if expected { "YES".to_string() } else { "NO".to_string() }];
    match got {
        Ok(w) if w == want => Verdict::pass(
            if nontrivial { Some(hash_of(text)) } else { None },
            vec![if expected { "cond_true".into() } else { "cond_false".into() }],
        ),
        Ok(w) => Verdict::fail("condition:wrong-value", format!("input:\n{}\nexpected {:?} got {:?}", text, want, w)),
        Err(e) => Verdict::fail(
            format!("condition:rejected:{}", variant(&e)),
            format!("input:\n{}\nexpected {:?} got error {:?}", text, want, e),
        ),
    }
}

// ---------------------------------------------------------------------------------------------
// Part 3: random longer sequences over the extended alphabet

fn line_strategy() -> impl Strategy<Value = Line> {
    prop_oneof![
        2 => any::<bool>().prop_map(Line::If),
        1 => prop_oneof![Just("D"), Just("U"), Just("P0"), Just("P1"), Just("Q")].prop_map(|n| Line::Ifdef(n.to_string())),
        1 => prop_oneof![Just("D"), Just("U"), Just("P0"), Just("P1"), Just("Q")].prop_map(|n| Line::Ifndef(n.to_string())),
        2 => any::<bool>().prop_map(Line::Elif),
        2 => Just(Line::Else),
        3 => Just(Line::Endif),
        3 => Just(Line::Text),
        2 => Just(Line::Define),
        1 => prop_oneof![Just("D"), Just("P0"), Just("P1"), Just("Q"), Just("U")].prop_map(|n| Line::Undef(n.to_string())),
        3 => prop_oneof![Just("inc.h"), Just("once.h"), Just("def.h"), Just("cond.h"), Just("skiponce.h"), Just("condonce.h"), Just("once.h"), Just("skiponce.h")].prop_map(|n| Line::Include(n.to_string())),
        1 => Just(Line::PragmaOnce),
    ]
}

/// Balanced-biased sequence: random lines, then a repair pass that appends missing #endif half the time.
fn seq_strategy(min: usize, max: usize) -> impl Strategy<Value = Vec<Line>> {
    (proptest::collection::vec(line_strategy(), min..=max), any::<bool>()).prop_map(|(mut v, repair)| {
        if repair {
            // drop unmatched closers and close what is open, so that most cases are accepted files
            let mut depth = 0i32;
            let mut seen_else: Vec<bool> = Vec::new();
            let mut out = Vec::new();
            for l in v.drain(..) {
                match &l {
                    Line::If(_) | Line::Ifdef(_) | Line::Ifndef(_) => {
                        depth += 1;
                        seen_else.push(false);
                        out.push(l);
                    }
                    Line::Elif(_) => {
                        if depth > 0 && !*seen_else.last().unwrap() {
                            out.push(l);
                        }
                    }
                    Line::Else => {
                        if depth > 0 && !*seen_else.last().unwrap() {
                            *seen_else.last_mut().unwrap() = true;
                            out.push(l);
                        }
                    }
                    Line::Endif => {
                        if depth > 0 {
                            depth -= 1;
                            seen_else.pop();
                            out.push(l);
                        }
                    }
                    _ => out.push(l),
                }
            }
            for _ in 0..depth {
                out.push(Line::Endif);
            }
            out
        } else {
            v
        }
    })
}

// ---------------------------------------------------------------------------------------------

pub fn check_record(rec: &Value) -> Verdict {
    match rec["kind"].as_str() {
        Some("sequence") => {
            let lines: Vec<Line> = rec["lines_code"].as_array().map(|a| a.iter().map(line_from_code).collect()).unwrap_or_default();
            judge(&lines)
        }
        Some("condition") => {
            let text = rec["text"].as_str().unwrap_or("");
            judge_cond_text(text, rec["expected"].as_bool().unwrap_or(false), rec["nontrivial"].as_bool().unwrap_or(false))
        }
        _ => Verdict::Skip("unknown record kind".into()),
    }
}

pub fn run(ctx: &mut Ctx) {
    ctx.rule = "Part A: every directive sequence over the 12-symbol alphabet {#if 0,#if 1,#ifdef D,#ifdef U,#ifndef D,#ifndef U,#elif 0,#elif 1,#else,#endif,text,#define} up to the stated length, enumerated exhaustively (distinct by construction); non-trivial = nesting depth >= 2 or a chain with >= 3 branches. Part B: random sequences over the extended alphabet (+#undef, #include of 4 files, #pragma once, #ifdef of macros defined by the sequence). Part C: random #if/#elif condition expressions to depth 5 over literals (dec/hex/octal/u), object- and function-like macros, defined X / defined(X), unknown identifiers and || && == != < <= > >= ! (); non-trivial = >= 3 operators on >= 2 precedence levels. Distinct = hash of the file text.".into();
    ctx.assumptions.push("reference conditional-inclusion automaton and u64 evaluator in harness/src/c11.rs are the trusted base".into());
    ctx.assumptions.push("#elif/#else after #else in one chain is ill-formed C and outside the property: checked for no-panic only".into());
    ctx.assumptions.push("harness built with debug assertions and overflow checks on (as the repository's own cargo test)".into());

    if !ctx.replay_tier(&check_record) {
        return;
    }

    // Part A: exhaustive
    let max_len: u32 = std::env::var("VERIF_C11_MAXLEN").ok().and_then(|s| s.parse().ok()).unwrap_or(ctx.tier.pick(6, 8));
    let count = count_upto(max_len);
    let seq_of = |i: u64| -> Vec<Line> {
        let mut d = Vec::new();
        decode(i, &mut d);
        d.iter().map(|x| symbol(*x as u64)).collect()
    };
    ctx.run_enum(
        &format!("exhaustive_len_le_{}", max_len),
        count,
        true,
        |i| lines_to_json(&seq_of(i)),
        |i| judge(&seq_of(i)),
    );
    ctx.extra.insert("exhaustive".into(), json!(true));
    ctx.extra.insert("exhaustive_max_length".into(), json!(max_len));
    ctx.extra.insert("exhaustive_sequences".into(), json!(count));

    // Part B: random extended sequences
    let (lo, hi) = ctx.tier.pick((6, 12), (9, 14));
    ctx.run_prop(
        "random_extended_sequences",
        ctx.tier.pick(100_000, 3_000_000),
        || seq_strategy(lo, hi),
        |v: &Vec<Line>| lines_to_json(v),
        check_record,
    );

    // Part C: random conditions
    ctx.run_prop(
        "random_conditions",
        ctx.tier.pick(100_000, 2_000_000),
        cond_strategy,
        |c: &CondCase| {
            let (expected, ops, levels) = ref_eval(c);
            json!({"kind": "condition", "text": render_cond(c), "expected": expected, "nontrivial": ops >= 3 && levels >= 2})
        },
        check_record,
    );
    ctx.require_label("cond_true", 100);
    ctx.require_label("cond_false", 100);
    ctx.require_label("accepted", 100);
    ctx.require_label("unfinished", 10);
    ctx.require_label("else_not_matched", 10);
    ctx.require_label("endif_not_matched", 10);
}
