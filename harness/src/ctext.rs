//! E3a — independent lexer and parser for the C-like text both exporters emit (HLSL and MSL
//! subset): maximal-munch lexing and a precedence-climbing parser with the C/C++ precedence
//! table. Not derived from formatter.rs or parser/expressions.rs.

use crate::vals::K;
use std::collections::HashSet;

#[derive(Clone, Debug, PartialEq)]
pub enum Tok {
    Id(String),
    Int(u64, String),
    Flt(String, String),
    P(&'static str),
    Eof,
}

const PUNCT: &[&str] = &[
    "<<=", ">>=", "...", "::", "++", "--", "->", "<<", ">>", "<=", ">=", "==", "!=", "&&", "||", "+=", "-=", "*=", "/=", "%=", "&=", "|=", "^=", "[[", "]]", "{", "}", "(", ")", "[", "]",
    "<", ">", ";", ",", "?", ":", "+", "-", "*", "/", "%", "&", "|", "^", "=", "!", "~", ".", "#",
];

pub fn lex(text: &str) -> Result<Vec<Tok>, String> {
    let b = text.as_bytes();
    let mut i = 0;
    let mut out = Vec::new();
    while i < b.len() {
        let c = b[i];
        if c.is_ascii_whitespace() {
            i += 1;
            continue;
        }
        if c == b'/' && b.get(i + 1) == Some(&b'/') {
            while i < b.len() && b[i] != b'\n' {
                i += 1;
            }
            continue;
        }
        if c == b'/' && b.get(i + 1) == Some(&b'*') {
            i += 2;
            while i + 1 < b.len() && !(b[i] == b'*' && b[i + 1] == b'/') {
                i += 1;
            }
            i += 2;
            continue;
        }
        if c.is_ascii_alphabetic() || c == b'_' {
            let s = i;
            while i < b.len() && (b[i].is_ascii_alphanumeric() || b[i] == b'_') {
                i += 1;
            }
            out.push(Tok::Id(text[s..i].to_string()));
            continue;
        }
        if c.is_ascii_digit() {
            let s = i;
            let mut is_float = false;
            if c == b'0' && matches!(b.get(i + 1), Some(b'x') | Some(b'X')) {
                i += 2;
                while i < b.len() && b[i].is_ascii_hexdigit() {
                    i += 1;
                }
                let v = u64::from_str_radix(&text[s + 2..i], 16).map_err(|e| format!("hex literal: {}", e))?;
                let ss = i;
                while i < b.len() && b[i].is_ascii_alphabetic() {
                    i += 1;
                }
                out.push(Tok::Int(v, text[ss..i].to_ascii_lowercase()));
                continue;
            }
            while i < b.len() && b[i].is_ascii_digit() {
                i += 1;
            }
            if i < b.len() && b[i] == b'.' && b.get(i + 1).map(|x| x.is_ascii_digit() || *x == b'#' || !(x.is_ascii_alphabetic() || *x == b'_')).unwrap_or(true) {
                is_float = true;
                i += 1;
                if b[i..].starts_with(b"#INF") {
                    i += 4;
                    let ss = i;
                    while i < b.len() && b[i].is_ascii_alphabetic() {
                        i += 1;
                    }
                    out.push(Tok::Flt("inf".to_string(), text[ss..i].to_ascii_lowercase()));
                    continue;
                }
                while i < b.len() && b[i].is_ascii_digit() {
                    i += 1;
                }
            }
            if i < b.len() && (b[i] == b'e' || b[i] == b'E') && b.get(i + 1).map(|x| x.is_ascii_digit() || *x == b'+' || *x == b'-').unwrap_or(false) {
                is_float = true;
                i += 2;
                while i < b.len() && b[i].is_ascii_digit() {
                    i += 1;
                }
            }
            let num = &text[s..i];
            let ss = i;
            while i < b.len() && b[i].is_ascii_alphabetic() {
                i += 1;
            }
            let suffix = text[ss..i].to_ascii_lowercase();
            if is_float || matches!(suffix.as_str(), "f" | "h") {
                num.parse::<f64>().map_err(|e| format!("float literal {}: {}", num, e))?;
                out.push(Tok::Flt(num.to_string(), suffix));
            } else {
                // octal is not emitted by the exporters: decimal only
                out.push(Tok::Int(num.parse::<u64>().map_err(|e| format!("integer literal {}: {}", num, e))?, suffix));
            }
            continue;
        }
        let mut matched = false;
        for p in PUNCT {
            if text[i..].starts_with(p) {
                out.push(Tok::P(p));
                i += p.len();
                matched = true;
                break;
            }
        }
        if !matched {
            return Err(format!("unexpected character {:?} at offset {}", c as char, i));
        }
    }
    out.push(Tok::Eof);
    Ok(out)
}

// ---------------------------------------------------------------------------------------------
// syntax tree

#[derive(Clone, Debug, PartialEq)]
pub enum TyE {
    Void,
    Num(K, usize),
    Named(String),
    TrueType,
}

#[derive(Clone, Debug)]
pub enum Ex {
    Int(u64, String),
    Flt(String, String),
    Bool(bool),
    Name(String),
    Un(&'static str, Box<Ex>),
    Post(&'static str, Box<Ex>),
    Bin(&'static str, Box<Ex>, Box<Ex>),
    Asg(&'static str, Box<Ex>, Box<Ex>),
    Cond(Box<Ex>, Box<Ex>, Box<Ex>),
    Comma(Box<Ex>, Box<Ex>),
    Cast(TyE, Box<Ex>),
    Call(String, Vec<String>, Vec<Ex>),
    Ctor(TyE, Vec<Ex>),
    Index(Box<Ex>, Box<Ex>),
    Member(Box<Ex>, String),
    AsType(TyE, Box<Ex>),
    /// C++ list initialisation of a temporary: `S { a, b }`
    Brace(TyE, Vec<Init>),
    /// method call on an object: `s.f(args)`
    MCall(Box<Ex>, String, Vec<Ex>),
}

#[derive(Clone, Debug)]
pub enum Init {
    Expr(Ex),
    List(Vec<Init>),
}

#[derive(Clone, Debug)]
pub struct Declarator {
    pub name: String,
    pub dims: Vec<usize>,
    pub init: Option<Init>,
}

#[derive(Clone, Debug)]
pub enum Stm {
    Decl(TyE, Vec<Declarator>, bool),
    Expr(Ex),
    If(Ex, Box<Stm>, Option<Box<Stm>>),
    For(Option<Box<Stm>>, Option<Ex>, Option<Ex>, Box<Stm>),
    While(Ex, Box<Stm>),
    DoWhile(Box<Stm>, Ex),
    Switch(Ex, Vec<Stm>),
    Case(Ex),
    Default,
    Break,
    Continue,
    Return(Option<Ex>),
    Block(Vec<Stm>),
    Empty,
}

#[derive(Clone, Copy, Debug, PartialEq)]
pub enum Mode {
    In,
    Out,
    InOut,
    /// Metal reference parameter (`thread T&`)
    Ref,
}

#[derive(Clone, Debug)]
pub struct ParamD {
    pub ty: TyE,
    pub name: String,
    pub dims: Vec<usize>,
    pub mode: Mode,
    pub default: Option<Ex>,
}

#[derive(Clone, Debug)]
pub struct FuncD {
    pub name: String,
    pub ret: TyE,
    pub params: Vec<ParamD>,
    pub body: Vec<Stm>,
    pub is_template: bool,
    pub attrs: Vec<String>,
    pub has_body: bool,
}

#[derive(Clone, Debug)]
pub struct StructD {
    pub name: String,
    pub fields: Vec<(TyE, String, Vec<usize>)>,
    pub methods: Vec<FuncD>,
}

#[derive(Clone, Debug)]
pub struct EnumD {
    pub name: String,
    pub values: Vec<(String, Option<Ex>)>,
}

#[derive(Clone, Debug)]
pub struct GlobalD {
    pub ty: TyE,
    pub name: String,
    pub dims: Vec<usize>,
    pub is_const: bool,
    pub init: Option<Init>,
}

#[derive(Clone, Debug, Default)]
pub struct Unit {
    pub structs: Vec<StructD>,
    pub enums: Vec<EnumD>,
    pub globals: Vec<GlobalD>,
    pub funcs: Vec<FuncD>,
}

// ---------------------------------------------------------------------------------------------
// parser

pub struct Parser {
    t: Vec<Tok>,
    p: usize,
    types: HashSet<String>,
    /// enclosing user namespaces of the declaration being read
    ns: Vec<String>,
    /// names declared with a template header: only these are followed by template arguments
    templates: HashSet<String>,
    /// type names hidden by a variable or parameter of the same name in the enclosing blocks
    shadowed: Vec<String>,
}

type PR<T> = Result<T, String>;

pub fn builtin_type(name: &str) -> Option<TyE> {
    if name == "void" {
        return Some(TyE::Void);
    }
    for (prefix, k) in [("bool", K::Bool), ("int", K::Int), ("uint", K::UInt), ("half", K::Half), ("float", K::Float), ("double", K::Double)] {
        if let Some(rest) = name.strip_prefix(prefix) {
            if rest.is_empty() {
                return Some(TyE::Num(k, 1));
            }
            if let Ok(n) = rest.parse::<usize>() {
                if (1..=4).contains(&n) {
                    return Some(TyE::Num(k, n));
                }
            }
        }
    }
    None
}

impl Parser {
    pub fn new(tokens: Vec<Tok>) -> Parser {
        Parser { t: tokens, p: 0, types: HashSet::new(), ns: Vec::new(), templates: HashSet::new(), shadowed: Vec::new() }
    }

    fn peek(&self) -> &Tok {
        &self.t[self.p.min(self.t.len() - 1)]
    }
    fn peek_at(&self, k: usize) -> &Tok {
        &self.t[(self.p + k).min(self.t.len() - 1)]
    }
    fn next(&mut self) -> Tok {
        let t = self.peek().clone();
        self.p += 1;
        t
    }
    fn is_p(&self, s: &str) -> bool {
        matches!(self.peek(), Tok::P(x) if *x == s)
    }
    fn eat_p(&mut self, s: &str) -> bool {
        if self.is_p(s) {
            self.p += 1;
            true
        } else {
            false
        }
    }
    fn expect_p(&mut self, s: &str) -> PR<()> {
        if self.eat_p(s) { Ok(()) } else { Err(format!("expected `{}` but found {:?} (token {})", s, self.peek(), self.p)) }
    }
    fn is_id(&self, s: &str) -> bool {
        matches!(self.peek(), Tok::Id(x) if x == s)
    }
    fn eat_id(&mut self, s: &str) -> bool {
        if self.is_id(s) {
            self.p += 1;
            true
        } else {
            false
        }
    }
    fn ident(&mut self) -> PR<String> {
        match self.next() {
            Tok::Id(s) => Ok(s),
            other => Err(format!("expected an identifier but found {:?} (token {})", other, self.p - 1)),
        }
    }

    /// a possibly qualified name: a, A::b, metal::min
    fn qualified(&mut self) -> PR<String> {
        // a leading :: (lookup from the root scope only) stays part of the name
        let mut s = if self.eat_p("::") { format!("::{}", self.ident()?) } else { self.ident()? };
        while self.is_p("::") {
            self.p += 1;
            s.push_str("::");
            s.push_str(&self.ident()?);
        }
        Ok(s)
    }

    fn type_at(&self, k: usize) -> Option<(TyE, usize)> {
        // returns the type and how many tokens it spans
        let mut k = k;
        let start = k;
        // qualifiers
        loop {
            match self.peek_at(k) {
                Tok::Id(q) if matches!(q.as_str(), "const" | "thread" | "threadgroup" | "constant" | "device" | "static" | "groupshared" | "precise" | "volatile" | "inline") => k += 1,
                _ => break,
            }
        }
        let absolute = matches!(self.peek_at(k), Tok::P("::")) && matches!(self.peek_at(k + 1), Tok::Id(_));
        if absolute {
            k += 1;
        }
        let Tok::Id(first) = self.peek_at(k) else { return None };
        let mut name = first.clone();
        k += 1;
        while matches!(self.peek_at(k), Tok::P("::")) {
            if let Tok::Id(n) = self.peek_at(k + 1) {
                name.push_str("::");
                name.push_str(n);
                k += 2;
            } else {
                break;
            }
        }
        let bare = name.strip_prefix("metal::").unwrap_or(&name).to_string();
        let ty = if bare == "true_type" {
            TyE::TrueType
        } else if let Some(t) = builtin_type(&bare) {
            t
        } else if let Some(full) = resolve_type_name(&self.types, &self.shadowed, &self.ns, &bare, absolute) {
            TyE::Named(full)
        } else {
            return None;
        };
        Some((ty, k - start))
    }

    fn parse_type(&mut self) -> PR<TyE> {
        match self.type_at(0) {
            Some((t, n)) => {
                self.p += n;
                Ok(t)
            }
            None => Err(format!("expected a type but found {:?} (token {})", self.peek(), self.p)),
        }
    }

    fn skip_attributes(&mut self, attrs: &mut Vec<String>) -> PR<()> {
        loop {
            if self.is_p("[[") {
                let mut depth = 0;
                let mut text = String::new();
                loop {
                    match self.next() {
                        Tok::P("[[") => depth += 1,
                        Tok::P("]]") => {
                            depth -= 1;
                            if depth == 0 {
                                break;
                            }
                        }
                        Tok::Eof => return Err("unterminated attribute".into()),
                        Tok::Id(s) => text.push_str(&s),
                        _ => {}
                    }
                }
                attrs.push(text);
            } else if self.is_p("[") {
                let mut depth = 0;
                let mut text = String::new();
                loop {
                    match self.next() {
                        Tok::P("[") => depth += 1,
                        Tok::P("]") => {
                            depth -= 1;
                            if depth == 0 {
                                break;
                            }
                        }
                        Tok::Eof => return Err("unterminated attribute".into()),
                        Tok::Id(s) => text.push_str(&s),
                        Tok::Int(v, _) => text.push_str(&format!(" {}", v)),
                        _ => {}
                    }
                }
                attrs.push(text);
            } else {
                return Ok(());
            }
        }
    }

    pub fn unit(&mut self) -> PR<Unit> {
        let mut u = Unit::default();
        // enclosing user namespaces: declarations inside get qualified names
        self.ns.clear();
        loop {
            let ns: Vec<String> = self.ns.clone();
            let mut attrs = Vec::new();
            self.skip_attributes(&mut attrs)?;
            if matches!(self.peek(), Tok::Eof) {
                return Ok(u);
            }
            if self.eat_p(";") {
                continue;
            }
            if self.is_id("namespace") {
                self.p += 1;
                let ns_name = self.ident()?;
                self.expect_p("{")?;
                if ns_name == "helper" {
                    // helper namespace of the Metal prelude: skipped (its contents are part of the dialect table)
                    let mut depth = 1;
                    while depth > 0 {
                        match self.next() {
                            Tok::P("{") => depth += 1,
                            Tok::P("}") => depth -= 1,
                            Tok::Eof => return Err("unterminated namespace".into()),
                            _ => {}
                        }
                    }
                } else {
                    self.ns.push(ns_name);
                }
                continue;
            }
            if !ns.is_empty() && self.is_p("}") {
                // end of a user namespace (an optional trailing comment was removed by the lexer)
                self.p += 1;
                self.ns.pop();
                continue;
            }
            if self.eat_id("enum") {
                let name = self.ident()?;
                let name = if ns.is_empty() { name } else { format!("{}::{}", ns.join("::"), name) };
                self.types.insert(name.clone());
                self.expect_p("{")?;
                let mut values = Vec::new();
                while !self.is_p("}") {
                    let n = self.ident()?;
                    let v = if self.eat_p("=") { Some(self.assign_expr()?) } else { None };
                    values.push((n, v));
                    if !self.eat_p(",") {
                        break;
                    }
                }
                self.expect_p("}")?;
                self.expect_p(";")?;
                u.enums.push(EnumD { name, values });
                continue;
            }
            if self.eat_id("struct") {
                let name = self.ident()?;
                let name = if ns.is_empty() { name } else { format!("{}::{}", ns.join("::"), name) };
                self.types.insert(name.clone());
                self.expect_p("{")?;
                let mut fields = Vec::new();
                let mut methods = Vec::new();
                while !self.is_p("}") {
                    let mut a = Vec::new();
                    self.skip_attributes(&mut a)?;
                    // a member function template: the header names no parameter that the body could use
                    let mut member_template = false;
                    if self.eat_id("template") {
                        self.expect_p("<")?;
                        let mut depth = 1;
                        while depth > 0 {
                            match self.next() {
                                Tok::P("<") => depth += 1,
                                Tok::P(">") => depth -= 1,
                                Tok::Eof => return Err("unterminated template header".into()),
                                _ => {}
                            }
                        }
                        member_template = true;
                        self.skip_attributes(&mut a)?;
                    }
                    let ty = self.parse_type()?;
                    // a member function
                    if matches!(self.peek(), Tok::Id(_)) && matches!(self.peek_at(1), Tok::P("(")) {
                        let mname = self.ident()?;
                        if member_template {
                            self.templates.insert(mname.clone());
                        }
                        methods.push(self.function(ty, mname, member_template, a)?);
                        continue;
                    }
                    if member_template {
                        return Err("template header in front of a data member".into());
                    }
                    loop {
                        let n = self.ident()?;
                        let dims = self.dims()?;
                        // semantics / attributes after the name
                        if self.eat_p(":") {
                            let _ = self.ident()?;
                        }
                        let mut a2 = Vec::new();
                        self.skip_attributes(&mut a2)?;
                        fields.push((ty.clone(), n, dims));
                        if !self.eat_p(",") {
                            break;
                        }
                    }
                    self.expect_p(";")?;
                }
                self.expect_p("}")?;
                self.expect_p(";")?;
                u.structs.push(StructD { name, fields, methods });
                continue;
            }
            let mut is_template = false;
            if self.eat_id("template") {
                self.expect_p("<")?;
                let mut depth = 1;
                while depth > 0 {
                    match self.next() {
                        Tok::P("<") => depth += 1,
                        Tok::P(">") => depth -= 1,
                        Tok::Eof => return Err("unterminated template header".into()),
                        _ => {}
                    }
                }
                is_template = true;
                self.skip_attributes(&mut attrs)?;
            }
            // global variable or function
            let mut is_const = false;
            let mut k = 0;
            while let Tok::Id(q) = self.peek_at(k) {
                match q.as_str() {
                    "const" | "constant" => {
                        is_const = true;
                        k += 1;
                    }
                    "static" | "groupshared" | "inline" | "extern" | "precise" => k += 1,
                    _ => break,
                }
            }
            let ty = self.parse_type()?;
            let name = self.ident()?;
            let name = if ns.is_empty() { name } else { format!("{}::{}", ns.join("::"), name) };
            if self.is_p("(") {
                if is_template {
                    self.templates.insert(name.clone());
                    if let Some(leaf) = name.rsplit("::").next() {
                        self.templates.insert(leaf.to_string());
                    }
                }
                let f = self.function(ty, name, is_template, attrs)?;
                u.funcs.push(f);
            } else {
                let dims = self.dims()?;
                let init = if self.eat_p("=") { Some(self.initializer()?) } else { None };
                self.expect_p(";")?;
                u.globals.push(GlobalD { ty, name, dims, is_const, init });
            }
        }
    }

    fn dims(&mut self) -> PR<Vec<usize>> {
        let mut d = Vec::new();
        while self.is_p("[") && !self.is_p("[[") {
            self.p += 1;
            match self.next() {
                Tok::Int(v, _) => d.push(v as usize),
                other => return Err(format!("array dimension {:?}", other)),
            }
            self.expect_p("]")?;
        }
        Ok(d)
    }

    fn initializer(&mut self) -> PR<Init> {
        if self.eat_p("{") {
            let mut items = Vec::new();
            while !self.is_p("}") {
                items.push(self.initializer()?);
                if !self.eat_p(",") {
                    break;
                }
            }
            self.expect_p("}")?;
            Ok(Init::List(items))
        } else {
            Ok(Init::Expr(self.assign_expr()?))
        }
    }

    fn function(&mut self, ret: TyE, name: String, is_template: bool, attrs: Vec<String>) -> PR<FuncD> {
        self.expect_p("(")?;
        let mut params = Vec::new();
        while !self.is_p(")") {
            let mut a = Vec::new();
            self.skip_attributes(&mut a)?;
            let mut mode = Mode::In;
            loop {
                if self.eat_id("out") {
                    mode = Mode::Out;
                } else if self.eat_id("inout") {
                    mode = Mode::InOut;
                } else if self.eat_id("in") {
                } else {
                    break;
                }
            }
            let ty = self.parse_type()?;
            let mut dims = Vec::new();
            let pname;
            if self.eat_p("&") {
                mode = Mode::Ref;
                pname = if let Tok::Id(_) = self.peek() { self.ident()? } else { String::new() };
            } else if self.is_p("(") && matches!(self.peek_at(1), Tok::P("&")) {
                // thread float (&name)[3]
                self.p += 2;
                mode = Mode::Ref;
                pname = self.ident()?;
                self.expect_p(")")?;
                dims = self.dims()?;
            } else if let Tok::Id(_) = self.peek() {
                pname = self.ident()?;
                dims = self.dims()?;
            } else {
                pname = String::new();
            }
            // semantic / attribute
            if self.eat_p(":") {
                let _ = self.ident()?;
            }
            self.skip_attributes(&mut a)?;
            let default = if self.eat_p("=") { Some(self.assign_expr()?) } else { None };
            params.push(ParamD { ty, name: pname, dims, mode, default });
            if !self.eat_p(",") {
                break;
            }
        }
        self.expect_p(")")?;
        if self.eat_p(":") {
            let _ = self.ident()?;
        }
        // parameters hide types of the same name inside the body
        let mark = self.shadowed.len();
        for p in &params {
            if self.types.contains(&p.name) {
                self.shadowed.push(p.name.clone());
            }
        }
        let mut has_body = true;
        let body = if self.eat_p(";") {
            has_body = false;
            Vec::new()
        } else {
            self.expect_p("{")?;
            self.block_rest()?
        };
        self.shadowed.truncate(mark);
        Ok(FuncD { name, ret, params, body, is_template, attrs, has_body })
    }

    fn block_rest(&mut self) -> PR<Vec<Stm>> {
        let mut v = Vec::new();
        let mark = self.shadowed.len();
        while !self.is_p("}") {
            if matches!(self.peek(), Tok::Eof) {
                return Err("unterminated block".into());
            }
            v.push(self.statement()?);
        }
        self.shadowed.truncate(mark);
        self.expect_p("}")?;
        Ok(v)
    }

    fn declaration(&mut self) -> PR<Stm> {
        let mut is_const = false;
        let mut k = 0;
        while let Tok::Id(q) = self.peek_at(k) {
            if q == "const" {
                is_const = true;
            }
            if matches!(q.as_str(), "const" | "static" | "precise") {
                k += 1;
            } else {
                break;
            }
        }
        let ty = self.parse_type()?;
        let mut ds = Vec::new();
        loop {
            let name = self.ident()?;
            let dims = self.dims()?;
            let init = if self.eat_p("=") { Some(self.initializer()?) } else { None };
            // from here on the variable hides a type of the same name
            if self.types.contains(&name) {
                self.shadowed.push(name.clone());
            }
            ds.push(Declarator { name, dims, init });
            if !self.eat_p(",") {
                break;
            }
        }
        Ok(Stm::Decl(ty, ds, is_const))
    }

    fn starts_declaration(&self) -> bool {
        match self.type_at(0) {
            Some((_, n)) => matches!(self.peek_at(n), Tok::Id(_)),
            None => false,
        }
    }

    fn statement(&mut self) -> PR<Stm> {
        let mut attrs = Vec::new();
        self.skip_attributes(&mut attrs)?;
        if self.eat_p(";") {
            return Ok(Stm::Empty);
        }
        if self.eat_p("{") {
            return Ok(Stm::Block(self.block_rest()?));
        }
        if self.eat_id("if") {
            self.expect_p("(")?;
            let c = self.expr()?;
            self.expect_p(")")?;
            let a = self.statement()?;
            let b = if self.eat_id("else") { Some(Box::new(self.statement()?)) } else { None };
            return Ok(Stm::If(c, Box::new(a), b));
        }
        if self.eat_id("for") {
            self.expect_p("(")?;
            let init = if self.eat_p(";") {
                None
            } else {
                let s = if self.starts_declaration() { self.declaration()? } else { Stm::Expr(self.expr()?) };
                self.expect_p(";")?;
                Some(Box::new(s))
            };
            let cond = if self.is_p(";") { None } else { Some(self.expr()?) };
            self.expect_p(";")?;
            let inc = if self.is_p(")") { None } else { Some(self.expr()?) };
            self.expect_p(")")?;
            let body = self.statement()?;
            return Ok(Stm::For(init, cond, inc, Box::new(body)));
        }
        if self.eat_id("while") {
            self.expect_p("(")?;
            let c = self.expr()?;
            self.expect_p(")")?;
            return Ok(Stm::While(c, Box::new(self.statement()?)));
        }
        if self.eat_id("do") {
            let body = self.statement()?;
            if !self.eat_id("while") {
                return Err("expected `while` after do body".into());
            }
            self.expect_p("(")?;
            let c = self.expr()?;
            self.expect_p(")")?;
            self.expect_p(";")?;
            return Ok(Stm::DoWhile(Box::new(body), c));
        }
        if self.eat_id("switch") {
            self.expect_p("(")?;
            let c = self.expr()?;
            self.expect_p(")")?;
            self.expect_p("{")?;
            return Ok(Stm::Switch(c, self.block_rest()?));
        }
        if self.eat_id("case") {
            let e = self.cond_expr()?;
            self.expect_p(":")?;
            return Ok(Stm::Case(e));
        }
        if self.is_id("default") && matches!(self.peek_at(1), Tok::P(":")) {
            self.p += 2;
            return Ok(Stm::Default);
        }
        if self.eat_id("break") {
            self.expect_p(";")?;
            return Ok(Stm::Break);
        }
        if self.eat_id("continue") {
            self.expect_p(";")?;
            return Ok(Stm::Continue);
        }
        if self.eat_id("return") {
            if self.eat_p(";") {
                return Ok(Stm::Return(None));
            }
            let e = self.expr()?;
            self.expect_p(";")?;
            return Ok(Stm::Return(Some(e)));
        }
        if self.starts_declaration() {
            let d = self.declaration()?;
            self.expect_p(";")?;
            return Ok(d);
        }
        let e = self.expr()?;
        self.expect_p(";")?;
        Ok(Stm::Expr(e))
    }

    // ---- expressions: C++ precedence

    pub fn expr(&mut self) -> PR<Ex> {
        let mut e = self.assign_expr()?;
        while self.eat_p(",") {
            let r = self.assign_expr()?;
            e = Ex::Comma(Box::new(e), Box::new(r));
        }
        Ok(e)
    }

    fn assign_expr(&mut self) -> PR<Ex> {
        let lhs = self.cond_expr()?;
        for op in ["=", "+=", "-=", "*=", "/=", "%=", "<<=", ">>=", "&=", "|=", "^="] {
            if self.is_p(op) {
                self.p += 1;
                let rhs = self.assign_expr()?;
                let op: &'static str = match op {
                    "=" => "=",
                    "+=" => "+",
                    "-=" => "-",
                    "*=" => "*",
                    "/=" => "/",
                    "%=" => "%",
                    "<<=" => "<<",
                    ">>=" => ">>",
                    "&=" => "&",
                    "|=" => "|",
                    _ => "^",
                };
                return Ok(Ex::Asg(op, Box::new(lhs), Box::new(rhs)));
            }
        }
        Ok(lhs)
    }

    fn cond_expr(&mut self) -> PR<Ex> {
        let c = self.binary(0)?;
        if self.eat_p("?") {
            let a = self.expr()?;
            self.expect_p(":")?;
            // C++ grammar: the last operand is an assignment-expression
            let b = self.assign_expr()?;
            return Ok(Ex::Cond(Box::new(c), Box::new(a), Box::new(b)));
        }
        Ok(c)
    }

    fn bin_prec(op: &str) -> Option<u32> {
        Some(match op {
            "||" => 1,
            "&&" => 2,
            "|" => 3,
            "^" => 4,
            "&" => 5,
            "==" | "!=" => 6,
            "<" | "<=" | ">" | ">=" => 7,
            "<<" | ">>" => 8,
            "+" | "-" => 9,
            "*" | "/" | "%" => 10,
            _ => return None,
        })
    }

    fn binary(&mut self, min: u32) -> PR<Ex> {
        let mut lhs = self.unary()?;
        loop {
            let op = match self.peek() {
                Tok::P(p) => *p,
                _ => break,
            };
            let Some(prec) = Self::bin_prec(op) else { break };
            if prec < min.max(1) {
                break;
            }
            self.p += 1;
            let rhs = self.binary(prec + 1)?;
            lhs = Ex::Bin(op, Box::new(lhs), Box::new(rhs));
        }
        Ok(lhs)
    }

    fn unary(&mut self) -> PR<Ex> {
        for op in ["++", "--", "-", "+", "!", "~"] {
            if self.is_p(op) {
                self.p += 1;
                let inner = self.unary()?;
                let op: &'static str = match op {
                    "++" => "++",
                    "--" => "--",
                    "-" => "-",
                    "+" => "+",
                    "!" => "!",
                    _ => "~",
                };
                return Ok(Ex::Un(op, Box::new(inner)));
            }
        }
        // cast: ( type ) unary
        if self.is_p("(") {
            if let Some((ty, n)) = self.type_at_offset(1) {
                if matches!(self.peek_at(1 + n), Tok::P(")")) {
                    self.p += n + 2;
                    let inner = self.unary()?;
                    return Ok(Ex::Cast(ty, Box::new(inner)));
                }
            }
        }
        self.postfix()
    }

    fn type_at_offset(&self, k: usize) -> Option<(TyE, usize)> {
        // type_at works relative to self.p: emulate an offset
        let view = ParserView { t: &self.t, p: self.p + k, types: &self.types, shadowed: &self.shadowed, ns: &self.ns };
        view.type_at()
    }

    fn args(&mut self) -> PR<Vec<Ex>> {
        let mut v = Vec::new();
        self.expect_p("(")?;
        while !self.is_p(")") {
            v.push(self.assign_expr()?);
            if !self.eat_p(",") {
                break;
            }
        }
        self.expect_p(")")?;
        Ok(v)
    }

    fn primary(&mut self) -> PR<Ex> {
        match self.peek().clone() {
            Tok::Int(v, s) => {
                self.p += 1;
                Ok(Ex::Int(v, s))
            }
            Tok::Flt(v, s) => {
                self.p += 1;
                Ok(Ex::Flt(v, s))
            }
            Tok::P("(") => {
                self.p += 1;
                let e = self.expr()?;
                self.expect_p(")")?;
                Ok(e)
            }
            Tok::P("::") if matches!(self.peek_at(1), Tok::Id(_)) => {
                // ::name, ::f(...), ::S { ... } : looked up from the root scope only
                if let Some((ty, n)) = self.type_at(0) {
                    if matches!(self.peek_at(n), Tok::P("(")) {
                        self.p += n;
                        let a = self.args()?;
                        return Ok(Ex::Ctor(ty, a));
                    }
                    if matches!(self.peek_at(n), Tok::P("{")) {
                        self.p += n;
                        let Init::List(items) = self.initializer()? else { unreachable!() };
                        return Ok(Ex::Brace(ty, items));
                    }
                }
                let name = self.qualified()?;
                if self.is_p("(") {
                    let a = self.args()?;
                    return Ok(Ex::Call(name, Vec::new(), a));
                }
                Ok(Ex::Name(name))
            }
            Tok::Id(id) => {
                if id == "true" || id == "false" {
                    self.p += 1;
                    return Ok(Ex::Bool(id == "true"));
                }
                if id == "INFINITY" {
                    self.p += 1;
                    return Ok(Ex::Flt("inf".into(), "f".into()));
                }
                // constructor: type followed by (
                if let Some((ty, n)) = self.type_at(0) {
                    if matches!(self.peek_at(n), Tok::P("(")) {
                        self.p += n;
                        let a = self.args()?;
                        return Ok(Ex::Ctor(ty, a));
                    }
                    if matches!(self.peek_at(n), Tok::P("{")) {
                        self.p += n;
                        let Init::List(items) = self.initializer()? else { unreachable!() };
                        return Ok(Ex::Brace(ty, items));
                    }
                }
                let name = self.qualified()?;
                // as_type<T>(x)
                if name == "as_type" {
                    self.expect_p("<")?;
                    let ty = self.parse_type()?;
                    self.expect_p(">")?;
                    let mut a = self.args()?;
                    if a.len() != 1 {
                        return Err("as_type takes one argument".into());
                    }
                    return Ok(Ex::AsType(ty, Box::new(a.remove(0))));
                }
                // call with explicit template arguments: name < args > (
                if self.is_p("<") && self.templates.contains(&name) {
                    if let Some(len) = self.template_args_len() {
                        let mut targs = Vec::new();
                        let save = self.p;
                        self.p += 1;
                        let mut ok = true;
                        loop {
                            if let Some((t, n)) = self.type_at(0) {
                                self.p += n;
                                targs.push(format!("{:?}", t));
                            } else if let Tok::Int(v, _) = self.peek().clone() {
                                self.p += 1;
                                targs.push(v.to_string());
                            } else if self.is_p("-") {
                                self.p += 1;
                                if let Tok::Int(v, _) = self.peek().clone() {
                                    self.p += 1;
                                    targs.push(format!("-{}", v));
                                } else {
                                    ok = false;
                                    break;
                                }
                            } else {
                                ok = false;
                                break;
                            }
                            if !self.eat_p(",") {
                                break;
                            }
                        }
                        if ok && self.p == save + len - 1 && self.eat_p(">") && self.is_p("(") {
                            let a = self.args()?;
                            return Ok(Ex::Call(name, targs, a));
                        }
                        self.p = save;
                    }
                }
                if self.is_p("(") {
                    let a = self.args()?;
                    return Ok(Ex::Call(name, Vec::new(), a));
                }
                Ok(Ex::Name(name))
            }
            other => Err(format!("unexpected token {:?} in expression (token {})", other, self.p)),
        }
    }

    /// if the tokens from `<` form `< simple-args > (`, return the length up to and including `>`
    fn template_args_len(&self) -> Option<usize> {
        let mut k = 1;
        loop {
            match self.peek_at(k) {
                Tok::P(">") => {
                    return if matches!(self.peek_at(k + 1), Tok::P("(")) { Some(k + 1) } else { None };
                }
                Tok::Id(_) | Tok::Int(..) | Tok::P(",") | Tok::P("::") | Tok::P("-") => k += 1,
                _ => return None,
            }
            if k > 12 {
                return None;
            }
        }
    }

    fn postfix(&mut self) -> PR<Ex> {
        let mut e = self.primary()?;
        loop {
            if self.is_p("[") && !self.is_p("[[") {
                self.p += 1;
                let i = self.expr()?;
                self.expect_p("]")?;
                e = Ex::Index(Box::new(e), Box::new(i));
            } else if self.eat_p(".") {
                let m = self.ident()?;
                if self.is_p("(") {
                    let a = self.args()?;
                    e = Ex::MCall(Box::new(e), m, a);
                    continue;
                }
                e = Ex::Member(Box::new(e), m);
            } else if self.eat_p("++") {
                e = Ex::Post("++", Box::new(e));
            } else if self.eat_p("--") {
                e = Ex::Post("--", Box::new(e));
            } else {
                return Ok(e);
            }
        }
    }
}

struct ParserView<'a> {
    t: &'a [Tok],
    p: usize,
    types: &'a HashSet<String>,
    ns: &'a [String],
    shadowed: &'a [String],
}

impl ParserView<'_> {
    fn at(&self, k: usize) -> &Tok {
        &self.t[(self.p + k).min(self.t.len() - 1)]
    }
    fn type_at(&self) -> Option<(TyE, usize)> {
        let mut k = 0;
        loop {
            match self.at(k) {
                Tok::Id(q) if matches!(q.as_str(), "const" | "thread" | "threadgroup" | "constant" | "device") => k += 1,
                _ => break,
            }
        }
        let absolute = matches!(self.at(k), Tok::P("::")) && matches!(self.at(k + 1), Tok::Id(_));
        if absolute {
            k += 1;
        }
        let Tok::Id(first) = self.at(k) else { return None };
        let mut name = first.clone();
        k += 1;
        while matches!(self.at(k), Tok::P("::")) {
            if let Tok::Id(n) = self.at(k + 1) {
                name.push_str("::");
                name.push_str(n);
                k += 2;
            } else {
                break;
            }
        }
        let bare = name.strip_prefix("metal::").unwrap_or(&name).to_string();
        let ty = if bare == "true_type" {
            TyE::TrueType
        } else if let Some(t) = builtin_type(&bare) {
            t
        } else if let Some(full) = resolve_type_name(self.types, self.shadowed, self.ns, &bare, absolute) {
            TyE::Named(full)
        } else {
            return None;
        };
        Some((ty, k))
    }
}

/// A type name as C++ finds it: from the enclosing namespaces outward, or from the root scope only after a leading ::
/// (struct and enum names are kept with their namespaces)
fn resolve_type_name(types: &HashSet<String>, shadowed: &[String], ns: &[String], written: &str, absolute: bool) -> Option<String> {
    if absolute {
        return if types.contains(written) { Some(written.to_string()) } else { None };
    }
    if shadowed.iter().any(|x| x == written) {
        return None;
    }
    let mut prefix = ns.to_vec();
    loop {
        let full = if prefix.is_empty() { written.to_string() } else { format!("{}::{}", prefix.join("::"), written) };
        if types.contains(&full) {
            return Some(full);
        }
        if prefix.is_empty() {
            return None;
        }
        prefix.pop();
    }
}

pub fn parse(text: &str) -> Result<Unit, String> {
    let toks = lex(text)?;
    Parser::new(toks).unit()
}
