//! Exhaustive small expression shapes for C01/C02: every tree with N operator nodes over the
//! whole operator table (unary, increment/decrement, binary, assignment, ternary, comma),
//! rendered fully parenthesised in the *source* so that the grouping under test is unambiguous;
//! the exporter must keep that grouping with its own (minimal) parentheses.

use std::sync::OnceLock;

#[derive(Clone, Debug)]
pub enum T {
    Leaf,
    Un(&'static str, Box<T>),
    Post(&'static str, Box<T>),
    Bin(&'static str, Box<T>, Box<T>),
    Tern(Box<T>, Box<T>, Box<T>),
}

pub const UN_INT: &[&str] = &["-", "+", "!", "~", "++", "--"];
pub const POST: &[&str] = &["++", "--"];
pub const BIN_INT: &[&str] = &["+", "-", "*", "/", "%", "<<", ">>", "&", "|", "^", "<", "<=", ">", ">=", "==", "!=", "&&", "||", "=", "+=", "-=", "*=", "/=", "%=", "<<=", ">>=", "&=", "|=", "^=", ","];
pub const UN_FLT: &[&str] = &["-", "+", "!", "++", "--"];
pub const BIN_FLT: &[&str] = &["+", "-", "*", "/", "%", "%=", "<", "<=", ">", ">=", "==", "!=", "&&", "||", "=", "+=", "-=", "*=", "/=", ","];

#[derive(Clone, Copy, Debug, PartialEq)]
pub enum Variant {
    Int,
    Float,
    /// leaves of types int, float, uint, bool in rotation: exercises the inserted conversions
    Mixed(u8),
}

fn trees(n: usize, un: &'static [&'static str], bin: &'static [&'static str]) -> Vec<T> {
    if n == 0 {
        return vec![T::Leaf];
    }
    let mut out = Vec::new();
    // unary / postfix over a tree with n-1 operators
    let inner = trees(n - 1, un, bin);
    for t in &inner {
        for op in un {
            out.push(T::Un(op, Box::new(t.clone())));
        }
        for op in POST {
            out.push(T::Post(op, Box::new(t.clone())));
        }
    }
    // binary: split n-1 operators between the two sides
    for l in 0..n {
        let r = n - 1 - l;
        let (lt, rt) = (trees(l, un, bin), trees(r, un, bin));
        for a in &lt {
            for b in &rt {
                for op in bin {
                    out.push(T::Bin(op, Box::new(a.clone()), Box::new(b.clone())));
                }
            }
        }
    }
    // ternary: split n-1 operators between three sides
    for a_n in 0..n {
        for b_n in 0..(n - a_n) {
            let c_n = n - 1 - a_n - b_n;
            let (at, bt, ct) = (trees(a_n, un, bin), trees(b_n, un, bin), trees(c_n, un, bin));
            for a in &at {
                for b in &bt {
                    for c in &ct {
                        out.push(T::Tern(Box::new(a.clone()), Box::new(b.clone()), Box::new(c.clone())));
                    }
                }
            }
        }
    }
    out
}

pub fn all_trees(v: Variant, n: usize) -> &'static Vec<T> {
    static INT: [OnceLock<Vec<T>>; 4] = [OnceLock::new(), OnceLock::new(), OnceLock::new(), OnceLock::new()];
    static FLT: [OnceLock<Vec<T>>; 4] = [OnceLock::new(), OnceLock::new(), OnceLock::new(), OnceLock::new()];
    match v {
        Variant::Float => FLT[n].get_or_init(|| trees(n, UN_FLT, BIN_FLT)),
        _ => INT[n].get_or_init(|| trees(n, UN_INT, BIN_INT)),
    }
}

fn render(t: &T, leaves: &[&str], next: &mut usize, out: &mut String) {
    match t {
        T::Leaf => {
            out.push_str(leaves[*next % leaves.len()]);
            *next += 1;
        }
        T::Un(op, x) => {
            out.push('(');
            out.push_str(op);
            render(x, leaves, next, out);
            out.push(')');
        }
        T::Post(op, x) => {
            out.push('(');
            render(x, leaves, next, out);
            out.push_str(op);
            out.push(')');
        }
        T::Bin(op, a, b) => {
            out.push('(');
            render(a, leaves, next, out);
            out.push(' ');
            out.push_str(op);
            out.push(' ');
            render(b, leaves, next, out);
            out.push(')');
        }
        T::Tern(a, b, c) => {
            out.push('(');
            render(a, leaves, next, out);
            out.push_str(" ? ");
            render(b, leaves, next, out);
            out.push_str(" : ");
            render(c, leaves, next, out);
            out.push(')');
        }
    }
}

pub fn ops_of(t: &T, out: &mut Vec<String>) {
    match t {
        T::Leaf => {}
        T::Un(op, x) => {
            out.push(format!("pre{}", op));
            ops_of(x, out);
        }
        T::Post(op, x) => {
            out.push(format!("post{}", op));
            ops_of(x, out);
        }
        T::Bin(op, a, b) => {
            out.push(format!("bin{}", op));
            ops_of(a, out);
            ops_of(b, out);
        }
        T::Tern(a, b, c) => {
            out.push("?:".into());
            ops_of(a, out);
            ops_of(b, out);
            ops_of(c, out);
        }
    }
}

/// source text of the one-function program for tree `t`
pub fn program(v: Variant, t: &T) -> String {
    let mut e = String::new();
    let mut next = 0usize;
    match v {
        Variant::Int => {
            render(t, &["a", "b", "c", "d"], &mut next, &mut e);
            format!("int f(inout int a, inout int b, inout int c, inout int d) {{\n    return {};\n}}\n", e)
        }
        Variant::Float => {
            render(t, &["a", "b", "c", "d"], &mut next, &mut e);
            format!("float f(inout float a, inout float b, inout float c, inout float d) {{\n    return {};\n}}\n", e)
        }
        Variant::Mixed(rot) => {
            let names = ["a", "b", "c", "d"];
            let mut order: Vec<&str> = names.to_vec();
            order.rotate_left((rot % 4) as usize);
            render(t, &order, &mut next, &mut e);
            format!("float f(inout int a, inout float b, inout uint c, inout bool d) {{\n    return {};\n}}\n", e)
        }
    }
}
