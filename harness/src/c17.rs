//! C17 — pipelines are selected and compiled independently.

use crate::common::*;
use crate::progen::{self, Item, Prog};
use serde_json::{Value, json};

fn render_without_others(prog: &Prog, keep: usize) -> String {
    let mut p = prog.clone();
    p.items.retain(|it| match it {
        Item::Pipeline(i) => *i == keep,
        _ => true,
    });
    progen::render(&p)
}

fn comp(src: &str, tgt: Tgt, mode: Mode) -> Result<Result<Vec<rssl::CompiledPipeline>, String>, String> {
    let files = vec![("main.rssl".to_string(), src.to_string())];
    compile(&CompileReq { files: &files, entry: "main.rssl", defines: &[], tgt, mode, validate_layout: false })
}

pub fn check_record(rec: &Value) -> Verdict {
    let choices: Vec<u32> = rec["choices"].as_array().map(|a| a.iter().map(|x| x.as_u64().unwrap_or(0) as u32).collect()).unwrap_or_default();
    let zero = rec["zero_pipelines"].as_bool().unwrap_or(false);
    let tgt = Tgt::from_name(rec["tgt"].as_str().unwrap_or("dx"));
    let mut prof = progen::Profile::full();
    prof.pipeline_range = if zero { (0, 0) } else { (1, 4) };
    let (prog, src, _) = progen::generate(&choices, prof);
    let names: Vec<String> = prog.pipelines.iter().map(|p| prog.names[p.name].clone()).collect();
    let fail = |sig: &str, d: String| Verdict::fail(sig, format!("target {}\n{}\n--- source\n{}", tgt.name(), d, src));
    macro_rules! run {
        ($src:expr, $mode:expr) => {
            match comp($src, tgt, $mode) {
                Err(p) => return Verdict::fail(format!("panic:{}", p), format!("target {} mode {:?}\n{}", tgt.name(), stringify!($mode), $src)),
                Ok(r) => r,
            }
        };
    }
    let all = run!(&src, Mode::All);
    let mut labels = vec![format!("pipelines_{}", names.len()), format!("tgt_{}", tgt.name())];
    // unknown name and no-pipeline requests are clean
    let unknown = run!(&src, Mode::Named("NoSuchPipeline_zz".into()));
    match &unknown {
        Ok(_) => return fail("unknown-name-accepted", "a pipeline name that does not exist produced a result".into()),
        Err(e) => {
            if !is_backend_error(e) && !e.contains("does not contain the pipeline") && names.is_empty() == false && all.is_ok() {
                return fail("unknown-name-wrong-diagnostic", format!("diagnostic: {}", e));
            }
        }
    }
    let nopipe = run!(&src, Mode::NoPipeline);
    if let Ok(v) = &nopipe {
        if v.len() != 1 {
            return fail("no-pipeline-mode-count", format!("{} results", v.len()));
        }
    }
    if names.is_empty() {
        return match all {
            Ok(v) => fail("no-pipelines-accepted", format!("a file without pipelines produced {} results", v.len())),
            Err(e) if e.contains("does not contain a single pipeline") => {
                labels.push("zero_pipelines_rejected".into());
                Verdict::pass(None, labels)
            }
            Err(e) => Verdict::Skip(format!("front end: {}", normalise_panic(e.lines().next().unwrap_or("")))),
        };
    }
    let all = match all {
        Err(e) => {
            if !is_backend_error(&e) {
                return Verdict::Skip(format!("front end: {}", normalise_panic(e.lines().next().unwrap_or(""))));
            }
            // a back end rejected one pipeline: selection by name must reject that one the same way and still
            // build the others; checked below through the per-name requests
            labels.push("backend_rejects_some_pipeline".into());
            None
        }
        Ok(v) => Some(v),
    };
    if let Some(v) = &all {
        if v.len() != names.len() {
            return fail("all-count", format!("{} pipeline definitions but {} results", names.len(), v.len()));
        }
    }
    let mut shared = false;
    for (k, name) in names.iter().enumerate() {
        let by_name = run!(&src, Mode::Named(name.clone()));
        let alone_src = render_without_others(&prog, k);
        let alone = run!(&alone_src, Mode::All);
        let a = result_snapshot(&by_name);
        let b = result_snapshot(&alone);
        if let Ok(v) = &a {
            if v.len() != 1 {
                return fail("by-name-count", format!("request for {} returned {} results", name, v.len()));
            }
        }
        if a != b {
            return fail("independence:others-present", format!("pipeline {} differs between the whole file (by name) and the file with the other Pipeline blocks deleted\n--- by name\n{:?}\n--- alone\n{:?}", name, a, b));
        }
        if let Some(v) = &all {
            let in_all = pipeline_snapshot(&v[k]);
            match &a {
                Ok(s) if s[0] == in_all => {}
                _ => return fail("independence:all-vs-name", format!("result #{} of the whole-file compilation is not what the request for {} returns\n--- in all\n{}\n--- by name\n{:?}", k, name, in_all, a)),
            }
        }
        // sharing: another pipeline reaches a common resource or is of the same kind
        let me = &prog.scene.pipelines[k];
        for (j, other) in prog.scene.pipelines.iter().enumerate() {
            if j != k && other.reachable.iter().any(|r| me.reachable.contains(r)) {
                shared = true;
            }
        }
    }
    let nontrivial = names.len() >= 2 && shared;
    Verdict::pass(if nontrivial { Some(hash_of(&(src, tgt.name()))) } else { None }, labels)
}

pub fn run(ctx: &mut Ctx) {
    ctx.rule = "Generated files with 0-4 Pipeline definitions (compute, vertex+pixel, mesh+pixel, task+mesh) with distinct names over shared reader functions, resources, statics and different DefaultBindGroups, for one of {DirectX, Vulkan, Vulkan+buffer addresses, Metal}. Requests: all, each name, an unknown name, no-pipeline mode. Checked: one result per definition in source order; by-name returns exactly that one and equals the element of the whole-file result; unknown name / no pipelines fail cleanly with the documented message; the result for a pipeline equals the result for the same file with every other Pipeline block deleted. Non-trivial = at least 2 pipelines that reach a common resource. Distinct = hash of (source, target).".into();
    ctx.assumptions.push("a pipeline a back end rejects with a diagnostic must be rejected identically by name and alone; front-end rejections are skipped and counted".into());
    if !ctx.replay_tier(&check_record) {
        return;
    }
    use proptest::prelude::*;
    ctx.run_prop(
        "generated_pipeline_files",
        ctx.tier.pick(2_400, 60_000),
        || (progen::choices_strategy(500), 0usize..4, 0u8..12),
        |(ch, t, z): &(Vec<u32>, usize, u8)| json!({"choices": ch, "tgt": Tgt::ALL4[*t].name(), "zero_pipelines": *z == 0}),
        check_record,
    );
    for l in ["pipelines_0", "pipelines_2", "pipelines_3", "tgt_msl", "tgt_vkba", "zero_pipelines_rejected"] {
        ctx.require_label(l, 10);
    }
}
