//! Coverage-guided stages of the thorough tiers.
//!
//! A libFuzzer target under /verif/fuzz (built with `cargo +nightly fuzz`) runs in fork mode on all cores for
//! VERIF_FUZZ_SECONDS (or the caller's default) from a seed corpus that the caller builds from its own generators.
//! The oracle inside the target is the `check_record` of the property (for C08: `rssl::compile` returns). Every artifact
//! the fuzzer leaves (crash, timeout, out of memory) is turned back into a record and judged once more by the check's
//! `check_record` in this process, so the verdict and its signature are the check's own: instrumentation slowness or the
//! fuzzer's memory limit alone never count. A fuzzer that cannot be built or started is an infrastructure error
//! (exit 2), never a violation. VERIF_NO_FUZZ=1 skips the stage.

use crate::common::*;
use serde_json::{json, Value};
use std::process::Command;

pub fn campaign(ctx: &mut Ctx, target: &str, property_env: Option<&str>, seeds: Vec<Vec<u8>>, default_seconds: u64, to_record: &dyn Fn(&[u8]) -> Value, check: &dyn Fn(&Value) -> Verdict) {
    if std::env::var("VERIF_NO_FUZZ").is_ok() {
        return;
    }
    let seconds: u64 = std::env::var("VERIF_FUZZ_SECONDS").ok().and_then(|s| s.parse().ok()).unwrap_or(default_seconds);
    let fuzz_dir = format!("{}/fuzz", VERIF_DIR);
    let work = format!("/tmp/verif-scratch/fuzz-{}-{}", target, std::process::id());
    let (corpus, artifacts) = (format!("{}/corpus", work), format!("{}/artifacts/", work));
    let _ = std::fs::remove_dir_all(&work);
    if std::fs::create_dir_all(&corpus).is_err() || std::fs::create_dir_all(&artifacts).is_err() {
        ctx.infra_errors.push("fuzz stage: cannot create the scratch directory".into());
        return;
    }
    let mut written = 0usize;
    for (i, bytes) in seeds.iter().enumerate() {
        if bytes.len() <= 8192 && std::fs::write(format!("{}/seed-{}", corpus, i), bytes).is_ok() {
            written += 1;
        }
    }
    let cleanup = |work: &str| {
        let _ = std::fs::remove_dir_all(work);
    };
    let build = Command::new("cargo").args(["+nightly", "fuzz", "build", "--fuzz-dir", ".", target]).current_dir(&fuzz_dir).env("CARGO_NET_OFFLINE", "true").output();
    match build {
        Ok(o) if o.status.success() => {}
        Ok(o) => {
            ctx.infra_errors.push(format!("fuzz stage: cargo fuzz build failed: {}", String::from_utf8_lossy(&o.stderr).lines().last().unwrap_or("")));
            cleanup(&work);
            return;
        }
        Err(e) => {
            ctx.infra_errors.push(format!("fuzz stage: cargo not runnable: {}", e));
            cleanup(&work);
            return;
        }
    }
    let workers = ctx.threads.max(2) - 1;
    let mut cmd = Command::new("cargo");
    cmd.args(["+nightly", "fuzz", "run", "--fuzz-dir", ".", target, &corpus, "--"])
        .args([
            format!("-fork={}", workers),
            "-ignore_crashes=1".into(),
            "-ignore_timeouts=1".into(),
            "-ignore_ooms=1".into(),
            format!("-max_total_time={}", seconds),
            "-timeout=60".into(),
            "-rss_limit_mb=4096".into(),
            "-max_len=4096".into(),
            "-len_control=0".into(),
            format!("-seed={}", (ctx.seed % 0x7fff_ffff).max(1)),
            format!("-dict={}/dict.txt", fuzz_dir),
            format!("-artifact_prefix={}", artifacts),
        ])
        .current_dir(&fuzz_dir)
        .env("CARGO_NET_OFFLINE", "true");
    if let Some(p) = property_env {
        cmd.env("VERIF_FUZZ_PROPERTY", p);
    }
    let log = match cmd.output() {
        Ok(o) => String::from_utf8_lossy(&o.stderr).to_string(),
        Err(e) => {
            ctx.infra_errors.push(format!("fuzz stage: cargo fuzz run not runnable: {}", e));
            cleanup(&work);
            return;
        }
    };
    // progress lines of fork mode: "#N: cov: C ft: F corp: K exec/s E ..."
    let last = log.lines().rev().find(|l| l.starts_with('#') && l.contains("cov:")).unwrap_or("").to_string();
    let number_after = |key: &str| -> u64 { last.split(key).nth(1).and_then(|r| r.trim().split(|c: char| !c.is_ascii_digit()).next()).and_then(|d| d.parse().ok()).unwrap_or(0) };
    let executions: u64 = last.trim_start_matches('#').split(':').next().and_then(|d| d.trim().parse().ok()).unwrap_or(0);
    if executions == 0 {
        ctx.infra_errors.push(format!("fuzz stage: no progress line in the fuzzer's output: {}", log.lines().last().unwrap_or("")));
    }
    let mut artifact_files: Vec<std::path::PathBuf> = std::fs::read_dir(&artifacts).map(|rd| rd.filter_map(|e| e.ok()).map(|e| e.path()).collect()).unwrap_or_default();
    artifact_files.sort();
    let mut confirmed = 0usize;
    for path in &artifact_files {
        let Ok(bytes) = std::fs::read(path) else { continue };
        if bytes.is_empty() {
            continue;
        }
        let rec = to_record(&bytes);
        let before = ctx.failures.len();
        ctx.run_one(&rec, check);
        if ctx.failures.len() > before {
            confirmed += 1;
        }
    }
    ctx.parts.push(json!({
        "part": "libfuzzer_campaign", "target": target, "seconds": seconds, "workers": workers, "seed_inputs": written, "executions": executions, "coverage_edges": number_after("cov:"), "features": number_after("ft:"),
        "corpus_entries": number_after("corp:"), "artifacts": artifact_files.len(), "artifacts_confirmed_by_the_check": confirmed,
    }));
    cleanup(&work);
}
