//! Differential execution (C01 / C02): the typed IR run by `irsem` (E2) against the emitted
//! HLSL / MSL text parsed by `ctext` and run by `csem` (E3), on boundary argument vectors.

use crate::common::*;
use crate::csem::{self, Arg, Dialect, Sem};
use crate::ctext;
use crate::irsem::{self, Interp};
use crate::vals::*;
use rssl::ir;
use serde_json::{json, Value};

pub struct Mix(pub u64);
impl Mix {
    pub fn next(&mut self) -> u64 {
        // splitmix64: a pure function of the record's own argument seed
        self.0 = self.0.wrapping_add(0x9E3779B97F4A7C15);
        let mut z = self.0;
        z = (z ^ (z >> 30)).wrapping_mul(0xBF58476D1CE4E5B9);
        z = (z ^ (z >> 27)).wrapping_mul(0x94D049BB133111EB);
        z ^ (z >> 31)
    }
    fn of<T: Copy>(&mut self, items: &[T]) -> T {
        items[(self.next() % items.len() as u64) as usize]
    }
}

const INTS: &[i32] = &[0, 1, -1, 2, 3, 5, 7, -8, 31, 32, 33, 100, -100, 65535, i32::MAX, i32::MIN, 0x55555555, -2];
const UINTS: &[u32] = &[0, 1, 2, 3, 5, 7, 31, 32, 255, 65536, 0x8000_0000, 0xFFFF_FFFF, 0x7FFF_FFFF, 0xAAAA_AAAA];
const FLOATS: &[f32] = &[0.0, -0.0, 1.0, -1.0, 0.5, 2.0, 1.5, -2.5, 3.25, 0.1, 100.0, -1e10, 1e-10, 16777216.0, 2147483648.0, 4294967296.0, f32::MAX, f32::MIN_POSITIVE, f32::INFINITY, f32::NEG_INFINITY, f32::NAN, 0.75, 7.0];
const HALVES: &[f32] = &[0.0, 1.0, -1.0, 0.5, 2.0, 1.5, -2.5, 3.25, 1024.0, 65504.0, 0.25];

/// crafted operand rows (by parameter position) where regrouping or reordering floating point or wrapping integer
/// arithmetic changes the result: cancellation, absorption, overflow to infinity, INT_MIN / -1, shifts by 32
const ROWS_F: [[f32; 4]; 8] = [
    [1e30, -1e30, 1.0, 3.0],
    [1.0, 1e30, -1e30, 0.5],
    [16777216.0, 1.0, -16777216.0, 1.0],
    [1e30, 1e30, 1e-30, 2.0],
    [1e-30, 1e-30, 1e30, -1.0],
    [3.0, 0.1, 0.2, 0.3],
    [-1e30, 1.0, 1e30, 7.0],
    [0.5, 16777216.0, -16777216.0, 1e-30],
];
const ROWS_I: [[i32; 4]; 8] = [[i32::MAX, 1, i32::MIN, -1], [2, 3, 5, 7], [-8, 3, 2, 1], [65536, 65536, -1, 2], [i32::MIN, -1, 1, 31], [1, 32, 33, -32], [100, 7, 0, 3], [-1, -1, -1, -1]];

fn sample_mode(it: &Interp, ty: ir::TypeId, mix: &mut Mix, mode: usize, position: usize) -> Result<V, String> {
    if mode < 3 {
        return sample(it, ty, mix, mode == 0);
    }
    let row = (mode - 3) % 8;
    let m = it.m;
    let t = m.type_registry.remove_modifier(ty);
    Ok(match m.type_registry.get_type_layer(t) {
        ir::TypeLayer::Scalar(s) => match irsem::scalar_kind(s) {
            K::Int => V::Int(ROWS_I[row][position % 4]),
            K::UInt => V::UInt(ROWS_I[row][position % 4] as u32),
            K::Half => V::Half([1.0f32, 2048.0, -2048.0, 0.5][position % 4]),
            K::Float => V::Float(ROWS_F[row][position % 4]),
            K::Double => V::Double(ROWS_F[row][position % 4] as f64),
            _ => return sample(it, ty, mix, false),
        },
        ir::TypeLayer::Vector(inner, n) => {
            let mut c = Vec::new();
            for k in 0..n {
                c.push(sample_mode(it, inner, mix, mode, position + k as usize)?);
            }
            V::Vec(c)
        }
        _ => return sample(it, ty, mix, false),
    })
}

fn sample(it: &Interp, ty: ir::TypeId, mix: &mut Mix, tame: bool) -> Result<V, String> {
    let m = it.m;
    let t = m.type_registry.remove_modifier(ty);
    Ok(match m.type_registry.get_type_layer(t) {
        ir::TypeLayer::Void => V::Void,
        ir::TypeLayer::Scalar(s) => match irsem::scalar_kind(s) {
            K::Bool => V::Bool(mix.next() & 1 == 1),
            K::Int => V::Int(if tame { (mix.next() % 9) as i32 - 4 } else { mix.of(INTS) }),
            K::UInt => V::UInt(if tame { (mix.next() % 6) as u32 } else { mix.of(UINTS) }),
            K::Half => V::Half(mix.of(if tame { &HALVES[..8] } else { HALVES })),
            K::Float => V::Float(mix.of(if tame { &FLOATS[..10] } else { FLOATS })),
            K::Double => V::Double(mix.of(if tame { &FLOATS[..10] } else { FLOATS }) as f64),
            k => return Err(format!("parameter of kind {:?}", k)),
        },
        ir::TypeLayer::Vector(inner, n) => {
            let mut c = Vec::new();
            for _ in 0..n {
                c.push(sample(it, inner, mix, tame)?);
            }
            V::Vec(c)
        }
        ir::TypeLayer::Enum(id) => {
            let mut values = Vec::new();
            for vid in m.enum_registry.get_values(id) {
                let ev = m.enum_registry.get_enum_value(*vid);
                if let Some(x) = constant_i32(&ev.value) {
                    values.push(x);
                }
            }
            if values.is_empty() {
                values.push(0);
            }
            V::Enum(mix.of(&values))
        }
        ir::TypeLayer::Struct(id) => {
            let def = &m.struct_registry[id.0 as usize];
            let mut f = Vec::new();
            for member in &def.members {
                f.push(sample(it, member.type_id, mix, tame)?);
            }
            V::Struct(f)
        }
        ir::TypeLayer::Array(inner, n) => {
            let Some(n) = n else { return Err("unsized array parameter".into()) };
            let mut a = Vec::new();
            for _ in 0..n {
                a.push(sample(it, inner, mix, tame)?);
            }
            V::Array(a)
        }
        other => return Err(format!("parameter type {:?}", other)),
    })
}

fn constant_i32(c: &ir::Constant) -> Option<i32> {
    Some(match c {
        ir::Constant::Bool(b) => *b as i32,
        ir::Constant::IntLiteral(v) => *v as i32,
        ir::Constant::Int32(v) => *v,
        ir::Constant::UInt32(v) => *v as i32,
        ir::Constant::Enum(_, inner) => return constant_i32(inner),
        _ => return None,
    })
}

fn norm(s: &str) -> String {
    // signatures: keep words, drop numbers and quoted names so one cause is one signature
    let mut out = String::new();
    let mut last_hash = false;
    for c in s.chars() {
        if c.is_ascii_digit() {
            if !last_hash {
                out.push('#');
            }
            last_hash = true;
        } else {
            out.push(c);
            last_hash = false;
        }
    }
    out.chars().take(100).collect()
}

/// the text functions that correspond to IR functions: IR order within a (namespace, name) group
/// is the order of the `_N` suffixes the name generator hands out
fn text_function_for<'u>(u: &'u ctext::Unit, qualified: &str, index_in_group: usize, group_size: usize) -> Option<&'u ctext::FuncD> {
    let runnable = |f: &&ctext::FuncD| f.has_body && !f.params.iter().any(|p| p.ty == ctext::TyE::TrueType);
    if group_size == 1 {
        if let Some(f) = u.funcs.iter().filter(runnable).find(|f| f.name == qualified) {
            return Some(f);
        }
    }
    let want = format!("{}_{}", qualified, index_in_group);
    if let Some(f) = u.funcs.iter().filter(runnable).find(|f| f.name == want) {
        return Some(f);
    }
    // any other numbering: the members of the group in ascending suffix order (which numbers are handed out is a
    // matter of naming - C15 - not of meaning)
    let mut members: Vec<(u64, &ctext::FuncD)> = u
        .funcs
        .iter()
        .filter(runnable)
        .filter_map(|f| {
            let rest = f.name.strip_prefix(qualified)?.strip_prefix('_')?;
            rest.parse::<u64>().ok().map(|n| (n, f))
        })
        .collect();
    members.sort_by_key(|m| m.0);
    if members.len() == group_size { members.get(index_in_group).map(|m| m.1) } else { None }
}

pub struct ExecOutcome {
    pub compared: usize,
    pub labels: Vec<String>,
}

/// does the text name a matrix type (`float4x4`, `half2x3`, ...)? The evaluators have no matrices.
pub fn uses_matrix_types(text: &str) -> bool {
    let b = text.as_bytes();
    for base in ["float", "half", "int", "uint", "bool", "double"] {
        let mut from = 0;
        while let Some(i) = text[from..].find(base) {
            let start = from + i;
            let at = start + base.len();
            if at + 2 < b.len() && b[at].is_ascii_digit() && b[at + 1] == b'x' && b[at + 2].is_ascii_digit() && (start == 0 || !(b[start - 1].is_ascii_alphanumeric() || b[start - 1] == b'_')) {
                return true;
            }
            from = at;
        }
    }
    false
}

pub fn dialect_of(tgt: Tgt) -> Dialect {
    match tgt {
        Tgt::Msl | Tgt::MetalBytecode => Dialect::Msl,
        _ => Dialect::Hlsl,
    }
}

/// The oracle. `vectors` argument vectors per function.
pub fn check_exec(source: &str, tgt: Tgt, arg_seed: u64, vectors: usize) -> Verdict {
    check_exec_named(source, tgt, arg_seed, vectors, &std::collections::HashMap::new())
}

/// `emitted`: source-level name -> name in the emitted text, for entities the exporter renamed (C15)
pub fn check_exec_named(source: &str, tgt: Tgt, arg_seed: u64, vectors: usize, emitted: &std::collections::HashMap<String, String>) -> Verdict {
    let out_name = |n: &str| -> String { emitted.get(n).cloned().unwrap_or_else(|| n.to_string()) };
    let module = match type_check_text(source) {
        Err(p) => return Verdict::Skip(format!("front end panicked (totality is C08's property): {}", norm(&p))),
        Ok(Err(d)) => return Verdict::Skip(format!("front end rejects: {}", norm(d.lines().next().unwrap_or("")))),
        Ok(Ok(m)) => m,
    };
    // the emitted leaf name of a global: looked up by its qualified source name first (globals of different
    // namespaces may share their plain name)
    let global_out_name = |g: usize| -> String {
        let def = &module.global_registry[g];
        let mut q = def.name.node.clone();
        let mut ns = def.namespace;
        let mut qualified = false;
        while let Some(n) = ns {
            q = format!("{}::{}", module.namespace_registry.get_namespace_name(n), q);
            ns = module.namespace_registry.get_namespace_parent(n);
            qualified = true;
        }
        if qualified {
            if let Some(n) = emitted.get(&format!("@{}", q)) {
                return n.clone();
            }
        }
        out_name(&def.name.node)
    };
    let text = match compile_text(source, tgt) {
        Err(p) => return Verdict::Skip(format!("exporter panicked (totality is C08's property): {}", norm(&p))),
        Ok(Err(d)) => return Verdict::Skip(format!("backend rejects: {}", norm(d.lines().next().unwrap_or("")))),
        Ok(Ok(p)) => match p.first() {
            Some(p) => pipeline_text(p),
            None => return Verdict::Skip("no output".into()),
        },
    };
    let d = dialect_of(tgt);
    if uses_matrix_types(&text) {
        return Verdict::Skip("matrix types are outside of the executable subset".into());
    }
    let unit = match ctext::parse(&text) {
        Ok(u) => u,
        Err(e) => return Verdict::Fail { signature: format!("parse:{}", norm(&e)), detail: format!("emitted text does not parse as {:?}: {}\n{}", d, e, text) },
    };
    if let Err(csem::Stop::Bad(m)) = Sem::new(&unit, d).well_formed() {
        return Verdict::Fail { signature: format!("bad:{}", norm(&m)), detail: format!("the emitted text is ill-formed as {:?}: {}\n{}", d, m, text) };
    }
    // Metal passes globals as parameters without their namespace and gives those that share their name with another
    // global the names name_N, in declaration order. The N of all parameters of the text with that stem, sorted, are
    // matched with the non-constant globals of that name in declaration order (only when the counts agree).
    let generated_global_name = |pname: &str| -> Option<usize> {
        let (stem, digits) = pname.rsplit_once('_')?;
        let n: u64 = digits.parse().ok()?;
        let globals: Vec<usize> = (0..module.global_registry.len())
            .filter(|g| {
                let def = &module.global_registry[*g];
                out_name(&def.name.node) == stem && !(module.type_registry.is_const(def.type_id) && def.storage_class == ir::GlobalStorage::Static)
            })
            .collect();
        let mut numbers: Vec<u64> = Vec::new();
        for f in &unit.funcs {
            for p in &f.params {
                if let Some((s, d)) = p.name.rsplit_once('_') {
                    if s == stem && p.mode == ctext::Mode::Ref {
                        if let Ok(k) = d.parse::<u64>() {
                            numbers.push(k);
                        }
                    }
                }
            }
        }
        numbers.sort();
        numbers.dedup();
        if numbers.len() != globals.len() {
            return None;
        }
        numbers.iter().position(|k| *k == n).map(|i| globals[i])
    };
    let mut labels: Vec<String> = Vec::new();
    let mut compared = 0usize;
    let reg = &module.function_registry;
    // group IR functions by qualified name
    // (id, source-level qualified name, emitted namespace prefix, leaf name)
    let mut funcs: Vec<(ir::FunctionId, String)> = Vec::new();
    let mut emitted_prefix: Vec<(String, String)> = Vec::new();
    for id in reg.iter() {
        if reg.get_intrinsic_data(id).is_some() {
            continue;
        }
        let sig = reg.get_function_signature(id);
        if !sig.template_params.is_empty() && reg.get_template_instantiation_data(id).is_none() {
            continue;
        }
        let nd = reg.get_function_name_definition(id);
        let mut q = nd.name.node.clone();
        let mut prefix = String::new();
        let mut ns = nd.namespace;
        while let Some(n) = ns {
            let ns_name = module.namespace_registry.get_namespace_name(n);
            q = format!("{}::{}", ns_name, q);
            prefix = format!("{}::{}", out_name(ns_name), prefix);
            ns = module.namespace_registry.get_namespace_parent(n);
        }
        funcs.push((id, q));
        emitted_prefix.push((prefix, nd.name.node.clone()));
    }
    // methods: owner struct of each member function
    let mut owner: std::collections::HashMap<u32, usize> = std::collections::HashMap::new();
    for (si, sd) in module.struct_registry.iter().enumerate() {
        for mid in &sd.methods {
            owner.insert(mid.0, si);
        }
    }
    // an instance of a member function template belongs to the struct of the template
    for id in reg.iter() {
        if let Some(inst) = reg.get_template_instantiation_data(id) {
            if let Some(si) = owner.get(&inst.parent_id.0).copied() {
                owner.insert(id.0, si);
            }
        }
    }
    for (pos, (id, q)) in funcs.iter().enumerate() {
        let method_of = owner.get(&id.0).copied();
        // overload groups are per scope: methods of one struct, or free functions of one namespace
        let group: Vec<usize> = funcs.iter().enumerate().filter(|(_, (oid, n))| n == q && owner.get(&oid.0).copied() == method_of).map(|(i, _)| i).collect();
        let index_in_group = group.iter().position(|i| *i == pos).unwrap();
        let Some(imp) = reg.get_function_implementation(*id).clone() else { continue };
        // the name in the emitted text: namespaces and the function may have been renamed by the exporter (C15 passes
        // the correspondence it observed)
        let (prefix, leaf) = &emitted_prefix[pos];
        let by_group_index = emitted
            .get(&format!("{}#{}", leaf, index_in_group))
            .map(|n| format!("{}{}", prefix, n))
            .and_then(|n| unit.funcs.iter().filter(|f| f.has_body && !f.params.iter().any(|p| p.ty == ctext::TyE::TrueType)).find(|f| f.name == n));
        let q_out = format!("{}{}", prefix, out_name(leaf));
        let text_struct = method_of.and_then(|si| {
            let want = out_name(&module.struct_registry[si].name.node);
            unit.structs.iter().position(|s| s.name == want || s.name.rsplit("::").next() == Some(want.as_str()))
        });
        let method_tf = text_struct.and_then(|ts| {
            let ms: Vec<&ctext::FuncD> = unit.structs[ts].methods.iter().filter(|f| f.has_body && !f.params.iter().any(|p| p.ty == ctext::TyE::TrueType)).collect();
            let exact: Vec<&&ctext::FuncD> = ms.iter().filter(|f| f.name == out_name(leaf)).collect();
            if group.len() == 1 && exact.len() == 1 {
                return Some(*exact[0]);
            }
            let mut members: Vec<(u64, &ctext::FuncD)> = ms.iter().filter_map(|f| f.name.strip_prefix(out_name(leaf).as_str())?.strip_prefix('_')?.parse::<u64>().ok().map(|n| (n, *f))).collect();
            members.sort_by_key(|m| m.0);
            if members.len() == group.len() { members.get(index_in_group).map(|m| m.1) } else { None }
        });
        if method_of.is_some() && method_tf.is_none() {
            labels.push("text_method_missing".into());
            return Verdict::Fail { signature: "missing-function".into(), detail: format!("no emitted method for IR method {} of struct {}\n{}", q, module.struct_registry[method_of.unwrap()].name.node, text) };
        }
        let Some(tf) = method_tf.or(by_group_index).or_else(|| text_function_for(&unit, &q_out, index_in_group, group.len())).or_else(|| text_function_for(&unit, q, index_in_group, group.len())) else {
            // functions nobody calls may be dropped by a backend only if they are unreachable; in
            // no-pipeline mode everything is emitted, so a missing function is reported
            labels.push("text_function_missing".into());
            return Verdict::Fail { signature: "missing-function".into(), detail: format!("no emitted function for IR function {} (#{} of {})\n{}", q, index_in_group, group.len(), text) };
        };
        for vec_index in 0..vectors {
            let mut mix = Mix(arg_seed ^ ((pos as u64) << 32) ^ ((vec_index as u64) << 20));
            // ---- E2
            let mut it = Interp::new(&module);
            if let Err(e) = it.init_globals() {
                labels.push(format!("e2_unsupported:{}", norm(&format!("{:?}", e))));
                break;
            }
            let initial_globals = it.globals.clone();
            let mut argv = Vec::new();
            let mut ok = true;
            for p in &imp.params {
                // an `out` parameter has no incoming value: both sides start it at zero
                let sampled = if matches!(p.param_type.input_modifier, ir::InputModifier::Out) { it.zero(p.param_type.type_id).map_err(|e| format!("{:?}", e)) } else { sample_mode(&it, p.param_type.type_id, &mut mix, vec_index, argv.len()) };
                match sampled {
                    Ok(v) => argv.push(v),
                    Err(e) => {
                        labels.push(format!("e2_unsupported:{}", norm(&e)));
                        ok = false;
                        break;
                    }
                }
            }
            if !ok {
                break;
            }
            // the object of a method call: a sampled value of the struct type
            let this_value = match method_of {
                Some(si) => match sample_mode(&it, module.struct_registry[si].type_id, &mut mix, vec_index.min(2), 0) {
                    Ok(v) => Some(v),
                    Err(e) => {
                        labels.push(format!("e2_unsupported:{}", norm(&e)));
                        break;
                    }
                },
                None => None,
            };
            let e2_result = match &this_value {
                Some(t) => it.run_method(*id, t.clone(), &argv).map(|(r, o, f)| ((r, o), Some(f))),
                None => it.run_function(*id, &argv).map(|r| (r, None)),
            };
            let (e2, e2_this) = match e2_result {
                Ok(r) => r,
                Err(irsem::Stop::Fuel) => {
                    labels.push("e2_fuel".into());
                    continue;
                }
                Err(irsem::Stop::Unsupported(m)) if m.contains("missing argument without a default") => {
                    // the IR itself calls a function with fewer arguments than it has parameters without defaults
                    return Verdict::Fail { signature: "ir:missing-default-argument".into(), detail: format!("function {}: a call in the typed IR omits an argument for which the callee records no default value\n--- source\n{}", q, source) };
                }
                Err(e) => {
                    labels.push(format!("e2_unsupported:{}", norm(&format!("{:?}", e))));
                    break;
                }
            };
            // ---- E3
            let mut sem = Sem::new(&unit, d);
            if let Err(e) = sem.init_globals() {
                match e {
                    csem::Stop::Bad(m) => return Verdict::Fail { signature: format!("bad:{}", norm(&m)), detail: format!("global initialisers of the emitted text: {}\n{}", m, text) },
                    other => {
                        labels.push(format!("e3_unsupported:{}", norm(&format!("{:?}", other))));
                        break;
                    }
                }
            }
            // bind parameters
            let n_ir = imp.params.len();
            if tf.params.len() < n_ir {
                return Verdict::Fail { signature: "parameter-count".into(), detail: format!("function {} has {} parameters in the text but {} in the IR\n{}", tf.name, tf.params.len(), n_ir, text) };
            }
            let mut args = Vec::new();
            let mut shape_ok = true;
            for (i, p) in imp.params.iter().enumerate() {
                let by_value = matches!(p.param_type.input_modifier, ir::InputModifier::In);
                let text_by_value = tf.params[i].mode == ctext::Mode::In;
                if by_value != text_by_value {
                    shape_ok = false;
                }
                args.push(if by_value { Arg::Val(argv[i].clone()) } else { Arg::Cell(argv[i].clone()) });
            }
            if !shape_ok {
                return Verdict::Fail { signature: "parameter-mode".into(), detail: format!("parameter passing modes of {} differ between IR and text\n{}", tf.name, text) };
            }
            // implicit parameters (Metal): references to globals, by name
            let mut implicit: Vec<(String, u32)> = Vec::new();
            for p in &tf.params[n_ir..] {
                if p.mode != ctext::Mode::Ref {
                    return Verdict::Fail { signature: "implicit-parameter-by-value".into(), detail: format!("extra parameter {} of {} is not a reference\n{}", p.name, tf.name, text) };
                }
                let gid = (0..module.global_registry.len()).find(|g| global_out_name(*g) == p.name).or_else(|| generated_global_name(&p.name));
                let Some(gid) = gid else {
                    return Verdict::Fail { signature: "implicit-parameter-unknown".into(), detail: format!("extra parameter {} of {} names no global\n{}", p.name, tf.name, text) };
                };
                let Some(init) = initial_globals.get(&(gid as u32)) else {
                    labels.push("e2_unsupported:global without a value".into());
                    shape_ok = false;
                    break;
                };
                args.push(Arg::Cell(init.clone()));
                implicit.push((p.name.clone(), gid as u32));
            }
            if !shape_ok {
                break;
            }
            let e3_result = match (&this_value, text_struct) {
                (Some(t), Some(ts)) => sem.run_method(ts, tf, t.clone(), args).map(|(r, o, f)| ((r, o), Some(f))),
                _ => sem.run(tf, args).map(|r| (r, None)),
            };
            let (e3, e3_this) = match e3_result {
                Ok(r) => r,
                Err(csem::Stop::Fuel) => {
                    labels.push("e3_fuel".into());
                    continue;
                }
                Err(csem::Stop::Unsupported(m)) => {
                    labels.push(format!("e3_unsupported:{}", norm(&m)));
                    break;
                }
                Err(csem::Stop::Bad(m)) => {
                    return Verdict::Fail { signature: format!("bad:{}", norm(&m)), detail: format!("function {} of the emitted text is not meaningful as {:?}: {}\narguments {:?}\n{}", tf.name, d, m, argv.iter().map(show).collect::<Vec<_>>(), text) };
                }
            };
            // ---- compare
            let mismatch = |what: &str, a: &V, b: &V| -> Verdict {
                Verdict::Fail {
                    signature: format!("mismatch:{}", what.split(' ').next().unwrap_or(what)),
                    detail: format!("function {} {}: source semantics give {} but the emitted {:?} gives {}\narguments {:?}\n{}", q, what, show(a), d, show(b), argv.iter().map(show).collect::<Vec<_>>(), text),
                }
            };
            if !same(&e2.0, &e3.0) {
                return mismatch("return value", &e2.0, &e3.0);
            }
            if let (Some(a), Some(b)) = (&e2_this, &e3_this) {
                if !same(a, b) {
                    return mismatch("object after the method call", a, b);
                }
                labels.push("methods".into());
            }
            let mut oi = 0;
            for (i, p) in imp.params.iter().enumerate() {
                if matches!(p.param_type.input_modifier, ir::InputModifier::In) {
                    continue;
                }
                let a = &e2.1[oi];
                oi += 1;
                let Some(b) = &e3.1[i] else { return Verdict::Fail { signature: "parameter-mode".into(), detail: "no final value".into() } };
                if !same(a, b) {
                    return mismatch(&format!("out parameter {}", i), a, b);
                }
            }
            for (k, (name, gid)) in implicit.iter().enumerate() {
                let a = it.globals.get(gid).cloned().unwrap_or(V::Void);
                let Some(b) = &e3.1[n_ir + k] else { continue };
                if !same(&a, b) {
                    return mismatch(&format!("global {}", name), &a, b);
                }
            }
            // globals present in the text as globals
            for g in 0..module.global_registry.len() {
                let def = &module.global_registry[g];
                let Some(a) = it.globals.get(&(g as u32)) else { continue };
                if implicit.iter().any(|(_, id)| *id == g as u32) {
                    continue;
                }
                // a global of a namespace is declared inside the (possibly renamed) namespace in the text
                let mut text_name = global_out_name(g);
                let mut ns = def.namespace;
                while let Some(n) = ns {
                    text_name = format!("{}::{}", out_name(module.namespace_registry.get_namespace_name(n)), text_name);
                    ns = module.namespace_registry.get_namespace_parent(n);
                }
                if let Some(b) = sem.global_value(&text_name) {
                    if !same(a, &b) {
                        return mismatch(&format!("global {}", def.name.node), a, &b);
                    }
                    if vec_index == 0 && pos == 0 {
                        labels.push("global_compared".into());
                    }
                } else if d == Dialect::Hlsl && vec_index == 0 && pos == 0 {
                    labels.push("global_not_in_text".into());
                }
            }
            compared += 1;
            if !implicit.is_empty() {
                labels.push("implicit_globals".into());
            }
            if oi > 0 {
                labels.push("out_params".into());
            }
        }
    }
    if compared == 0 {
        return Verdict::Skip("no function compared".into());
    }
    labels.push(format!("compared_functions:{}", compared.min(9)));
    labels.sort();
    labels.dedup();
    Verdict::Pass { nontrivial: Some(hash_of(&(source, arg_seed))), labels }
}

/// Build a compute entry point that calls the functions of `module` with arguments made from the thread id and
/// stores every result in a static variable; None when no function qualifies.
fn entry_text(module: &ir::Module) -> Option<(String, usize)> {
    let reg = &module.function_registry;
    let tr = &module.type_registry;
    let mut method_ids = std::collections::HashSet::new();
    for sd in module.struct_registry.iter() {
        for mid in &sd.methods {
            method_ids.insert(mid.0);
        }
    }
    // qualified names that occur once
    let mut names: Vec<(ir::FunctionId, String)> = Vec::new();
    for id in reg.iter() {
        if reg.get_intrinsic_data(id).is_some() || method_ids.contains(&id.0) {
            continue;
        }
        let sig = reg.get_function_signature(id);
        if !sig.template_params.is_empty() || reg.get_template_instantiation_data(id).is_some() {
            continue;
        }
        if reg.get_function_implementation(id).is_none() {
            continue;
        }
        let nd = reg.get_function_name_definition(id);
        let mut q = nd.name.node.clone();
        let mut ns = nd.namespace;
        while let Some(n) = ns {
            q = format!("{}::{}", module.namespace_registry.get_namespace_name(n), q);
            ns = module.namespace_registry.get_namespace_parent(n);
        }
        names.push((id, q));
    }
    const C: [&str; 3] = ["x", "y", "z"];
    // an expression of type `ty` made from zz_id, starting at component `k`
    let value = |ty: ir::TypeId, k: usize| -> Option<String> {
        let t = tr.remove_modifier(ty);
        let name = module.get_type_name_short(t);
        Some(match tr.get_type_layer(t) {
            ir::TypeLayer::Scalar(_) => format!("({})zz_id.{}", name, C[k % 3]),
            ir::TypeLayer::Vector(_, n) => format!("({})zz_id.{}", name, (0..n as usize).map(|j| C[(k + j) % 3]).collect::<String>()),
            ir::TypeLayer::Struct(_) => format!("({})0", name),
            ir::TypeLayer::Enum(_) => format!("({})zz_id.{}", name, C[k % 3]),
            _ => return None,
        })
    };
    let mut statics = String::new();
    let mut body = String::new();
    let mut calls = 0usize;
    for (id, q) in &names {
        if names.iter().filter(|(_, n)| n == q).count() != 1 || calls >= 6 {
            continue;
        }
        let imp = reg.get_function_implementation(*id).clone()?;
        let sig = reg.get_function_signature(*id);
        let mut pre = String::new();
        let mut post = String::new();
        let mut own_statics = String::new();
        let mut args = Vec::new();
        let mut ok = true;
        for (i, p) in imp.params.iter().enumerate() {
            let Some(v) = value(p.param_type.type_id, calls + i) else {
                ok = false;
                break;
            };
            if matches!(p.param_type.input_modifier, ir::InputModifier::In) {
                args.push(v);
            } else {
                let tn = module.get_type_name_short(tr.remove_modifier(p.param_type.type_id));
                pre.push_str(&format!("    {} zz_p{}_{} = {};\n", tn, calls, i, v));
                own_statics.push_str(&format!("static {} zz_o{}_{};\n", tn, calls, i));
                post.push_str(&format!("    zz_o{}_{} = zz_p{}_{};\n", calls, i, calls, i));
                args.push(format!("zz_p{}_{}", calls, i));
            }
        }
        if !ok {
            continue;
        }
        let rt = tr.remove_modifier(sig.return_type.return_type);
        if !matches!(tr.get_type_layer(rt), ir::TypeLayer::Void | ir::TypeLayer::Scalar(_) | ir::TypeLayer::Vector(..) | ir::TypeLayer::Struct(_) | ir::TypeLayer::Enum(_)) {
            continue;
        }
        let call = format!("{}({})", q, args.join(", "));
        statics.push_str(&own_statics);
        body.push_str(&pre);
        match tr.get_type_layer(rt) {
            ir::TypeLayer::Void => body.push_str(&format!("    {};\n", call)),
            ir::TypeLayer::Scalar(_) | ir::TypeLayer::Vector(..) | ir::TypeLayer::Struct(_) | ir::TypeLayer::Enum(_) => {
                statics.push_str(&format!("static {} zz_r{};\n", module.get_type_name_short(rt), calls));
                body.push_str(&format!("    zz_r{} = {};\n", calls, call));
            }
            _ => continue,
        }
        body.push_str(&post);
        calls += 1;
    }
    if calls == 0 {
        return None;
    }
    Some((format!("\n{}[numthreads(1, 1, 1)]\nvoid zz_entry(uint3 zz_id : SV_DispatchThreadID) {{\n{}}}\nPipeline ZZ_P {{ ComputeShader = zz_entry; }}\n", statics, body), calls))
}

/// One program of the table `hidden_root_names` (96 programs): names of the root scope used with a leading `::` where a
/// namespace, a struct or a function declares the same name
pub fn hidden_root_name_source(i: u64) -> String {
        let bits = i % 16;
        let place = (i / 16) % 6;
        let decls = format!(
            "{}{}{}{}",
            if bits & 1 != 0 { "static int za = 100;\n" } else { "" },
            if bits & 2 != 0 { "static const int zc = 200;\n" } else { "" },
            if bits & 4 != 0 { "int zf(int k) { return k + 3000; }\nint zf(float k) { return 4000; }\n" } else { "" },
            if bits & 8 != 0 { "struct ZS { int m; int n; };\n" } else { "" },
        );
        let body = "::ZS s; s.m = k; ZS t; t.m = 7; ::za = ::za + 1; za = za + 2; return ::za + ::zc * 2 + ::zf(k) * 3 + s.m * 5 + za * 7 + zc * 11 + zf(k) * 13 + t.m;";
        let (inner, call) = match place {
            0 => (format!("{}int zin(int k) {{ {} }}\n", decls, body), "ZN::zin(k)".to_string()),
            1 => (format!("{}namespace ZM {{\nint zin(int k) {{ {} }}\n}}\n", decls, body), "ZN::ZM::zin(k)".to_string()),
            2 => (format!("namespace ZM {{\n{}int zin(int k) {{ {} }}\n}}\n", decls, body), "ZN::ZM::zin(k)".to_string()),
            _ => (format!("{}struct ZW {{ int zq; {} int zin(int k) {{ {} }} }};\nint zcall(int k) {{ ZW w; w.zq = 3; {} return w.zin(k) + w.zq; }}\n", decls, if bits & 1 != 0 { "int zc;" } else { "int za;" }, body.replace("za = za + 2;", "zq = zq + 2;"), if bits & 1 != 0 { "w.zc = 9;" } else { "w.za = 9;" }), "ZN::zcall(k)".to_string()),
        };
        if place == 5 {
            // parameters and locals (also of an inner block) of a root-scope function carry the names of root entities
            let (param, local, inner) = [("za", "zc", "zf"), ("zc", "zf", "ZS"), ("zf", "ZS", "za"), ("ZS", "za", "zc")][(bits % 4) as usize];
            return format!(
                "static int za = 1;\nstatic const int zc = 2;\nint zf(int k) {{ return k + 10; }}\nint zf(float k) {{ return 20; }}\nstruct ZS {{ int m; }};\nint zin(int k, int {p}) {{ int {l} = k + 3; {{ int {n} = 5; {l} += {n}; }} ::ZS s; s.m = k; ::za = ::za + 1; return ::za + ::zc * 2 + ::zf(k) * 3 + s.m * 5 + {p} * 7 + {l} * 11; }}\nint zuse(int k) {{ return zin(k, 6) + za; }}\n",
                p = param, l = local, n = inner
            );
        }
        if place == 4 {
            // a struct of the root scope whose members carry the names of root entities; its method names both
            let members = ["int za; int zc;", "int zc; int zf;", "int za; int ZS;", "int zf; int za;"][(bits % 4) as usize];
            let first = members.split_whitespace().nth(1).unwrap_or("za;").trim_end_matches(';').to_string();
            let second = members.split_whitespace().nth(3).unwrap_or("zc;").trim_end_matches(';').to_string();
            return format!(
                "static int za = 1;\nstatic const int zc = 2;\nint zf(int k) {{ return k + 10; }}\nint zf(float k) {{ return 20; }}\nstruct ZS {{ int m; }};\nstruct ZW {{ {} int zin(int k) {{ ::ZS s; s.m = k; ::za = ::za + 1; {} = {} + 2; return ::za + ::zc * 2 + ::zf(k) * 3 + s.m * 5 + {} * 7 + {} * 11; }} }};\nint zuse(int k) {{ ZW w; w.{} = 9; w.{} = 4; return w.zin(k) + w.{} + za; }}\n",
                members, first, first, first, second, first, second, first
            );
        }
        format!(
            "static int za = 1;\nstatic const int zc = 2;\nint zf(int k) {{ return k + 10; }}\nint zf(float k) {{ return 20; }}\nstruct ZS {{ int m; }};\nnamespace ZN {{\n{}}}\nint zuse(int k) {{ return {} + za; }}\n",
            inner, call
        )
}

/// The oracle for whole pipelines: the program gets a compute entry point that calls its functions; the entry point
/// of the typed IR and the generated entry point of the emitted text are run on thread ids and the final values of
/// all static variables are compared (in Metal they live in the generated entry point and travel as references).
pub fn check_exec_entry(base: &str, tgt: Tgt, arg_seed: u64, vectors: usize) -> Verdict {
    let base_module = match type_check_text(base) {
        Err(p) => return Verdict::Skip(format!("front end panicked (totality is C08's property): {}", norm(&p))),
        Ok(Err(d)) => return Verdict::Skip(format!("front end rejects: {}", norm(d.lines().next().unwrap_or("")))),
        Ok(Ok(m)) => m,
    };
    let Some((entry, calls)) = entry_text(&base_module) else { return Verdict::Skip("no function to call from an entry point".into()) };
    let source = format!("{}{}", base, entry);
    let module = match type_check_text(&source) {
        Err(p) => return Verdict::Skip(format!("front end panicked (totality is C08's property): {}", norm(&p))),
        Ok(Err(d)) => return Verdict::Skip(format!("front end rejects the entry point: {}", norm(d.lines().next().unwrap_or("")))),
        Ok(Ok(m)) => m,
    };
    let files = vec![("main.rssl".to_string(), source.clone())];
    let text = match compile(&CompileReq { files: &files, entry: "main.rssl", defines: &[], tgt, mode: Mode::All, validate_layout: false }) {
        Err(p) => return Verdict::Skip(format!("exporter panicked (totality is C08's property): {}", norm(&p))),
        Ok(Err(d)) => return Verdict::Skip(format!("backend rejects: {}", norm(d.lines().next().unwrap_or("")))),
        Ok(Ok(p)) => match p.first() {
            Some(p) => pipeline_text(p),
            None => return Verdict::Skip("no output".into()),
        },
    };
    let d = dialect_of(tgt);
    if uses_matrix_types(&text) {
        return Verdict::Skip("matrix types are outside of the executable subset".into());
    }
    let unit = match ctext::parse(&text) {
        Ok(u) => u,
        Err(e) => return Verdict::Fail { signature: format!("parse:{}", norm(&e)), detail: format!("emitted text does not parse as {:?}: {}\n{}", d, e, text) },
    };
    if let Err(csem::Stop::Bad(m)) = Sem::new(&unit, d).well_formed() {
        return Verdict::Fail { signature: format!("bad:{}", norm(&m)), detail: format!("the emitted text is ill-formed as {:?}: {}\n{}", d, m, text) };
    }
    let reg = &module.function_registry;
    let Some(entry_id) = reg.iter().find(|id| reg.get_intrinsic_data(*id).is_none() && reg.get_function_name_definition(*id).name.node == "zz_entry") else { return Verdict::Skip("entry point not in the IR".into()) };
    let entry_name = if d == Dialect::Msl { "ComputeShaderEntry" } else { "zz_entry" };
    let Some(tf) = unit.funcs.iter().find(|f| f.has_body && f.name == entry_name) else {
        return Verdict::Fail { signature: "missing-function".into(), detail: format!("no entry point {} in the emitted text\n{}", entry_name, text) };
    };
    let mut labels = vec![format!("entry_calls:{}", calls), "entry_point".to_string()];
    let mut compared = 0usize;
    for vec_index in 0..vectors {
        let mut mix = Mix(arg_seed ^ ((vec_index as u64) << 20));
        let dtid = V::Vec(match vec_index {
            0 => vec![V::UInt(0), V::UInt(0), V::UInt(0)],
            1 => vec![V::UInt(1), V::UInt(2), V::UInt(3)],
            _ => (0..3).map(|_| V::UInt(mix.of(UINTS))).collect(),
        });
        let mut it = Interp::new(&module);
        if let Err(e) = it.init_globals() {
            labels.push(format!("e2_unsupported:{}", norm(&format!("{:?}", e))));
            break;
        }
        match it.run_function(entry_id, &[dtid.clone()]) {
            Ok(_) => {}
            Err(irsem::Stop::Fuel) => {
                labels.push("e2_fuel".into());
                continue;
            }
            Err(irsem::Stop::Unsupported(m)) if m.contains("missing argument without a default") => {
                return Verdict::Fail { signature: "ir:missing-default-argument".into(), detail: format!("a call in the typed IR omits an argument for which the callee records no default value\n--- source\n{}", source) };
            }
            Err(e) => {
                labels.push(format!("e2_unsupported:{}", norm(&format!("{:?}", e))));
                break;
            }
        }
        let mut sem = Sem::new(&unit, d);
        if let Err(e) = sem.init_globals() {
            match e {
                csem::Stop::Bad(m) => return Verdict::Fail { signature: format!("bad:{}", norm(&m)), detail: format!("global initialisers of the emitted text: {}\n{}", m, text) },
                other => {
                    labels.push(format!("e3_unsupported:{}", norm(&format!("{:?}", other))));
                    break;
                }
            }
        }
        let locals = match sem.run_capture(tf, vec![dtid.clone()]) {
            Ok(l) => l,
            Err(csem::Stop::Fuel) => {
                labels.push("e3_fuel".into());
                continue;
            }
            Err(csem::Stop::Unsupported(m)) => {
                labels.push(format!("e3_unsupported:{}", norm(&m)));
                break;
            }
            Err(csem::Stop::Bad(m)) => {
                return Verdict::Fail { signature: format!("bad:{}", norm(&m)), detail: format!("entry point {} of the emitted text is not meaningful as {:?}: {}\nthread id {}\n{}", tf.name, d, m, show(&dtid), text) };
            }
        };
        let mut seen = 0usize;
        for g in 0..module.global_registry.len() {
            let def = &module.global_registry[g];
            let Some(a) = it.globals.get(&(g as u32)) else { continue };
            let name = &def.name.node;
            let b = if d == Dialect::Msl { locals.get(name).cloned().or_else(|| sem.global_value(name)) } else { sem.global_value(name) };
            let Some(b) = b else {
                // a static nobody reads or writes may be left out; an observer of a result may not
                if name.starts_with("zz_") {
                    return Verdict::Fail { signature: "entry:static-missing".into(), detail: format!("static {} is assigned by the entry point but does not exist in the emitted text\n{}", name, text) };
                }
                continue;
            };
            if !same(a, &b) {
                return Verdict::Fail {
                    signature: "mismatch:entry-static".into(),
                    detail: format!("after the entry point ran on thread id {}, static {} is {} by the source semantics but {} in the emitted {:?}\n--- source\n{}\n--- emitted\n{}", show(&dtid), name, show(a), show(&b), d, source, text),
                };
            }
            seen += 1;
        }
        if seen > 0 {
            compared += 1;
        }
    }
    if compared == 0 {
        labels.retain(|l| l.contains("unsupported") || l.contains("fuel"));
        return Verdict::Skip(format!("no static compared: {}", labels.join(", ")));
    }
    labels.sort();
    labels.dedup();
    Verdict::Pass { nontrivial: Some(hash_of(&(&source, arg_seed, 1u8))), labels }
}

pub fn record(source: &str, tgt: Tgt, arg_seed: u64) -> Value {
    json!({"source": source, "target": tgt.name(), "arg_seed": arg_seed})
}

pub fn check_record_with(r: &Value, allowed: &[Tgt], vectors: usize) -> Verdict {
    let Some(src) = r["source"].as_str() else { return Verdict::Skip("record without source".into()) };
    let Some(tgt) = r["target"].as_str().filter(|s| ["dx", "vk", "vkba", "msl"].contains(s)).map(Tgt::from_name) else { return Verdict::Skip("record without target".into()) };
    if !allowed.contains(&tgt) {
        return Verdict::Skip("target not covered by this property".into());
    }
    let seed = r["arg_seed"].as_u64().unwrap_or(0);
    if r["entry"].as_bool().unwrap_or(false) {
        return check_exec_entry(src, tgt, seed, 3);
    }
    check_exec(src, tgt, seed, r["vectors"].as_u64().map(|v| v as usize).unwrap_or(vectors))
}

// ---------------------------------------------------------------------------------------------
// the check shared by C01 (HLSL targets) and C02 (Metal)

use crate::progen;
use crate::xshape::{self, Variant};

pub fn run_common(ctx: &mut Ctx, targets: &'static [Tgt], check: fn(&Value) -> Verdict) {
    use proptest::prelude::*;
    let msl = targets.contains(&Tgt::Msl);
    if ctx.tier == crate::common::Tier::Thorough && std::env::var("VERIF_FUZZ_ONLY").is_ok() {
        // exploration aid: only the coverage-guided stage
        let prof = if msl { progen::Profile::exec_msl() } else { progen::Profile::exec_hlsl() };
        let seeds: Vec<Vec<u8>> = crate::common::sample_strategy(&progen::choices_strategy(500), ctx.seed ^ 0xf001, 600).iter().map(|ch| progen::generate(ch, prof.clone()).1.into_bytes()).collect();
        let tgt_name = if msl { "msl" } else { "dx" };
        let to_record = |bytes: &[u8]| record(&String::from_utf8_lossy(bytes), Tgt::from_name(tgt_name), 1);
        crate::fuzz::campaign(ctx, "text_property", Some(if msl { "C02" } else { "C01" }), seeds, 300, &to_record, &check);
        return;
    }
    // ---- exhaustive operator shapes
    let n_ops = ctx.tier.pick(2usize, 3usize);
    let mut variants: Vec<(String, Variant, usize)> = vec![("int".into(), Variant::Int, n_ops), ("float".into(), Variant::Float, n_ops)];
    for rot in 0..4u8 {
        variants.push((format!("mixed{}", rot), Variant::Mixed(rot), 2));
    }
    if n_ops > 2 {
        // the smaller sizes are part of the exhaustive space as well
        variants.push(("int".into(), Variant::Int, 2));
        variants.push(("float".into(), Variant::Float, 2));
    }
    variants.push(("int".into(), Variant::Int, 1));
    variants.push(("float".into(), Variant::Float, 1));
    for (name, v, n) in variants {
        let trees = xshape::all_trees(v, n);
        let count = (trees.len() * targets.len()) as u64;
        let make = |i: u64| {
            let t = &trees[(i as usize) / targets.len()];
            let tgt = targets[(i as usize) % targets.len()];
            let mut r = record(&xshape::program(v, t), tgt, 0x5eed ^ i);
            r["vectors"] = json!(11);
            r
        };
        ctx.run_enum(&format!("exhaustive_{}op_{}_shapes", n, name), count, true, make, |i| match check(&make(i)) {
            Verdict::Pass { nontrivial, mut labels } => {
                let mut ops = Vec::new();
                xshape::ops_of(&trees[(i as usize) / targets.len()], &mut ops);
                labels.retain(|l| !l.starts_with("compared_functions"));
                labels.push(format!("shape_outer:{}", ops[0]));
                Verdict::Pass { nontrivial, labels }
            }
            other => other,
        });
    }
    // ---- exhaustive aliasing table: copy-in / copy-out of out and inout parameters when arguments alias each
    // other or a static global the callee also touches
    const MODES: [&str; 3] = ["", "out ", "inout "];
    const BODY: [&str; 10] = ["a = a + 1;", "b = b * 10;", "a = a + g;", "g = g + a;", "b = a;", "a = b + g;", "g = b;", "b = b + a;", "a = 7;", "g = g * 2;"];
    const ARGS: [&str; 3] = ["x", "y", "g"];
    let alias_source = |i: u64| -> String {
        let mut k = i as usize;
        let mut take = |n: usize| {
            let r = k % n;
            k /= n;
            r
        };
        let (m1, m2, s1, s2, a1, a2) = (take(3), take(3), take(10), take(10), take(3), take(3));
        format!(
            "static int g = 3;\nvoid callee({}int a, {}int b) {{\n    {}\n    {}\n}}\nint caller(int x0, int y0) {{\n    int x = x0;\n    int y = y0;\n    callee({}, {});\n    return x * 100 + y * 10 + g;\n}}\n",
            MODES[m1], MODES[m2], BODY[s1], BODY[s2], ARGS[a1], ARGS[a2]
        )
    };
    let alias_count = (3 * 3 * 10 * 10 * 3 * 3 * targets.len()) as u64;
    let alias_make = |i: u64| record(&alias_source(i / targets.len() as u64), targets[(i as usize) % targets.len()], 0xa11a5 ^ i);
    ctx.run_enum("exhaustive_aliasing_calls", alias_count, true, alias_make, |i| match check(&alias_make(i)) {
        Verdict::Pass { nontrivial, mut labels } => {
            labels.retain(|l| !l.starts_with("compared_functions"));
            labels.push("aliasing_table".into());
            Verdict::Pass { nontrivial, labels }
        }
        other => other,
    });
    // ---- a struct converted to its base (Metal only: the HLSL text keeps the cast between two flattened structs, whose
    // meaning there is not modelled)
    if msl {
        const BASES: [(&str, &str, &str); 6] = [
            ("int za;", "d.za = k;", "b.za"),
            ("int za; float zb;", "d.za = k; d.zb = x;", "b.za + (int)b.zb"),
            ("float2 za; int zb[2];", "d.za = float2(x, x + 1.0); d.zb[0] = k; d.zb[1] = k + 1;", "(int)b.za.y + b.zb[1]"),
            ("ZI zi; int za;", "d.zi.zq = k; d.zi.zr = x; d.za = 7;", "b.zi.zq + (int)b.zi.zr + b.za"),
            // member names that are words of the Metal language: renamed per struct, so the base and the derived
            // struct carry different names for the same member
            ("float vertex; int fragment;", "d.vertex = x; d.fragment = k;", "(int)b.vertex + b.fragment"),
            ("int kernel[2]; ZI thread;", "d.kernel[0] = k; d.kernel[1] = 5; d.thread.zq = k + 1; d.thread.zr = x;", "b.kernel[0] + b.kernel[1] * 3 + b.thread.zq + (int)b.thread.zr"),
        ];
        const USES: [&str; 4] = ["ZB b = (ZB)d;", "ZB b = zbase(d);", "ZB b; b = (ZB)d;", "ZB b = ztake((ZB)d);"];
        let make = |i: u64| {
            let (members, fill, sum) = BASES[(i % 6) as usize];
            let usage = USES[((i / 6) % 4) as usize];
            let src = format!(
                "struct ZI {{ int zq; float zr; }};\nstruct ZB {{ {} }};\nstruct ZD : ZB {{ int zc; float zd; }};\nZB zbase(ZD d) {{ return (ZB)d; }}\nZB ztake(ZB b) {{ return b; }}\nint zuse(int k, float x) {{\n    ZD d;\n    {}\n    d.zc = k + 100;\n    d.zd = x * 2.0;\n    {}\n    return {} + d.zc;\n}}\n",
                members, fill, usage, sum
            );
            record(&src, Tgt::Msl, 0x1be0 ^ i)
        };
        ctx.run_enum("base_struct_conversions", 24, true, make, |i| match check(&make(i)) {
            Verdict::Pass { nontrivial, mut labels } => {
                labels.retain(|l| !l.starts_with("compared_functions"));
                labels.push("base_struct_conversion".into());
                Verdict::Pass { nontrivial, labels }
            }
            other => other,
        });
    }
    // ---- arrays of several dimensions as parameters: every element has to arrive and come back
    {
        const ARRAYS: [&str; 4] = [
            "int zsum(int g[2][3]) { int s = 0; for (int i = 0; i < 2; i++) { for (int j = 0; j < 3; j++) { s = s * 3 + g[i][j]; } } return s; }\nvoid zbump(inout int g[2][3]) { for (int i = 0; i < 2; i++) { for (int j = 0; j < 3; j++) { g[i][j] += i * 10 + j; } } }\nvoid zfill(out int g[2][3], int v) { for (int i = 0; i < 2; i++) { for (int j = 0; j < 3; j++) { g[i][j] = v + i * 3 + j; } } }\nint zuse(int k) { int g[2][3] = { { k, 1, 2 }, { 3, 4, 5 } }; zbump(g); int t[2][3]; zfill(t, k); return zsum(g) * 7 + zsum(t); }\n",
            "float zsum(float g[2][2][2]) { float s = 0; for (int i = 0; i < 2; i++) { for (int j = 0; j < 2; j++) { for (int k = 0; k < 2; k++) { s = s * 2 + g[i][j][k]; } } } return s; }\nvoid zscale(inout float g[2][2][2], float f) { for (int i = 0; i < 2; i++) { for (int j = 0; j < 2; j++) { for (int k = 0; k < 2; k++) { g[i][j][k] = g[i][j][k] * f + k; } } } }\nfloat zuse(float x) { float g[2][2][2] = { { { x, 1 }, { 2, 3 } }, { { 4, 5 }, { 6, 7 } } }; zscale(g, 2.0); return zsum(g); }\n",
            "float2 zlast(float2 g[3][2]) { g[0][0] = float2(9, 9); return g[2][1] + g[1][0]; }\nvoid zset(out float2 g[3][2], float v) { for (int i = 0; i < 3; i++) { for (int j = 0; j < 2; j++) { g[i][j] = float2(v + i, v + j); } } }\nfloat zuse(float x) { float2 g[3][2]; zset(g, x); float2 r = zlast(g); return r.x * 10 + r.y + g[0][0].x + g[2][1].y; }\n",
            "struct ZS { int a[2][2]; };\nint zpeek(ZS s, int t[2][2]) { t[1][0] += 100; return s.a[1][1] * 10 + t[1][0]; }\nint zuse(int k) { ZS s; s.a[0][0] = k; s.a[0][1] = 1; s.a[1][0] = 2; s.a[1][1] = 3; int r = zpeek(s, s.a); return r * 1000 + s.a[1][0] * 10 + s.a[0][0]; }\n",
        ];
        let n_t = targets.len() as u64;
        let make = |i: u64| record(ARRAYS[(i / n_t) as usize], targets[(i % n_t) as usize], 0xa44a ^ i);
        ctx.run_enum("array_parameter_copies", 4 * n_t, true, make, |i| match check(&make(i)) {
            Verdict::Pass { nontrivial, mut labels } => {
                labels.retain(|l| !l.starts_with("compared_functions"));
                labels.push("array_parameter_copy".into());
                Verdict::Pass { nontrivial, labels }
            }
            other => other,
        });
    }
    // ---- an array or struct cast to a scalar: the first element of the flattened operand
    {
        const AGG: [&str; 6] = [
            "int zf(int k) { int arr[3] = { k + 5, 2, 3 }; return (int)arr + 1; }\n",
            "bool zf(float x) { float arr[2][2] = { { x, 1 }, { 2, 3 } }; return (bool)arr; }\n",
            "struct ZS { int a; float b; };\nfloat zf(int k, float x) { ZS s; s.a = k; s.b = x; return (float)s * 2.0; }\n",
            "struct ZS { float a; int b; };\nstruct ZT { ZS s[2]; int c; };\nint zf(int k, float x) { ZT t; t.s[0].a = x; t.s[0].b = k; t.s[1].a = 1.0; t.s[1].b = 2; t.c = 9; return (int)t + (int)t.s[1] * 10; }\n",
            "struct ZS { float2 v; int b; };\nfloat zf(float x) { ZS s; s.v = float2(x, 7.0); s.b = 3; return (float)s; }\n",
            "struct ZB { uint vertex; };\nstruct ZD : ZB { int c; };\nuint zf(uint k) { ZD d; d.vertex = k; d.c = 4; return (uint)d + 1u; }\n",
        ];
        let n_t = targets.len() as u64;
        let make = |i: u64| record(AGG[(i / n_t) as usize], targets[(i % n_t) as usize], 0xa66 ^ i);
        ctx.run_enum("aggregate_to_scalar_casts", 6 * n_t, true, make, |i| match check(&make(i)) {
            Verdict::Pass { nontrivial, mut labels } => {
                labels.retain(|l| !l.starts_with("compared_functions"));
                labels.push("aggregate_to_scalar_cast".into());
                Verdict::Pass { nontrivial, labels }
            }
            other => other,
        });
    }
    // ---- names of the root scope used (with a leading ::) where a namespace or a struct declares the same name
    {
        let hidden_source = hidden_root_name_source;
        let n_t = targets.len() as u64;
        let make = |i: u64| record(&hidden_source(i / n_t), targets[(i % n_t) as usize], 0x41dd ^ i);
        ctx.run_enum("hidden_root_names", 96 * n_t, true, make, |i| match check(&make(i)) {
            Verdict::Pass { nontrivial, mut labels } => {
                labels.retain(|l| !l.starts_with("compared_functions"));
                labels.push("hidden_root_name".into());
                Verdict::Pass { nontrivial, labels }
            }
            other => other,
        });
    }
    // ---- a static inside a namespace and a local variable or parameter of the same plain name in a function that
    // reaches the static only through a call (on Metal the static travels as a reference parameter named by its leaf)
    {
        let make_src = |i: u64| -> String {
            let deep = i % 2 == 1;
            let (open, close, path) = if deep { ("namespace ZN {\nnamespace ZM {\n", "}\n}\n", "ZN::ZM::") } else { ("namespace ZN {\n", "}\n", "ZN::") };
            let body = match (i / 2) % 5 {
                0 => format!("int zuse(int k) {{ int r = 0; if (k > -100000) {{ int zq = k * 2; r = {p}zbump() + zq; }} return r * 100 + {p}zq; }}\n", p = path),
                1 => format!("int zuse(int k) {{ int r = 0; for (int zq = 0; zq < 2; zq++) {{ r += {p}zbump() + zq; }} return r * 100 + {p}zq; }}\n", p = path),
                2 => format!("int zuse(int k) {{ int r = 0; {{ {{ int zq = k + 1; r = {p}zbump() * zq; }} }} return r * 100 + {p}zq; }}\n", p = path),
                3 => format!("int zuse(int k) {{ int zq = k * 2; int r = {p}zbump() + zq; return r * 100 + {p}zq; }}\n", p = path),
                _ => format!("int zuse(int zq) {{ int r = {p}zbump() + zq; return r * 100 + {p}zq; }}\n", p = path),
            };
            format!("{}static int zq = 10;\nint zbump() {{ zq += 1; return zq; }}\n{}{}", open, close, body)
        };
        let n_t = targets.len() as u64;
        let make = |i: u64| record(&make_src(i / n_t), targets[(i % n_t) as usize], 0x5747 ^ i);
        ctx.run_enum("namespaced_static_vs_local", 10 * n_t, true, make, |i| match check(&make(i)) {
            Verdict::Pass { nontrivial, mut labels } => {
                labels.retain(|l| !l.starts_with("compared_functions"));
                labels.push("namespaced_static_vs_local".into());
                Verdict::Pass { nontrivial, labels }
            }
            other => other,
        });
    }
    // ---- vectors of one element (Metal writes them as scalars)
    {
        const ONE: [&str; 8] = [
            "uint1 zf(uint3 v) { return v; }\n",
            "uint zf(uint s) { uint1 w = (uint1)s; uint b = w; return b + 1u; }\n",
            "float1 zf(float3 v) { float1 d = (float1)v; return d; }\n",
            "uint zf(uint3 v) { return select(v.x > 1u, (uint)1u, (uint1)7u) + v.x; }\n",
            "int zf(int1 a, int b) { int1 c = a + b; c += 2; return c * a; }\n",
            "float2 zf(float1 a, float2 b) { return a * b + a; }\n",
            "int1 zf(int4 v) { int1 r = v.w; r = (int1)v.yz; return r; }\n",
            "bool1 zf(float1 a, float b) { bool1 r = a < b; return r; }\n",
        ];
        let n_t = targets.len() as u64;
        let make = |i: u64| record(ONE[(i / n_t) as usize], targets[(i % n_t) as usize], 0x1e1 ^ i);
        ctx.run_enum("one_element_vectors", 8 * n_t, true, make, |i| match check(&make(i)) {
            Verdict::Pass { nontrivial, mut labels } => {
                labels.retain(|l| !l.starts_with("compared_functions"));
                labels.push("one_element_vector".into());
                Verdict::Pass { nontrivial, labels }
            }
            other => other,
        });
    }
    // ---- generated programs
    let prof = if msl { progen::Profile::exec_msl() } else { progen::Profile::exec_hlsl() };
    let n_t = targets.len();
    ctx.run_prop(
        "generated_programs",
        ctx.tier.pick(20_000, 400_000),
        || (progen::choices_strategy(700), 0usize..n_t, any::<u64>()),
        |(ch, t, seed): &(Vec<u32>, usize, u64)| record(&progen::generate(ch, prof.clone()).1, targets[*t], *seed),
        check,
    );
    // ---- the same programs behind a generated compute entry point, compiled as a pipeline
    ctx.run_prop(
        "entry_point_programs",
        ctx.tier.pick(6_000, 120_000),
        || (progen::choices_strategy(700), 0usize..n_t, any::<u64>()),
        |(ch, t, seed): &(Vec<u32>, usize, u64)| {
            let mut r = record(&progen::generate(ch, prof.clone()).1, targets[*t], *seed);
            r["entry"] = json!(true);
            r
        },
        check,
    );
    ctx.require_label("entry_point", 50);
    ctx.require_label("out_params", 50);
    ctx.require_label("global_compared", 50);
    if msl {
        ctx.require_label("implicit_globals", 50);
    }
    if ctx.tier == crate::common::Tier::Thorough && ctx.failures.is_empty() {
        // coverage-guided stage: the fuzzer mutates generated programs; the oracle in the target is the differential
        // execution of this check
        let mut seeds: Vec<Vec<u8>> = crate::common::sample_strategy(&progen::choices_strategy(500), ctx.seed ^ 0xf001, 400).iter().map(|ch| progen::generate(ch, prof.clone()).1.into_bytes()).collect();
        for i in (0..8100u64).step_by(97) {
            seeds.push(alias_source(i).into_bytes());
        }
        let tgt_name = if msl { "msl" } else { "dx" };
        let to_record = |bytes: &[u8]| record(&String::from_utf8_lossy(bytes), Tgt::from_name(tgt_name), 1);
        crate::fuzz::campaign(ctx, "text_property", Some(if msl { "C02" } else { "C01" }), seeds, 300, &to_record, &check);
    }
    let disagreements: u64 = ctx.stats.known_hits.values().sum::<u64>() + ctx.failures.len() as u64;
    ctx.extra.insert("programs".into(), json!(ctx.stats.nontrivial.len() as u64 + ctx.stats.nontrivial_by_construction));
    ctx.extra.insert("disagreements_checked".into(), json!(disagreements));
    ctx.extra.insert(
        "explanation".into(),
        json!("per program: the typed IR is interpreted (E2) and the emitted text is parsed and interpreted by an independent evaluator (E3) on 3 argument vectors per function; return value, out/inout parameters and static globals are compared bit-exactly. 'programs' = programs with at least one function compared; 'disagreements_checked' = failing programs examined in this run (known findings included)."),
    );
}
