//! C16 — overload resolution is order-independent and prefers exact matches.
//!
//! Observation: each overload returns its own struct type; `assert_type<RX>(f(args))` fails with
//! "expected type 'RX' but received type 'Rk'", which names the selected overload. Oracles:
//! permutation invariance, the exact-match rule, non-dominance under the rank table documented at
//! the top of typer/src/casting.rs (restated here), and "the only viable candidate is selected".

use crate::common::*;
use proptest::prelude::*;
use serde_json::{Value, json};

const SCALARS: [&str; 6] = ["bool", "int", "uint", "half", "float", "double"];

#[derive(Clone, Debug, PartialEq, Eq, Hash)]
pub struct Param {
    scalar: usize,
    dim: u32,
    /// 0 in, 1 out, 2 inout
    io: u8,
}

#[derive(Clone, Debug, PartialEq, Eq, Hash)]
pub enum Arg {
    /// lvalue local of a type
    Lvalue(usize, u32),
    /// rvalue expression of a type
    Rvalue(usize, u32),
    IntLit,
    FloatLit,
}

#[derive(Clone, Debug)]
pub struct Case {
    cands: Vec<Vec<Param>>,
    args: Vec<Arg>,
}

fn ty_name(s: usize, d: u32) -> String {
    if d == 1 { SCALARS[s].to_string() } else { format!("{}{}", SCALARS[s], d) }
}

fn render(c: &Case, order: &[usize]) -> String {
    let mut s = String::new();
    for k in 0..c.cands.len() {
        s.push_str(&format!("struct R{} {{ int v; }};\n", k));
    }
    s.push_str("struct RX { int v; };\n");
    for t in 0..6 {
        for d in 1..=4 {
            // helper producing an rvalue of every type
            s.push_str(&format!("{} mk_{}() {{ return ({})0; }}\n", ty_name(t, d), ty_name(t, d), ty_name(t, d)));
        }
    }
    for &k in order {
        let ps: Vec<String> = c.cands[k]
            .iter()
            .enumerate()
            .map(|(i, p)| format!("{}{} p{}", ["", "out ", "inout "][p.io as usize], ty_name(p.scalar, p.dim), i))
            .collect();
        let mut body = String::new();
        for (i, p) in c.cands[k].iter().enumerate() {
            if p.io == 1 {
                body.push_str(&format!("p{} = ({})0; ", i, ty_name(p.scalar, p.dim)));
            }
        }
        s.push_str(&format!("R{} f({}) {{ {}R{} r; r.v = {}; return r; }}\n", k, ps.join(", "), body, k, k));
    }
    s.push_str("void test() {\n");
    let mut call = Vec::new();
    for (i, a) in c.args.iter().enumerate() {
        match a {
            Arg::Lvalue(t, d) => {
                s.push_str(&format!("    {} a{} = ({})0;\n", ty_name(*t, *d), i, ty_name(*t, *d)));
                call.push(format!("a{}", i));
            }
            Arg::Rvalue(t, d) => call.push(format!("mk_{}()", ty_name(*t, *d))),
            Arg::IntLit => call.push("7".to_string()),
            Arg::FloatLit => call.push("1.5".to_string()),
        }
    }
    s.push_str(&format!("    assert_type<RX>(f({}));\n}}\n", call.join(", ")));
    s
}

#[derive(Clone, Debug, PartialEq, Eq)]
pub enum Outcome {
    Selected(usize),
    Ambiguous,
    NoMatch,
    Other(String),
}

fn outcome(src: &str) -> Result<Outcome, String> {
    match compile_text(src, Tgt::Dx)? {
        Ok(_) => Ok(Outcome::Other("accepted (assert_type<RX> passed?)".into())),
        Err(msg) => {
            let first = msg.lines().next().unwrap_or("").to_string();
            if let Some(i) = first.find("but received type 'R") {
                let rest = &first[i + 20..];
                let n: String = rest.chars().take_while(|c| c.is_ascii_digit()).collect();
                if let Ok(k) = n.parse() {
                    return Ok(Outcome::Selected(k));
                }
            }
            if first.contains("ambiguous") {
                return Ok(Outcome::Ambiguous);
            }
            if first.contains("no matching function") {
                return Ok(Outcome::NoMatch);
            }
            Ok(Outcome::Other(normalise_panic(&first)))
        }
    }
}

// rank table restated from the documentation comment (0 best)
fn numeric_rank(src: Option<usize>, lit: Option<bool>, dst: usize) -> u32 {
    // src scalar index or literal (lit = Some(false) int literal, Some(true) float literal)
    const EXACT: u32 = 0;
    const PROMO: u32 = 1;
    const PROMO2: u32 = 2;
    const INT2BOOL: u32 = 3;
    const CONV: u32 = 4;
    if let Some(is_float) = lit {
        return if !is_float {
            match SCALARS[dst] {
                "int" | "uint" => PROMO,
                "bool" => INT2BOOL,
                _ => CONV,
            }
        } else {
            match SCALARS[dst] {
                "half" | "float" | "double" => PROMO,
                _ => CONV,
            }
        };
    }
    let s = src.unwrap();
    if s == dst {
        return EXACT;
    }
    match (SCALARS[s], SCALARS[dst]) {
        ("bool", _) => CONV,
        ("int", "uint") | ("uint", "int") => PROMO,
        ("int", "bool") | ("uint", "bool") => INT2BOOL,
        ("int", _) | ("uint", _) => CONV,
        ("half", "float") => PROMO,
        ("half", "double") => PROMO2,
        ("half", _) => CONV,
        ("float", "double") => PROMO,
        ("float", _) => CONV,
        ("double", _) => CONV,
        _ => unreachable!(),
    }
}

/// Some((numeric, vector)) when the argument surely converts to the parameter; None when it surely does not.
fn conversion(a: &Arg, p: &Param) -> Option<(u32, u32)> {
    let (src, lit, adim, lvalue) = match a {
        Arg::Lvalue(t, d) => (Some(*t), None, *d, true),
        Arg::Rvalue(t, d) => (Some(*t), None, *d, false),
        Arg::IntLit => (None, Some(false), 1, false),
        Arg::FloatLit => (None, Some(true), 1, false),
    };
    if p.io != 0 {
        // out / inout bind the argument object: same type, lvalue
        if !lvalue || src != Some(p.scalar) || adim != p.dim {
            return None;
        }
        return Some((0, 0));
    }
    let vec = if adim == p.dim {
        0
    } else if adim == 1 {
        1 // expand
    } else if adim > p.dim {
        2 // contract
    } else {
        return None; // a 2/3-vector does not grow
    };
    Some((numeric_rank(src, lit, p.scalar), vec))
}

fn viable(c: &Case, k: usize) -> Option<Vec<(u32, u32)>> {
    if c.cands[k].len() != c.args.len() {
        return None;
    }
    c.args.iter().zip(&c.cands[k]).map(|(a, p)| conversion(a, p)).collect()
}

fn permutations(n: usize) -> Vec<Vec<usize>> {
    fn go(cur: &mut Vec<usize>, used: &mut Vec<bool>, n: usize, out: &mut Vec<Vec<usize>>) {
        if cur.len() == n {
            out.push(cur.clone());
            return;
        }
        for i in 0..n {
            if !used[i] {
                used[i] = true;
                cur.push(i);
                go(cur, used, n, out);
                cur.pop();
                used[i] = false;
            }
        }
    }
    let mut out = Vec::new();
    go(&mut Vec::new(), &mut vec![false; n], n, &mut out);
    out
}

fn judge(c: &Case) -> Verdict {
    let n = c.cands.len();
    let perms = permutations(n);
    let base_src = render(c, &perms[0]);
    let base = match outcome(&base_src) {
        Ok(o) => o,
        Err(p) => return Verdict::fail(format!("panic:{}", p), base_src),
    };
    if let Outcome::Other(m) = &base {
        return Verdict::Skip(format!("front end: {}", m));
    }
    // (1) order independence
    for perm in &perms[1..] {
        let src = render(c, perm);
        let o = match outcome(&src) {
            Ok(o) => o,
            Err(p) => return Verdict::fail(format!("panic:{}", p), src),
        };
        if o != base {
            return Verdict::fail(
                "order-dependent",
                format!("declaration order {:?} gives {:?}, order {:?} gives {:?}\n--- first order\n{}\n--- other order\n{}", perms[0], base, perm, o, base_src, src),
            );
        }
    }
    let ranks: Vec<Option<Vec<(u32, u32)>>> = (0..n).map(|k| viable(c, k)).collect();
    let nviable = ranks.iter().filter(|r| r.is_some()).count();
    let mut labels = vec![match &base {
        Outcome::Selected(_) => "selected".to_string(),
        Outcome::Ambiguous => "ambiguous".to_string(),
        Outcome::NoMatch => "no_match".to_string(),
        _ => unreachable!(),
    }];
    // (4) viability
    match (&base, nviable) {
        (Outcome::Selected(k), _) if ranks[*k].is_none() => {
            return Verdict::fail("selected-non-viable", format!("selected R{} which cannot accept the arguments\n{}", k, base_src));
        }
        (Outcome::Selected(_), _) => {}
        (_, 0) => {}
        (o, 1) => {
            let k = ranks.iter().position(|r| r.is_some()).unwrap();
            return Verdict::fail("only-viable-not-selected", format!("R{} is the only viable candidate but the call was {:?}\n{}", k, o, base_src));
        }
        _ => {}
    }
    if nviable == 0 {
        if let Outcome::Selected(k) = &base {
            return Verdict::fail("selected-non-viable", format!("selected R{} although no candidate is viable\n{}", k, base_src));
        }
    }
    // (2) exact match
    let exact: Vec<usize> = (0..n)
        .filter(|k| ranks[*k].as_ref().map(|r| r.iter().all(|x| *x == (0, 0))).unwrap_or(false) && !c.args.iter().any(|a| matches!(a, Arg::IntLit | Arg::FloatLit)))
        .collect();
    if exact.len() == 1 {
        labels.push("has_unique_exact_match".into());
        if base != Outcome::Selected(exact[0]) {
            return Verdict::fail("exact-match-not-selected", format!("R{} matches the argument types exactly but the call was {:?}\n{}", exact[0], base, base_src));
        }
    }
    // (3) non-dominance (product order on (numeric, vector) per argument)
    if let Outcome::Selected(k) = &base {
        let mine = ranks[*k].as_ref().unwrap();
        for (j, other) in ranks.iter().enumerate() {
            let Some(other) = other else { continue };
            if j == *k {
                continue;
            }
            let not_worse = other.iter().zip(mine).all(|(o, m)| o.0 <= m.0 && o.1 <= m.1);
            let better = other.iter().zip(mine).any(|(o, m)| o.0 < m.0 || o.1 < m.1);
            // with a single argument the documented order decides alone: the numeric ranks are compared first (the
            // numeric-rank tournament of find_function_type), the vector ranks only between candidates that tie there
            if c.args.len() == 1 && other[0].0 < mine[0].0 {
                return Verdict::fail(
                    "selected-dominated:numeric-rank",
                    format!("selected R{} (ranks {:?}) although viable R{} converts the only argument with a better numeric rank (ranks {:?})\n{}", k, mine, j, other, base_src),
                );
            }
            if not_worse && better {
                return Verdict::fail(
                    "selected-dominated",
                    format!("selected R{} (ranks {:?}) is dominated by viable R{} (ranks {:?})\n{}", k, mine, j, other, base_src),
                );
            }
        }
    }
    if perms.len() > 1 {
        labels.push(format!("perms_{}", perms.len()));
    }
    Verdict::pass(if nviable >= 2 { Some(hash_of(&base_src)) } else { None }, labels)
}

fn param_strategy() -> impl Strategy<Value = Param> {
    (0usize..6, prop_oneof![4 => Just(1u32), 1 => Just(2u32), 2 => Just(3u32), 1 => Just(4u32)], prop_oneof![6 => Just(0u8), 1 => Just(1u8), 1 => Just(2u8)])
        .prop_map(|(scalar, dim, io)| Param { scalar, dim, io })
}

fn arg_strategy() -> impl Strategy<Value = Arg> {
    let ty = (0usize..6, prop_oneof![4 => Just(1u32), 1 => Just(2u32), 2 => Just(3u32), 1 => Just(4u32)]);
    prop_oneof![
        4 => ty.clone().prop_map(|(t, d)| Arg::Lvalue(t, d)),
        3 => ty.prop_map(|(t, d)| Arg::Rvalue(t, d)),
        1 => Just(Arg::IntLit),
        1 => Just(Arg::FloatLit),
    ]
}

fn case_strategy() -> impl Strategy<Value = Case> {
    (1usize..=3, 2usize..=5).prop_flat_map(|(arity, n)| {
        let cand = prop_oneof![
            9 => proptest::collection::vec(param_strategy(), arity..=arity),
            1 => proptest::collection::vec(param_strategy(), 1..=3),
        ];
        (proptest::collection::vec(cand, n..=n), proptest::collection::vec(arg_strategy(), arity..=arity), any::<u8>()).prop_map(|(mut cands, mut args, bias)| {
            // bias: make the arguments line up with one candidate so that exact matches and near misses are common
            if bias % 3 != 0 {
                let k = (bias as usize / 3) % cands.len();
                if cands[k].len() == args.len() {
                    for (i, p) in cands[k].iter().enumerate() {
                        if bias % 3 == 1 || i % 2 == 0 {
                            args[i] = Arg::Lvalue(p.scalar, p.dim);
                        }
                    }
                }
            }
            // a twin of one candidate that differs only in the direction of its parameters
            if bias % 5 == 0 && !cands.is_empty() {
                let mut twin = cands[(bias as usize / 5) % cands.len()].clone();
                for (i, p) in twin.iter_mut().enumerate() {
                    p.io = ((p.io as usize + 1 + (bias as usize + i) % 2) % 3) as u8;
                }
                cands.push(twin);
            }
            // drop duplicate signatures (a redefinition is a different diagnostic)
            // (overloads that differ only in the direction of a parameter are distinct declarations)
            let mut seen: Vec<Vec<(usize, u32, u8)>> = Vec::new();
            cands.retain(|c| {
                let sig: Vec<(usize, u32, u8)> = c.iter().map(|p| (p.scalar, p.dim, p.io)).collect();
                if seen.contains(&sig) {
                    false
                } else {
                    seen.push(sig);
                    true
                }
            });
            Case { cands, args }
        })
    })
}

fn case_json(c: &Case) -> Value {
    json!({
        "cands": c.cands.iter().map(|ps| ps.iter().map(|p| json!([p.scalar, p.dim, p.io])).collect::<Vec<_>>()).collect::<Vec<_>>(),
        "args": c.args.iter().map(|a| match a {
            Arg::Lvalue(t, d) => json!(["l", t, d]),
            Arg::Rvalue(t, d) => json!(["r", t, d]),
            Arg::IntLit => json!(["i"]),
            Arg::FloatLit => json!(["f"]),
        }).collect::<Vec<_>>(),
        "source_first_order": render(c, &(0..c.cands.len()).collect::<Vec<_>>()),
    })
}

fn case_from(v: &Value) -> Case {
    let u = |x: &Value| x.as_u64().unwrap_or(0);
    Case {
        cands: v["cands"]
            .as_array()
            .map(|a| {
                a.iter()
                    .map(|ps| ps.as_array().map(|x| x.iter().map(|p| Param { scalar: (u(&p[0]) as usize).min(5), dim: (u(&p[1]) as u32).clamp(1, 4), io: (u(&p[2]) as u8).min(2) }).collect()).unwrap_or_default())
                    .collect()
            })
            .unwrap_or_default(),
        args: v["args"]
            .as_array()
            .map(|a| {
                a.iter()
                    .map(|x| match x[0].as_str().unwrap_or("i") {
                        "l" => Arg::Lvalue((u(&x[1]) as usize).min(5), (u(&x[2]) as u32).clamp(1, 4)),
                        "r" => Arg::Rvalue((u(&x[1]) as usize).min(5), (u(&x[2]) as u32).clamp(1, 4)),
                        "f" => Arg::FloatLit,
                        _ => Arg::IntLit,
                    })
                    .collect()
            })
            .unwrap_or_default(),
    }
}

pub fn check_record(rec: &Value) -> Verdict {
    let c = case_from(rec);
    if c.cands.is_empty() || c.cands.len() > 5 {
        return Verdict::Skip("bad record".into());
    }
    judge(&c)
}

pub fn run(ctx: &mut Ctx) {
    ctx.rule = "Candidate sets of 2-5 overloads `Rk f(params)` with 1-3 parameters over {bool,int,uint,half,float,double} x {scalar,2,3,4} x {in,out,inout}, each returning its own struct type, compiled once per permutation of the declaration order (all <= 120); argument tuples of lvalues / rvalues of those types plus untyped int and float literals, biased so that exact matches and near misses are common. The selected overload is read from the assert_type diagnostic. Checked: same outcome for every permutation; a unique exact match is selected; the selected candidate is viable and not dominated under the documented rank table; the only viable candidate is selected. Non-trivial = at least 2 viable candidates. Distinct = hash of the program in the first order.".into();
    ctx.assumptions.push("rank table restated from the documentation comment at the top of typer/src/casting.rs; dominance uses the product order of (numeric rank, vector rank) per argument, the weakest reading of 'converts no argument worse and at least one better'".into());
    ctx.assumptions.push("out/inout parameters accept only lvalues of exactly their type (RSSL's rule); sets containing two candidates that differ only in in/out-ness have such duplicates removed".into());
    if !ctx.replay_tier(&check_record) {
        return;
    }
    // ---- every pair of one-parameter candidates over the 24 value types x every argument type (rvalue) and both literals
    {
        let types: Vec<(usize, u32)> = (0..6usize).flat_map(|s| [1u32, 2, 3, 4].into_iter().map(move |d| (s, d))).collect();
        let pairs: Vec<(usize, usize)> = (0..types.len()).flat_map(|a| ((a + 1)..types.len()).map(move |b| (a, b))).collect();
        let n_args = types.len() as u64 + 2;
        let make = |i: u64| {
            let (a, b) = pairs[(i / n_args) as usize];
            let k = (i % n_args) as usize;
            let arg = if k < types.len() {
                Arg::Rvalue(types[k].0, types[k].1)
            } else if k == types.len() {
                Arg::IntLit
            } else {
                Arg::FloatLit
            };
            let c = Case { cands: vec![vec![Param { scalar: types[a].0, dim: types[a].1, io: 0 }], vec![Param { scalar: types[b].0, dim: types[b].1, io: 0 }]], args: vec![arg] };
            case_json(&c)
        };
        // the quick tier takes every third case (all pairs are met with a third of the argument types each run; the seed
        // rotates which third)
        let total = pairs.len() as u64 * n_args;
        let (step, offset) = if ctx.tier == crate::common::Tier::Thorough { (1, 0) } else { (3, ctx.seed % 3) };
        let count = (total - offset + step - 1) / step;
        ctx.run_enum("candidate_pairs_x_argument_types", count, true, |j| make(j * step + offset), |j| check_record(&make(j * step + offset)));
    }
    ctx.run_prop("random_overload_sets", ctx.tier.pick(6_000, 150_000), case_strategy, case_json, check_record);
    for l in ["selected", "ambiguous", "no_match", "has_unique_exact_match", "perms_120", "perms_24"] {
        ctx.require_label(l, 10);
    }
}
