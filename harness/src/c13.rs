//! C13 — compile-time constant evaluation matches run-time semantics.
//!
//! Oracle: a reference constant evaluator written from the property (exact i128 for untyped
//! literals, wrapping 32-bit for int/uint, 5-bit shift counts, C comparisons/logic, HLSL casts) and
//! from RSSL's documented operand typing (DESIGN.md appendix A). Observation: the value inside the
//! diagnostic of a deliberately failing `assert_eval(e, sentinel)` and the literal that appears in
//! the emitted HLSL for every constant position.

use crate::common::*;
use proptest::prelude::*;
use serde_json::{Value, json};

#[derive(Clone, Debug, PartialEq)]
pub enum CE {
    Int(u64),
    UInt(u32),
    Flt(String),
    Bool(bool),
    Ref(&'static str),
    EnumVal(&'static str),
    Un(&'static str, Box<CE>),
    Bin(&'static str, Box<CE>, Box<CE>),
    Cast(&'static str, Box<CE>),
    SizeOf(&'static str),
}

#[derive(Clone, Debug, PartialEq)]
pub enum RV {
    Bool(bool),
    Lit(i128),
    I(i32),
    U(u32),
    LitF(f64),
    H(f32),
    F(f32),
    D(f64),
    Enum(i32),
    /// HLSL leaves the result open (out-of-range float->int, INT_MIN / -1, inexact literal): any value, no abort
    Unspecified,
    /// integer division or modulus by zero: must be reported as not constant
    DivZero,
}

pub const PRELUDE: &str = "enum E { EA, EB = 5, EC = -3 };\n\
static const int ci0 = 0;\nstatic const int ci1 = 1;\nstatic const int cim1 = -1;\nstatic const int cimin = -2147483648;\n\
static const int cimax = 2147483647;\nstatic const int ci31 = 31;\nstatic const int ci32 = 32;\nstatic const int ci7 = 7;\n\
static const uint cu0 = 0u;\nstatic const uint cu1 = 1u;\nstatic const uint cumax = 4294967295u;\nstatic const uint cu31 = 31u;\n\
static const uint cu32 = 32u;\nstatic const uint cu231 = 2147483648u;\nstatic const uint cu5 = 5u;\n\
static const bool cbt = true;\nstatic const bool cbf = false;\n\
static const float cf15 = 1.5;\nstatic const float cfneg = -2.75;\nstatic const float cfbig = 3000000000.0;\nstatic const float cfhuge = 1e30;\nstatic const float cftiny = 1e-30;\n\
static const half ch05 = 0.5h;\nstatic const double cd = 10000000000.5L;\nstatic const double cdneg = -0.25L;\n";

fn named(name: &str) -> RV {
    match name {
        "ci0" => RV::I(0),
        "ci1" => RV::I(1),
        "cim1" => RV::I(-1),
        "cimin" => RV::I(i32::MIN),
        "cimax" => RV::I(i32::MAX),
        "ci31" => RV::I(31),
        "ci32" => RV::I(32),
        "ci7" => RV::I(7),
        "cu0" => RV::U(0),
        "cu1" => RV::U(1),
        "cumax" => RV::U(u32::MAX),
        "cu31" => RV::U(31),
        "cu32" => RV::U(32),
        "cu231" => RV::U(1 << 31),
        "cu5" => RV::U(5),
        "cbt" => RV::Bool(true),
        "cbf" => RV::Bool(false),
        "cf15" => RV::F(1.5),
        "cfneg" => RV::F(-2.75),
        "cfbig" => RV::F(3000000000.0),
        "cfhuge" => RV::F(1e30),
        "cftiny" => RV::F(1e-30),
        "ch05" => RV::H(0.5),
        "cd" => RV::D(10000000000.5),
        "cdneg" => RV::D(-0.25),
        "EA" => RV::Enum(0),
        "EB" => RV::Enum(5),
        "EC" => RV::Enum(-3),
        _ => panic!("unknown constant {}", name),
    }
}

pub const NAMES: &[&str] = &[
    "ci0", "ci1", "cim1", "cimin", "cimax", "ci31", "ci32", "ci7", "cu0", "cu1", "cumax", "cu31", "cu32", "cu231", "cu5", "cbt", "cbf", "cf15",
    "cfneg", "cfbig", "cfhuge", "cftiny", "ch05", "cd", "cdneg",
];
const ENUMS: &[&str] = &["EA", "EB", "EC"];
const INT_LITS: &[u64] = &[0, 1, 2, 3, 5, 31, 32, 33, 63, 64, 127, 128, 255, 2147483647, 2147483648, 4294967295, 4294967296, 9223372036854775807, 9223372036854775808, 18446744073709551615];
const UINT_LITS: &[u32] = &[0, 1, 2, 31, 32, 33, 2147483647, 2147483648, 4294967295];
const FLT_LITS: &[&str] = &["0.0", "1.0", "0.5", "2.5", "1.5f", "0.5h", "2.0L", "1e10", "1e30f", "3e9", "4294967296.0", "2147483648.0f", "0.99", "1e-30", "7.75L"];
const UNOPS: &[&str] = &["+", "-", "!", "~"];
const BINOPS: &[&str] = &["+", "-", "*", "/", "%", "<<", ">>", "&", "|", "^", "&&", "||", "<", "<=", ">", ">=", "==", "!="];
const CAST_TYS: &[&str] = &["bool", "int", "uint", "half", "float", "double", "E"];
const SIZEOF_TYS: &[&str] = &["bool", "int", "uint", "half", "float", "double", "E"];

// ---------------------------------------------------------------------------------------------
// reference semantics

fn is_int_like(v: &RV) -> bool {
    matches!(v, RV::Bool(_) | RV::Lit(_) | RV::I(_) | RV::U(_) | RV::Enum(_))
}

fn rank(v: &RV) -> u32 {
    match v {
        RV::Enum(_) => 0,
        RV::Bool(_) => 1,
        RV::Lit(_) => 2,
        RV::I(_) => 3,
        RV::U(_) => 4,
        RV::LitF(_) => 5,
        RV::H(_) => 6,
        RV::F(_) => 7,
        RV::D(_) => 8,
        _ => 99,
    }
}

fn f_to_i32(f: f64) -> Option<i32> {
    if f.is_nan() {
        return None;
    }
    let t = f.trunc();
    if t >= -2147483648.0 && t <= 2147483647.0 { Some(t as i32) } else { None }
}
fn f_to_u32(f: f64) -> Option<u32> {
    if f.is_nan() {
        return None;
    }
    let t = f.trunc();
    if t >= 0.0 && t <= 4294967295.0 { Some(t as u32) } else { None }
}

/// Convert to the type of `like` (only its variant matters).
fn convert(v: &RV, like: &RV) -> RV {
    if matches!(v, RV::Unspecified | RV::DivZero) {
        return v.clone();
    }
    // enum source: use the underlying int
    let v = match v {
        RV::Enum(x) if !matches!(like, RV::Enum(_)) => RV::I(*x),
        other => other.clone(),
    };
    match like {
        RV::Bool(_) => RV::Bool(match v {
            RV::Bool(b) => b,
            RV::Lit(x) => x != 0,
            RV::I(x) => x != 0,
            RV::U(x) => x != 0,
            RV::LitF(x) | RV::D(x) => x != 0.0,
            RV::H(x) | RV::F(x) => x != 0.0,
            _ => unreachable!(),
        }),
        RV::I(_) => match v {
            RV::Bool(b) => RV::I(b as i32),
            RV::Lit(x) => RV::I(x as i32),
            RV::I(x) => RV::I(x),
            RV::U(x) => RV::I(x as i32),
            RV::LitF(x) | RV::D(x) => f_to_i32(x).map(RV::I).unwrap_or(RV::Unspecified),
            RV::H(x) | RV::F(x) => f_to_i32(x as f64).map(RV::I).unwrap_or(RV::Unspecified),
            _ => unreachable!(),
        },
        RV::U(_) => match v {
            RV::Bool(b) => RV::U(b as u32),
            RV::Lit(x) => RV::U(x as u32),
            RV::I(x) => RV::U(x as u32),
            RV::U(x) => RV::U(x),
            RV::LitF(x) | RV::D(x) => f_to_u32(x).map(RV::U).unwrap_or(RV::Unspecified),
            RV::H(x) | RV::F(x) => f_to_u32(x as f64).map(RV::U).unwrap_or(RV::Unspecified),
            _ => unreachable!(),
        },
        RV::Lit(_) => match v {
            RV::Lit(x) => RV::Lit(x),
            RV::Bool(b) => RV::Lit(b as i128),
            _ => RV::Unspecified, // nothing converts *to* an untyped literal
        },
        RV::LitF(_) => match v {
            RV::LitF(x) => RV::LitF(x),
            RV::Lit(x) => RV::LitF(x as f64),
            RV::Bool(b) => RV::LitF(b as u8 as f64),
            RV::I(x) => RV::LitF(x as f64),
            RV::U(x) => RV::LitF(x as f64),
            _ => RV::Unspecified,
        },
        RV::H(_) | RV::F(_) => {
            let f = match v {
                RV::Bool(b) => b as u8 as f32,
                RV::Lit(x) => x as f32,
                RV::I(x) => x as f32,
                RV::U(x) => x as f32,
                RV::LitF(x) | RV::D(x) => x as f32,
                RV::H(x) | RV::F(x) => x,
                _ => unreachable!(),
            };
            if matches!(like, RV::H(_)) { RV::H(f) } else { RV::F(f) }
        }
        RV::D(_) => RV::D(match v {
            RV::Bool(b) => b as u8 as f64,
            RV::Lit(x) => x as f64,
            RV::I(x) => x as f64,
            RV::U(x) => x as f64,
            RV::LitF(x) | RV::D(x) => x,
            RV::H(x) | RV::F(x) => x as f64,
            _ => unreachable!(),
        }),
        RV::Enum(_) => match v {
            RV::Enum(x) => RV::Enum(x),
            other => match convert(&other, &RV::I(0)) {
                RV::I(x) => RV::Enum(x),
                o => o,
            },
        },
        _ => unreachable!(),
    }
}

fn type_proto(name: &str) -> RV {
    match name {
        "bool" => RV::Bool(false),
        "int" => RV::I(0),
        "uint" => RV::U(0),
        "half" => RV::H(0.0),
        "float" => RV::F(0.0),
        "double" => RV::D(0.0),
        "E" => RV::Enum(0),
        _ => panic!("type {}", name),
    }
}

pub struct EvalStats {
    pub interesting: bool, // wrapped, masked a shift, saturated or crossed a type boundary
}

fn arith_int(op: &str, a: i128, b: i128, st: &mut EvalStats, bits: Option<(bool, u32)>) -> RV {
    // bits = None: exact literal; Some((signed, 32))
    match bits {
        None => {
            let r = match op {
                "+" => a.checked_add(b),
                "-" => a.checked_sub(b),
                "*" => a.checked_mul(b),
                "/" => {
                    if b == 0 {
                        return RV::DivZero;
                    }
                    a.checked_div(b)
                }
                "%" => {
                    if b == 0 {
                        return RV::DivZero;
                    }
                    a.checked_rem(b)
                }
                "<<" => {
                    if !(0..127).contains(&b) {
                        None
                    } else {
                        let s = a << b;
                        if s >> b == a { Some(s) } else { None }
                    }
                }
                ">>" => {
                    if b < 0 {
                        None
                    } else if b >= 127 {
                        Some(if a < 0 { -1 } else { 0 })
                    } else {
                        Some(a >> b)
                    }
                }
                "&" => Some(a & b),
                "|" => Some(a | b),
                "^" => Some(a ^ b),
                _ => unreachable!(),
            };
            match r {
                Some(v) => RV::Lit(v),
                None => RV::Unspecified,
            }
        }
        Some((signed, _)) => {
            let wrap = |x: i128, st: &mut EvalStats| -> RV {
                if signed {
                    if x < i32::MIN as i128 || x > i32::MAX as i128 {
                        st.interesting = true;
                    }
                    RV::I(x as i32)
                } else {
                    if x < 0 || x > u32::MAX as i128 {
                        st.interesting = true;
                    }
                    RV::U(x as u32)
                }
            };
            match op {
                "+" => wrap(a + b, st),
                "-" => wrap(a - b, st),
                "*" => wrap(a * b, st),
                "/" => {
                    if b == 0 {
                        return RV::DivZero;
                    }
                    if signed && a == i32::MIN as i128 && b == -1 {
                        return RV::Unspecified;
                    }
                    wrap(a / b, st)
                }
                "%" => {
                    if b == 0 {
                        return RV::DivZero;
                    }
                    if signed && a == i32::MIN as i128 && b == -1 {
                        return RV::Unspecified;
                    }
                    wrap(a % b, st)
                }
                "<<" | ">>" => {
                    let count = (b as u32) & 31;
                    if !(0..32).contains(&b) {
                        st.interesting = true;
                    }
                    if op == "<<" {
                        if signed { RV::I((a as i32).wrapping_shl(count)) } else { RV::U((a as u32).wrapping_shl(count)) }
                    } else if signed {
                        RV::I((a as i32) >> count)
                    } else {
                        RV::U((a as u32) >> count)
                    }
                }
                "&" => wrap(a & b, st),
                "|" => wrap(if signed { ((a as i32) | (b as i32)) as i128 } else { ((a as u32) | (b as u32)) as i128 }, st),
                "^" => wrap(if signed { ((a as i32) ^ (b as i32)) as i128 } else { ((a as u32) ^ (b as u32)) as i128 }, st),
                _ => unreachable!(),
            }
        }
    }
}

fn as_i128(v: &RV) -> i128 {
    match v {
        RV::Bool(b) => *b as i128,
        RV::Lit(x) => *x,
        RV::I(x) => *x as i128,
        RV::U(x) => *x as i128,
        RV::Enum(x) => *x as i128,
        _ => unreachable!(),
    }
}

fn as_f64(v: &RV) -> f64 {
    match v {
        RV::LitF(x) | RV::D(x) => *x,
        RV::H(x) | RV::F(x) => *x as f64,
        _ => unreachable!(),
    }
}

pub fn eval(e: &CE, st: &mut EvalStats) -> RV {
    match e {
        CE::Int(v) => RV::Lit(*v as i128),
        CE::UInt(v) => RV::U(*v),
        CE::Flt(s) => {
            let (body, suffix) = match s.chars().last() {
                Some(c @ ('f' | 'h' | 'L')) => (&s[..s.len() - 1], Some(c)),
                _ => (s.as_str(), None),
            };
            let v: f64 = body.parse().unwrap();
            match suffix {
                None => RV::LitF(v),
                Some('f') => RV::F(v as f32),
                Some('h') => RV::H(v as f32),
                _ => RV::D(v),
            }
        }
        CE::Bool(b) => RV::Bool(*b),
        CE::Ref(n) | CE::EnumVal(n) => named(n),
        CE::SizeOf(t) => RV::U(match *t {
            "half" => 2,
            "double" => 8,
            _ => 4,
        }),
        CE::Cast(t, inner) => {
            let v = eval(inner, st);
            let r = convert(&v, &type_proto(t));
            if rank(&v) != rank(&r) {
                st.interesting = true;
            }
            r
        }
        CE::Un(op, inner) => {
            let v = eval(inner, st);
            if matches!(v, RV::Unspecified | RV::DivZero) {
                return v;
            }
            match *op {
                "+" => match v {
                    RV::Enum(_) => RV::Unspecified,
                    v => v,
                },
                "-" => match v {
                    RV::Lit(x) => x.checked_neg().map(RV::Lit).unwrap_or(RV::Unspecified),
                    RV::I(x) => {
                        if x == i32::MIN {
                            st.interesting = true;
                        }
                        RV::I(x.wrapping_neg())
                    }
                    RV::U(x) => {
                        st.interesting = true;
                        RV::U(x.wrapping_neg())
                    }
                    RV::LitF(x) => RV::LitF(-x),
                    RV::H(x) => RV::H(-x),
                    RV::F(x) => RV::F(-x),
                    RV::D(x) => RV::D(-x),
                    // unary minus on bool/enum: RSSL accepts it; HLSL gives no constant rule here
                    _ => RV::Unspecified,
                },
                "!" => match convert(&v, &RV::Bool(false)) {
                    RV::Bool(b) => RV::Bool(!b),
                    o => o,
                },
                "~" => match v {
                    RV::Lit(x) => RV::Lit(!x),
                    RV::I(x) => RV::I(!x),
                    RV::U(x) => RV::U(!x),
                    RV::Bool(b) => RV::I(!(b as i32)),
                    _ => RV::Unspecified,
                },
                _ => unreachable!(),
            }
        }
        CE::Bin(op, a, b) => {
            let va = eval(a, st);
            let vb = eval(b, st);
            if matches!(va, RV::DivZero) || matches!(vb, RV::DivZero) {
                return RV::DivZero;
            }
            if matches!(va, RV::Unspecified) || matches!(vb, RV::Unspecified) {
                return RV::Unspecified;
            }
            if *op == "&&" || *op == "||" {
                let (RV::Bool(x), RV::Bool(y)) = (convert(&va, &RV::Bool(false)), convert(&vb, &RV::Bool(false))) else { unreachable!() };
                return RV::Bool(if *op == "&&" { x && y } else { x || y });
            }
            // common type: the more significant operand; bool is remapped to int
            let mut target = if rank(&va) > rank(&vb) { va.clone() } else { vb.clone() };
            if matches!(target, RV::Bool(_)) {
                target = RV::I(0);
            }
            if rank(&va) != rank(&vb) {
                st.interesting = true;
            }
            let ca = convert(&va, &target);
            let cb = convert(&vb, &target);
            if matches!(ca, RV::Unspecified) || matches!(cb, RV::Unspecified) {
                return RV::Unspecified;
            }
            let is_cmp = matches!(*op, "<" | "<=" | ">" | ">=" | "==" | "!=");
            if is_int_like(&target) {
                let (x, y) = (as_i128(&ca), as_i128(&cb));
                if is_cmp {
                    return RV::Bool(match *op {
                        "<" => x < y,
                        "<=" => x <= y,
                        ">" => x > y,
                        ">=" => x >= y,
                        "==" => x == y,
                        _ => x != y,
                    });
                }
                let bits = match target {
                    RV::Lit(_) => None,
                    RV::U(_) => Some((false, 32)),
                    _ => Some((true, 32)),
                };
                let r = arith_int(op, x, y, st, bits);
                // E op E stays an enum value
                match (&target, r) {
                    (RV::Enum(_), RV::I(v)) => RV::Enum(v),
                    (_, r) => r,
                }
            } else {
                let (x, y) = (as_f64(&ca), as_f64(&cb));
                if is_cmp {
                    return RV::Bool(match *op {
                        "<" => x < y,
                        "<=" => x <= y,
                        ">" => x > y,
                        ">=" => x >= y,
                        "==" => x == y,
                        _ => x != y,
                    });
                }
                let single = matches!(target, RV::H(_) | RV::F(_));
                let r = match *op {
                    "+" => {
                        if single { (x as f32 + y as f32) as f64 } else { x + y }
                    }
                    "-" => {
                        if single { (x as f32 - y as f32) as f64 } else { x - y }
                    }
                    "*" => {
                        if single { (x as f32 * y as f32) as f64 } else { x * y }
                    }
                    "/" => {
                        if single { (x as f32 / y as f32) as f64 } else { x / y }
                    }
                    _ => return RV::Unspecified,
                };
                match target {
                    RV::LitF(_) => RV::LitF(r),
                    RV::H(_) => RV::H(r as f32),
                    RV::F(_) => RV::F(r as f32),
                    _ => RV::D(r),
                }
            }
        }
    }
}

// ---------------------------------------------------------------------------------------------
// rendering (with type repair so that the program is well-typed)

pub fn render_expr(e: &CE, out: &mut String) -> RV {
    // returns the reference value so that callers can repair operand types
    let mut st = EvalStats { interesting: false };
    match e {
        CE::Int(v) => out.push_str(&v.to_string()),
        CE::UInt(v) => {
            out.push_str(&v.to_string());
            out.push('u');
        }
        CE::Flt(s) => out.push_str(s),
        CE::Bool(b) => out.push_str(if *b { "true" } else { "false" }),
        CE::Ref(n) => out.push_str(n),
        CE::EnumVal(n) => {
            out.push_str("E::");
            out.push_str(n);
        }
        CE::SizeOf(t) => {
            out.push_str("sizeof(");
            out.push_str(t);
            out.push(')');
        }
        CE::Cast(t, inner) => {
            out.push('(');
            out.push_str(t);
            out.push_str(")(");
            render_expr(inner, out);
            out.push(')');
        }
        CE::Un(op, inner) => {
            out.push_str(op);
            out.push('(');
            render_expr(inner, out);
            out.push(')');
        }
        CE::Bin(op, a, b) => {
            out.push('(');
            render_expr(a, out);
            out.push_str(") ");
            out.push_str(op);
            out.push_str(" (");
            render_expr(b, out);
            out.push(')');
        }
    }
    eval(e, &mut st)
}

/// Rewrite the tree so that integer-only operators get integer operands and unary operators get
/// operands RSSL accepts (the type of a subtree is the type of its reference value).
fn repair(e: &CE) -> CE {
    fn ty_of(e: &CE) -> RV {
        // a type-only evaluation: values do not matter, variants do; Unspecified/DivZero need care
        fn go(e: &CE) -> RV {
            match e {
                CE::Int(_) => RV::Lit(0),
                CE::UInt(_) => RV::U(0),
                CE::Flt(s) => match s.chars().last() {
                    Some('f') => RV::F(0.0),
                    Some('h') => RV::H(0.0),
                    Some('L') => RV::D(0.0),
                    _ => RV::LitF(0.0),
                },
                CE::Bool(_) => RV::Bool(false),
                CE::Ref(n) | CE::EnumVal(n) => named(n),
                CE::SizeOf(_) => RV::U(0),
                CE::Cast(t, _) => type_proto(t),
                CE::Un(op, i) => {
                    let t = go(i);
                    match *op {
                        "!" => RV::Bool(false),
                        "~" => {
                            if matches!(t, RV::Bool(_)) {
                                RV::I(0)
                            } else {
                                t
                            }
                        }
                        _ => t,
                    }
                }
                CE::Bin(op, a, b) => {
                    if matches!(*op, "<" | "<=" | ">" | ">=" | "==" | "!=" | "&&" | "||") {
                        return RV::Bool(false);
                    }
                    let (ta, tb) = (go(a), go(b));
                    let t = if rank(&ta) > rank(&tb) { ta } else { tb };
                    if matches!(t, RV::Bool(_)) { RV::I(0) } else { t }
                }
            }
        }
        go(e)
    }
    match e {
        CE::Un(op, i) => {
            let i = repair(i);
            let t = ty_of(&i);
            let i = match *op {
                "~" if !is_int_like(&t) || matches!(t, RV::Enum(_)) => CE::Cast("int", Box::new(i)),
                "+" | "-" if matches!(t, RV::Enum(_) | RV::Bool(_)) => CE::Cast("int", Box::new(i)),
                _ => i,
            };
            CE::Un(op, Box::new(i))
        }
        CE::Bin(op, a, b) => {
            let (mut a, mut b) = (repair(a), repair(b));
            // RSSL has no conversion between an enum and an untyped literal: spell the enum as int there
            if !matches!(*op, "&&" | "||") {
                let (ta, tb) = (ty_of(&a), ty_of(&b));
                if matches!(ta, RV::Enum(_)) && matches!(tb, RV::Lit(_) | RV::LitF(_)) {
                    a = CE::Cast("int", Box::new(a));
                } else if matches!(tb, RV::Enum(_)) && matches!(ta, RV::Lit(_) | RV::LitF(_)) {
                    b = CE::Cast("int", Box::new(b));
                }
            }
            if matches!(*op, "<<" | ">>" | "&" | "|" | "^") {
                if !is_int_like(&ty_of(&a)) {
                    a = CE::Cast("int", Box::new(a));
                }
                if !is_int_like(&ty_of(&b)) {
                    b = CE::Cast("uint", Box::new(b));
                }
            }
            if *op == "%" {
                // float modulus is outside the operator set of the property
                if !is_int_like(&ty_of(&a)) {
                    a = CE::Cast("int", Box::new(a));
                }
                if !is_int_like(&ty_of(&b)) {
                    b = CE::Cast("int", Box::new(b));
                }
            }
            CE::Bin(op, Box::new(a), Box::new(b))
        }
        CE::Cast(t, i) => CE::Cast(t, Box::new(repair(i))),
        other => other.clone(),
    }
}

pub fn ce_strategy() -> impl Strategy<Value = CE> {
    let leaf = prop_oneof![
        4 => any::<u16>().prop_map(|r| CE::Int(*pick(INT_LITS, r))),
        2 => any::<u16>().prop_map(|r| CE::UInt(*pick(UINT_LITS, r))),
        2 => any::<u16>().prop_map(|r| CE::Flt(pick(FLT_LITS, r).to_string())),
        1 => any::<bool>().prop_map(CE::Bool),
        6 => any::<u16>().prop_map(|r| CE::Ref(*pick(NAMES, r))),
        1 => any::<u16>().prop_map(|r| CE::EnumVal(*pick(ENUMS, r))),
        1 => any::<u16>().prop_map(|r| CE::SizeOf(*pick(SIZEOF_TYS, r))),
    ];
    leaf.prop_recursive(5, 24, 2, |inner| {
        prop_oneof![
            6 => (any::<u16>(), inner.clone(), inner.clone()).prop_map(|(o, a, b)| CE::Bin(*pick(BINOPS, o), Box::new(a), Box::new(b))),
            2 => (any::<u16>(), inner.clone()).prop_map(|(o, a)| CE::Un(*pick(UNOPS, o), Box::new(a))),
            2 => (any::<u16>(), inner.clone()).prop_map(|(t, a)| CE::Cast(*pick(CAST_TYS, t), Box::new(a))),
        ]
    })
    .prop_map(|e| repair(&e))
}

// ---------------------------------------------------------------------------------------------
// observation

const SENTINEL: &str = "918273645";

fn parse_constant(s: &str) -> Option<RV> {
    let s = s.trim();
    let inner = |p: &str| -> Option<&str> { s.strip_prefix(p).and_then(|r| r.strip_suffix(')')) };
    if let Some(x) = inner("Bool(") {
        return Some(RV::Bool(x == "true"));
    }
    if let Some(x) = inner("IntLiteral(") {
        return x.parse().ok().map(RV::Lit);
    }
    if let Some(x) = inner("Int32(") {
        return x.parse().ok().map(RV::I);
    }
    if let Some(x) = inner("UInt32(") {
        return x.parse().ok().map(RV::U);
    }
    if let Some(x) = inner("FloatLiteral(") {
        return x.parse().ok().map(RV::LitF);
    }
    if let Some(x) = inner("Float16(") {
        return x.parse().ok().map(RV::H);
    }
    if let Some(x) = inner("Float32(") {
        return x.parse().ok().map(RV::F);
    }
    if let Some(x) = inner("Float64(") {
        return x.parse().ok().map(RV::D);
    }
    if let Some(x) = inner("Enum(") {
        let v = x.split_once(", ")?.1;
        return match parse_constant(v)? {
            RV::I(v) => Some(RV::Enum(v)),
            RV::U(v) => Some(RV::Enum(v as i32)),
            _ => None,
        };
    }
    None
}

fn same(a: &RV, b: &RV) -> bool {
    match (a, b) {
        (RV::LitF(x), RV::LitF(y)) | (RV::D(x), RV::D(y)) => x.to_bits() == y.to_bits() || (x.is_nan() && y.is_nan()) || (*x == 0.0 && *y == 0.0),
        (RV::H(x), RV::H(y)) | (RV::F(x), RV::F(y)) => x.to_bits() == y.to_bits() || (x.is_nan() && y.is_nan()) || (*x == 0.0 && *y == 0.0),
        _ => a == b,
    }
}

enum Obs {
    Value(RV),
    NotConstant,
    OtherError(String),
}

/// compile `void f() { assert_eval(<what>, SENTINEL); }` with extra declarations and read the value
fn observe(decls: &str, body_decls: &str, what: &str) -> Result<Obs, String> {
    let src = format!("{}{}void f() {{\n{}    assert_eval({}, {});\n}}\n", PRELUDE, decls, body_decls, what, SENTINEL);
    match compile_text(&src, Tgt::Dx)? {
        Ok(_) => Ok(Obs::Value(RV::Lit(918273645))),
        Err(msg) => {
            let first = msg.lines().next().unwrap_or("");
            if let Some(i) = first.find("but received value '") {
                let rest = &first[i + 20..];
                let val = rest.strip_suffix('\'').unwrap_or(rest);
                match parse_constant(val) {
                    Some(v) => Ok(Obs::Value(v)),
                    None => Ok(Obs::OtherError(format!("unparsable constant: {}", val))),
                }
            } else if first.contains("constant expression") || first.contains("not a constant") {
                Ok(Obs::NotConstant)
            } else {
                Ok(Obs::OtherError(first.to_string()))
            }
        }
    }
}

fn hlsl_of(src: &str) -> Result<Result<String, String>, String> {
    Ok(compile_text(src, Tgt::Dx)?.map(|p| pipeline_text(&p[0])))
}

fn int_after(text: &str, marker: &str) -> Option<i128> {
    let i = text.find(marker)? + marker.len();
    let rest = &text[i..];
    let rest = rest.trim_start();
    // optional cast prefix like (int)
    let rest = if rest.starts_with('(') { rest[rest.find(')')? + 1..].trim_start() } else { rest };
    let end = rest.find(|c: char| !(c.is_ascii_digit() || c == '-')).unwrap_or(rest.len());
    rest[..end].parse().ok()
}

pub fn check_expr(expr_text: &str, e: &CE) -> Verdict {
    let mut st = EvalStats { interesting: false };
    let want = eval(e, &mut st);
    let mut labels: Vec<String> = Vec::new();
    let fail = |sig: &str, detail: String| Verdict::fail(sig, format!("expression: {}\nreference: {:?}\n{}", expr_text, want, detail));

    // A: the value itself
    let got = match observe("", "", expr_text) {
        Err(p) => return Verdict::fail(format!("panic:{}", p), format!("expression: {}\nreference: {:?}", expr_text, want)),
        Ok(o) => o,
    };
    let value = match (&want, got) {
        (_, Obs::OtherError(m)) => return Verdict::Skip(format!("front end rejected: {}", normalise_panic(&m))),
        (RV::DivZero, Obs::NotConstant) => {
            labels.push("div_by_zero_rejected".into());
            return Verdict::pass(Some(hash_of(expr_text)), labels);
        }
        (RV::DivZero, Obs::Value(v)) => return fail("divzero:evaluated", format!("division or modulus by zero produced {:?}", v)),
        (_, Obs::NotConstant) => {
            labels.push("declined(not constant)".into());
            return Verdict::pass(None, labels);
        }
        (RV::Unspecified, Obs::Value(_)) => {
            labels.push("unspecified_by_hlsl(no-abort only)".into());
            return Verdict::pass(if st.interesting { Some(hash_of(expr_text)) } else { None }, labels);
        }
        (w, Obs::Value(v)) => {
            if !same(w, &v) {
                return fail("value:wrong", format!("compiler evaluated {:?}", v));
            }
            v
        }
    };
    labels.push(format!(
        "value_{}",
        match value {
            RV::Bool(_) => "bool",
            RV::Lit(_) => "literal_int",
            RV::I(_) => "int",
            RV::U(_) => "uint",
            RV::LitF(_) => "literal_float",
            RV::H(_) => "half",
            RV::F(_) => "float",
            RV::D(_) => "double",
            RV::Enum(_) => "enum",
            _ => "other",
        }
    ));

    // B: typed constant declarations (static const global and const local) convert to the declared type
    for (ty, proto) in [("int", RV::I(0)), ("uint", RV::U(0)), ("bool", RV::Bool(false)), ("float", RV::F(0.0)), ("double", RV::D(0.0))] {
        let expect = convert(&value, &proto);
        for local in [false, true] {
            let decl = format!("{}const {} kk = {};\n", if local { "    " } else { "static " }, ty, expr_text);
            let obs = if local { observe("", &decl, "kk") } else { observe(&decl, "", "kk") };
            match obs {
                Err(p) => return Verdict::fail(format!("panic:{}", p), format!("expression: {} in {}", expr_text, decl)),
                Ok(Obs::Value(v)) => {
                    if !matches!(expect, RV::Unspecified) && !same(&expect, &v) {
                        return fail(
                            if local { "position:const-local" } else { "position:static-const" },
                            format!("`{}` evaluated to {:?}, expected {:?}", decl.trim(), v, expect),
                        );
                    }
                    labels.push(if local { "pos_const_local".into() } else { "pos_static_const".into() });
                }
                Ok(Obs::NotConstant) => labels.push("pos_decl_declined".into()),
                Ok(Obs::OtherError(_)) => labels.push("pos_decl_rejected".into()),
            }
        }
    }

    // C: integer positions, observed in the emitted HLSL
    if is_int_like(&value) {
        let v = as_i128(&value);
        // array size
        if (1..=65536).contains(&v) {
            let src = format!("{}static int arr[{}];\n", PRELUDE, expr_text);
            match hlsl_of(&src) {
                Err(p) => return Verdict::fail(format!("panic:{}", p), format!("array size: {}", expr_text)),
                Ok(Ok(text)) => {
                    if int_after(&text, "arr[") != Some(v) {
                        return fail("position:array-size", format!("emitted: {}", text.lines().find(|l| l.contains("arr[")).unwrap_or("")));
                    }
                    labels.push("pos_array_size".into());
                }
                Ok(Err(m)) => return fail("position:array-size-rejected", m.lines().next().unwrap_or("").to_string()),
            }
        }
        // enum value and its implicit successor
        {
            let src = format!("{}enum Z {{ ZA = {}, ZB }};\n", PRELUDE, expr_text);
            let succ = match value {
                RV::U(x) => x.wrapping_add(1) as i128,
                RV::Lit(x) => x + 1,
                _ => (v as i32).wrapping_add(1) as i128,
            };
            match hlsl_of(&src) {
                Err(p) => return Verdict::fail(format!("panic:{}", p), format!("enum value: {}", expr_text)),
                Ok(Ok(text)) => {
                    let za = int_after(&text, "ZA =");
                    let zb = int_after(&text, "ZB =");
                    // the printed value is in the deduced underlying type (int or uint): compare modulo 2^32
                    let m = |x: i128| (x as u32) as i128;
                    if za.map(m) != Some(m(v)) || zb.map(m) != Some(m(succ)) {
                        return fail("position:enum-value", format!("emitted ZA = {:?}, ZB = {:?}; expected {} and {}", za, zb, v, succ));
                    }
                    labels.push("pos_enum_value".into());
                }
                Ok(Err(_)) => labels.push("pos_enum_rejected".into()),
            }
        }
        // case label
        if !matches!(value, RV::Bool(_) | RV::Enum(_)) {
            let src = format!("{}void g(int x) {{ switch (x) {{ case {}: break; default: break; }} }}\n", PRELUDE, expr_text);
            match hlsl_of(&src) {
                Err(p) => return Verdict::fail(format!("panic:{}", p), format!("case label: {}", expr_text)),
                Ok(Ok(text)) => {
                    if int_after(&text, "case ") != Some(v) {
                        return fail("position:case-label", format!("emitted: {}", text.lines().find(|l| l.contains("case ")).unwrap_or("")));
                    }
                    labels.push("pos_case_label".into());
                }
                Ok(Err(_)) => labels.push("pos_case_rejected".into()),
            }
        }
        // template value argument (uint parameter): the instance returns the converted value
        if !matches!(value, RV::Enum(_) | RV::Bool(_)) {
            let src = format!("{}template<uint N> uint tv() {{ return N; }}\nuint g() {{ return tv<{}>(); }}\n", PRELUDE, expr_text);
            match hlsl_of(&src) {
                Err(p) => return Verdict::fail(format!("panic:{}", p), format!("template argument: {}", expr_text)),
                Ok(Ok(text)) => {
                    let want_n = (v as u32) as i128;
                    // the instance may spell the value as `7u`, `(uint)7` or `(uint)-3`: compare modulo 2^32
                    let got_n = int_after(&text, "return ").map(|x| (x as u32) as i128);
                    if got_n != Some(want_n) {
                        return fail("position:template-argument", format!("instance returns {:?}, expected {}\n{}", got_n, want_n, text));
                    }
                    labels.push("pos_template_arg".into());
                }
                Ok(Err(_)) => labels.push("pos_template_rejected".into()),
            }
        }
        // numthreads attribute
        if (1..=1024).contains(&v) {
            let src = format!("{}[numthreads({}, 1, 1)] void cs() {{}}\nPipeline P {{ ComputeShader = cs; }}\n", PRELUDE, expr_text);
            let files = vec![("main.rssl".to_string(), src)];
            match compile(&CompileReq { files: &files, entry: "main.rssl", defines: &[], tgt: Tgt::Dx, mode: Mode::All, validate_layout: false }) {
                Err(p) => return Verdict::fail(format!("panic:{}", p), format!("numthreads: {}", expr_text)),
                Ok(Ok(p)) => {
                    let got_n = p[0].stages.first().and_then(|s| s.thread_group_size).map(|t| t.0 as i128);
                    if got_n != Some(v) {
                        return fail("position:numthreads", format!("thread group size {:?}, expected {}", got_n, v));
                    }
                    labels.push("pos_numthreads".into());
                }
                Ok(Err(_)) => labels.push("pos_numthreads_rejected".into()),
            }
        }
    }
    Verdict::pass(if st.interesting { Some(hash_of(expr_text)) } else { None }, labels)
}

fn ce_json(e: &CE) -> Value {
    match e {
        CE::Int(v) => json!({"i": v.to_string()}),
        CE::UInt(v) => json!({"u": v}),
        CE::Flt(s) => json!({"f": s}),
        CE::Bool(b) => json!({"bool": b}),
        CE::Ref(n) => json!({"r": n}),
        CE::EnumVal(n) => json!({"e": n}),
        CE::SizeOf(t) => json!({"sizeof": t}),
        CE::Un(o, a) => json!({"un": o, "a": ce_json(a)}),
        CE::Bin(o, a, b) => json!({"bin": o, "a": ce_json(a), "b": ce_json(b)}),
        CE::Cast(t, a) => json!({"cast": t, "a": ce_json(a)}),
    }
}

fn intern(list: &[&'static str], s: &str) -> &'static str {
    list.iter().find(|x| **x == s).copied().unwrap_or(list[0])
}

fn ce_from(v: &Value) -> CE {
    if let Some(x) = v.get("i") {
        return CE::Int(x.as_str().and_then(|s| s.parse().ok()).unwrap_or(0));
    }
    if let Some(x) = v.get("u") {
        return CE::UInt(x.as_u64().unwrap_or(0) as u32);
    }
    if let Some(x) = v.get("f") {
        return CE::Flt(x.as_str().unwrap_or("0.0").to_string());
    }
    if let Some(x) = v.get("bool") {
        return CE::Bool(x.as_bool().unwrap_or(false));
    }
    if let Some(x) = v.get("r") {
        return CE::Ref(intern(NAMES, x.as_str().unwrap_or("")));
    }
    if let Some(x) = v.get("e") {
        return CE::EnumVal(intern(ENUMS, x.as_str().unwrap_or("")));
    }
    if let Some(x) = v.get("sizeof") {
        return CE::SizeOf(intern(SIZEOF_TYS, x.as_str().unwrap_or("")));
    }
    if let Some(x) = v.get("un") {
        return CE::Un(intern(UNOPS, x.as_str().unwrap_or("")), Box::new(ce_from(&v["a"])));
    }
    if let Some(x) = v.get("bin") {
        return CE::Bin(intern(BINOPS, x.as_str().unwrap_or("")), Box::new(ce_from(&v["a"])), Box::new(ce_from(&v["b"])));
    }
    if let Some(x) = v.get("cast") {
        return CE::Cast(intern(CAST_TYS, x.as_str().unwrap_or("")), Box::new(ce_from(&v["a"])));
    }
    CE::Int(0)
}

/// enumerators initialised from the enumerators of another enum (alias, or, and, xor, complement): the constant the
/// target enumerator gets must be the value of the source expression in the source enum's underlying type, which is
/// uint as soon as one enumerator does not fit int
const ENUM_SPELLINGS: &[(&str, i128)] = &[("0", 0), ("1", 1), ("5", 5), ("-3", -3), ("2147483647", 2147483647), ("2147483648u", 2147483648), ("4294967295u", 4294967295), ("0x80000000u", 2147483648), ("7u", 7), ("-2147483647 - 1", -2147483648)];
const ENUM_FORMS: &[&str] = &["S1", "S0", "S0 | S1", "S0 & S1", "S0 ^ S1", "~S1"];

fn check_enum_alias(a: usize, b: usize, form: usize) -> Verdict {
    let (ta, va) = ENUM_SPELLINGS[a % ENUM_SPELLINGS.len()];
    let (tb, vb) = ENUM_SPELLINGS[b % ENUM_SPELLINGS.len()];
    let f = ENUM_FORMS[form % ENUM_FORMS.len()];
    let src = format!("enum Src {{ S0 = {}, S1 = {} }};\nenum Dst {{ D0 = {}, D1 }};\n", ta, tb, f);
    // reference: the source enum is uint-backed when a value exceeds INT_MAX, int-backed otherwise; a negative value next to
    // one above INT_MAX is rejected or wraps - not modelled
    let unsigned = va > i32::MAX as i128 || vb > i32::MAX as i128;
    if unsigned && (va < 0 || vb < 0) {
        return Verdict::Skip("enum with negative and large values".into());
    }
    let mask = |x: i128| if unsigned { (x as u32) as i128 } else { (x as i32) as i128 };
    let want = mask(match form % ENUM_FORMS.len() {
        0 => vb,
        1 => va,
        2 => va | vb,
        3 => va & vb,
        4 => va ^ vb,
        _ => !vb,
    });
    match hlsl_of(&src) {
        Err(p) => Verdict::fail(format!("panic:{}", p), src),
        Ok(Err(m)) => Verdict::Skip(format!("front end rejected: {}", normalise_panic(m.lines().next().unwrap_or("")))),
        Ok(Ok(text)) => {
            let got = int_after(&text, "D0 =");
            if got != Some(want) {
                return Verdict::fail("position:enumerator-from-enum", format!("D0 = {} should have the value {} ({} source enum) but the emitted text says {:?}\n--- source\n{}--- emitted\n{}", f, want, if unsigned { "uint-backed" } else { "int-backed" }, got, src, text));
            }
            Verdict::pass(Some(hash_of(&src)), vec!["pos_enumerator_from_enum".into(), if unsigned { "enum_uint_backed".into() } else { "enum_int_backed".into() }])
        }
    }
}

pub fn check_record(rec: &Value) -> Verdict {
    if rec["kind"].as_str() == Some("enum_alias") {
        return check_enum_alias(rec["a"].as_u64().unwrap_or(0) as usize, rec["b"].as_u64().unwrap_or(0) as usize, rec["form"].as_u64().unwrap_or(0) as usize);
    }
    let e = ce_from(&rec["expr"]);
    let mut text = String::new();
    render_expr(&e, &mut text);
    check_expr(&text, &e)
}

pub fn run(ctx: &mut Ctx) {
    ctx.rule = "Constant expression trees to depth 5 over unary + - ! ~, binary + - * / % << >> & | ^ && || < <= > >= == !=, casts between bool/int/uint/half/float/double/enum, sizeof, references to static const globals and enum values, with leaves from the boundary set (0, 1, -1, INT_MIN, INT_MAX, UINT_MAX, 31, 32, 2^31, 2^32, 2^63, 2^64-1, large/small floats) in every scalar type and as untyped literals. The value is read from the diagnostic of `assert_eval(e, sentinel)` and must equal the reference evaluation (type and value); it is then placed in static const / const local declarations of five types, array size, enum value with implicit successor, case label, template value argument and [numthreads], and read back from the emitted HLSL / stage metadata. Exhaustively: enumerators initialised from the enumerators of another enum (alias, |, &, ^, ~) over 10 x 10 boundary values incl. uint-backed enums, read back from the emitted enum definition. Non-trivial = the reference evaluation wraps, masks a shift count, or crosses a type boundary. Distinct = expression text. The compiler declining to fold (\"not a constant expression\") is allowed and counted; division/modulus by zero must be declined; a panic is a violation.".into();
    ctx.assumptions.push("trusted: the reference evaluator in harness/src/c13.rs; operand typing follows RSSL's documented order bool < literal int < int < uint < literal float < half < float < double (enum lowest, bool remapped to int)".into());
    ctx.assumptions.push("half constants are held in single precision, as the compiler does; out-of-range float->int, INT_MIN / -1, INT_MIN % -1, unary minus on bool, and literal results that do not fit 128 bits are left unspecified (any value accepted, abort not accepted)".into());
    if !ctx.replay_tier(&check_record) {
        return;
    }
    {
        let (n, f) = (ENUM_SPELLINGS.len() as u64, ENUM_FORMS.len() as u64);
        let make = move |i: u64| json!({"kind": "enum_alias", "a": i % n, "b": (i / n) % n, "form": i / n / n});
        ctx.run_enum("enumerators_from_enumerators", n * n * f, true, make, |i| check_record(&make(i)));
    }
    ctx.run_prop(
        "random_constant_expressions",
        ctx.tier.pick(30_000, 1_000_000),
        ce_strategy,
        |e: &CE| {
            let mut text = String::new();
            render_expr(e, &mut text);
            json!({"expr": ce_json(e), "text": text})
        },
        check_record,
    );
    for l in ["value_int", "value_uint", "value_bool", "value_literal_int", "div_by_zero_rejected", "pos_array_size", "pos_enum_value", "pos_case_label", "pos_template_arg", "pos_static_const", "pos_const_local"] {
        ctx.require_label(l, 10);
    }
}

pub fn debug_samples() {
    for e in sample_strategy(&ce_strategy(), 7, 40) {
        let mut t = String::new();
        render_expr(&e, &mut t);
        let mut st = EvalStats { interesting: false };
        println!("{}   => {:?}", t, eval(&e, &mut st));
    }
}
