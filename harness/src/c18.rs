//! C18 — targets agree on everything that is target-independent.

use crate::common::*;
use crate::progen;
use proptest::prelude::*;
use serde_json::{Value, json};

const INJECTIONS: &[&str] = &[
    "    undefined_symbol_zz = 1;\n",
    "    int bad_decl_zz = undefined_fn_zz(3);\n",
    "    float3 bad_vec_zz = float3(1.0, 2.0);\n",
    "    return return;\n",
    "    int q_zz = ;\n",
    "    1 = 2;\n",
    "    const int c_zz = 1; c_zz = 2;\n",
    "    struct_that_does_not_exist_zz v_zz;\n",
];

/// insert one erroneous statement at the start of the k-th function body found in the text
fn inject(src: &str, which: usize, site: usize) -> Option<String> {
    let mut sites = Vec::new();
    let mut from = 0;
    while let Some(i) = src[from..].find(") {\n") {
        sites.push(from + i + 4);
        from += i + 4;
    }
    if sites.is_empty() {
        return None;
    }
    let at = sites[site % sites.len()];
    let mut s = src.to_string();
    s.insert_str(at, INJECTIONS[which % INJECTIONS.len()]);
    Some(s)
}

fn strip_annotations(text: &str) -> String {
    // delete `: register(...)`, `[[vk::...]]` attributes and the SPIR-V only mesh attributes
    let mut out = String::new();
    for line in text.lines() {
        let mut l = line.to_string();
        while let Some(i) = l.find(" : register(") {
            let j = l[i..].find(')').map(|j| i + j + 1).unwrap_or(l.len());
            l.replace_range(i..j, "");
        }
        while let Some(i) = l.find("[[vk::") {
            let j = l[i..].find("]]").map(|j| i + j + 2).unwrap_or(l.len());
            let j = if l[j..].starts_with(' ') { j + 1 } else { j };
            l.replace_range(i..j, "");
        }
        out.push_str(l.trim_end());
        out.push('\n');
    }
    out
}

pub fn check_record(rec: &Value) -> Verdict {
    let src = rec["source"].as_str().unwrap_or("");
    let has_ba = src.contains("BufferAddress");
    let files = vec![("main.rssl".to_string(), src.to_string())];
    let mut results = Vec::new();
    for tgt in Tgt::ALL4 {
        let r = compile(&CompileReq { files: &files, entry: "main.rssl", defines: &[], tgt, mode: Mode::All, validate_layout: false });
        match r {
            Err(p) => return Verdict::fail(format!("panic:{}", p), format!("target {}\n{}", tgt.name(), src)),
            Ok(r) => results.push((tgt, r)),
        }
    }
    let fail = |sig: &str, d: String| Verdict::fail(sig, format!("{}\n--- source\n{}", d, src));
    let mut labels = Vec::new();
    // front-end verdict and diagnostic identical on all targets
    let fe: Vec<(Tgt, Option<&String>)> = results.iter().map(|(t, r)| (*t, r.as_ref().err().filter(|e| !is_backend_error(e)))).collect();
    if fe.iter().any(|x| x.1.is_some()) {
        let first = fe[0].1;
        for (t, e) in &fe {
            if *e != first {
                return fail("front-end-verdict-differs", format!("{}: {:?}\n{}: {:?}", fe[0].0.name(), first, t.name(), e));
            }
        }
        labels.push("rejected_by_front_end".into());
        let injected_late = rec["injected"].as_bool().unwrap_or(false);
        return Verdict::pass(if injected_late { Some(hash_of(src)) } else { None }, labels);
    }
    // DirectX and Vulkan succeed or fail together
    let ok = |t: Tgt| results.iter().find(|x| x.0 == t).unwrap().1.as_ref();
    if ok(Tgt::Dx).is_ok() != ok(Tgt::Vk).is_ok() {
        return fail("dx-vk-verdict-differs", format!("dx: {:?}\nvk: {:?}", ok(Tgt::Dx).err(), ok(Tgt::Vk).err()));
    }
    if let (Ok(dx), Ok(vk)) = (ok(Tgt::Dx), ok(Tgt::Vk)) {
        if !has_ba {
            for (a, b) in dx.iter().zip(vk.iter()) {
                let (ta, tb) = (strip_annotations(&pipeline_text(a)), strip_annotations(&pipeline_text(b)));
                if ta != tb {
                    let diff = ta.lines().zip(tb.lines()).find(|(x, y)| x != y).map(|(x, y)| format!("dx: {}\nvk: {}", x, y)).unwrap_or_else(|| "different line counts".into());
                    // SPIR-V only attributes on mesh outputs are allowed to differ
                    if !diff.contains("[[vk::") && !diff.contains("SV_") {
                        return fail("dx-vk-text-differs", diff);
                    }
                    labels.push("dx_vk_differ_in_mesh_attributes".into());
                }
            }
        }
    }
    // stages, state and binding sets agree across all successful targets
    let mut reference: Option<(Tgt, Vec<String>)> = None;
    let mut n_ok = 0;
    for (t, r) in &results {
        let Ok(ps) = r else {
            labels.push(format!("backend_rejected_{}", t.name()));
            continue;
        };
        n_ok += 1;
        let mut summary = Vec::new();
        for p in ps {
            let stages: Vec<String> = p.stages.iter().map(|s| format!("{:?}/{:?}", s.stage, s.thread_group_size)).collect();
            let mut binds: Vec<String> = Vec::new();
            for bg in &p.metadata.bind_groups {
                for b in &bg.bindings {
                    let is_addr = matches!(b.descriptor_type, rssl::DescriptorType::BufferAddress | rssl::DescriptorType::RwBufferAddress);
                    if b.static_sampler.is_some() || is_addr {
                        continue;
                    }
                    binds.push(format!("{}:{:?}:{:?}", b.name, b.descriptor_type, b.descriptor_count));
                }
            }
            binds.sort();
            summary.push(format!("stages {:?} state {:?} bindings {:?}", stages, p.graphics_pipeline_state, binds));
        }
        match &reference {
            None => reference = Some((*t, summary)),
            Some((t0, s0)) => {
                if *s0 != summary {
                    let d = s0.iter().zip(summary.iter()).find(|(a, b)| a != b).map(|(a, b)| format!("{}: {}\n{}: {}", t0.name(), a, t.name(), b)).unwrap_or_else(|| format!("{} vs {} pipelines", s0.len(), summary.len()));
                    return fail("targets-disagree", d);
                }
            }
        }
    }
    labels.push(format!("targets_ok_{}", n_ok));
    let nres = src.matches("res_").count();
    Verdict::pass(if n_ok >= 2 && nres >= 2 { Some(hash_of(src)) } else { None }, labels)
}

pub fn run(ctx: &mut Ctx) {
    ctx.rule = "Generated programs with resources of every kind and 1-3 pipelines, accepted and with one injected front-end error (undefined symbol, wrong constructor arity, parse errors, assignment to rvalue/const, unknown type), compiled for {DirectX, Vulkan, Vulkan+buffer addresses, Metal}; none mentions RSSL_TARGET_*; some declare a constant buffer without members (empty, or emptied by #if 0). Checked: a diagnostic that is not a back-end diagnostic (hlsl/metal generate/format prefix) is the identical string on all targets; DirectX and Vulkan succeed or fail together; without buffer addresses their texts are equal after deleting `: register(...)` and `[[vk::...]]`; all successful targets report the same (stage, thread-group size) list, pipeline state and set of (binding name, descriptor type, count) apart from static samplers and buffer addresses. Non-trivial = at least 2 targets succeed on a program with >= 2 resource uses, or the error was injected after >= 1 valid declaration. Distinct = hash of the source.".into();
    if !ctx.replay_tier(&check_record) {
        return;
    }
    ctx.run_prop(
        "generated_programs_all_targets",
        ctx.tier.pick(3_000, 80_000),
        || (progen::choices_strategy(500), 0u8..4, any::<u16>(), any::<u16>()),
        |(ch, inj, which, site): &(Vec<u32>, u8, u16, u16)| {
            let (_p, mut text, _) = progen::generate(ch, progen::Profile::full());
            // predefined macros other than RSSL_TARGET_* are part of the target-independent input
            if *site % 8 == 1 {
                text.insert_str(0, "#if __HLSL_VERSION < 2021 || !defined(RSSL_TARGET_HLSL) || !defined(RSSL_TARGET_MSL)\nthis text must never reach the parser;\n#endif\n");
            }
            if *site % 4 == 0 {
                text.insert_str(0, "#if __HLSL_VERSION >= 2021\nstatic const uint hlsl_version_zz = __HLSL_VERSION;\n#endif\n");
            }
            // a constant buffer without members: written empty, or emptied by conditional compilation
            match *site % 7 {
                2 => text.insert_str(0, "cbuffer EmptyCB_zz {\n}\n"),
                3 => text.insert_str(0, "cbuffer DebugCB_zz {\n#if 0\n    float4 debug_zz;\n#endif\n}\n"),
                _ => {}
            }
            if *inj == 0 {
                if let Some(t) = inject(&text, *which as usize, *site as usize) {
                    return json!({"source": t, "injected": true});
                }
            }
            json!({"source": text, "injected": false})
        },
        check_record,
    );
    for l in ["rejected_by_front_end", "targets_ok_4", "targets_ok_3"] {
        ctx.require_label(l, 20);
    }
}
