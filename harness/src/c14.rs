//! C14 — layout trivia never changes results and diagnostics track source positions.

use crate::common::*;
use crate::progen;
use proptest::prelude::*;
use serde_json::{Value, json};

const TRIVIA: &[&str] = &[" ", "  ", "\t", "\n", "\n\n", " // note\n", " /* c */ ", " /* a\n b */ ", " \\\n", "\r\n", " \\\r\n ",
    // comments whose text begins or ends with the delimiter characters
    " /*/ a */ ", " /*/*/ ", " /***/ ", " /**/ ", " /* /* */ ", " /*//*/ ", " /*/\n*/ ", " /* a **/ ", " /* \" */ ", " /* ' */ ", " // */\n", " // /*\n", " /// \"\n", " /* *//**/ ",
];
const PRE_DIRECTIVE: &[&str] = &[" ", "\t", "/* c */ ", "/**/", "/* a\n b */ ", " \\\n", "/*/ */\t", "  /* x */  /* y */ "];
const HTRIVIA: &[&str] = &[" ", "  ", "\t", " \\\n ", "\t\t", " /* h */ ", "/**/", " /* a */\t/* b */ ", " \\\n\t/* after a splice */ "];
/// at the end of a directive line, in front of the line break
const DIRECTIVE_END: &[&str] = &[" ", "\t", " /* t */", " // t", " \\\n", "/* a */ /* b */", "/**/", " // t /* u */"];

/// Insert trivia at token boundaries. Boundaries: every existing blank or newline (replaced by a
/// trivia string that still separates), and both sides of ( ) [ ] { } ; , which never merge with
/// a neighbour. Not touched: directly after `<` or `>`, between a macro name and `(` on #define
/// lines; directive lines only get horizontal trivia and splices between their tokens.
fn add_trivia(text: &str, picks: &[u8]) -> (String, usize, usize) {
    let mut out = String::with_capacity(text.len() * 2);
    let mut k = 0usize;
    let mut used = 0usize;
    let mut kinds = [false; 32];
    let mut next = |pool: &[&'static str], kinds: &mut [bool; 32], used: &mut usize| -> Option<&'static str> {
        let p = picks[k % picks.len()];
        k += 1;
        if p % 3 != 0 {
            return None;
        }
        let i = (p as usize / 3) % pool.len();
        *used += 1;
        kinds[i] = true;
        Some(pool[i])
    };
    for line in text.split_inclusive('\n') {
        let directive = line.trim_start().starts_with('#');
        let bytes = line.as_bytes();
        let mut i = 0;
        let mut prev = b'\n';
        let mut seen_define_name = false;
        if directive {
            // in front of the `#`: blanks, comments (also ending on this line after starting on an earlier one) and a
            // line splice still leave it a directive
            if let Some(t) = next(PRE_DIRECTIVE, &mut kinds, &mut used) {
                out.push_str(t);
            }
        }
        while i < bytes.len() {
            let c = bytes[i];
            let after_angle = prev == b'<' || prev == b'>';
            if directive {
                if c == b' ' && !after_angle {
                    // `#define NAME(` : nothing may be inserted before the parameter list; `#define NAME value`: fine
                    match next(HTRIVIA, &mut kinds, &mut used) {
                        Some(t) => out.push_str(t),
                        None => out.push(' '),
                    }
                } else if c == b'\n' && !after_angle && prev != b'\\' {
                    // blanks, comments or a splice between the last token of the directive and the line break
                    if let Some(t) = next(DIRECTIVE_END, &mut kinds, &mut used) {
                        out.push_str(t);
                    }
                    out.push('\n');
                } else {
                    out.push(c as char);
                }
                let _ = &mut seen_define_name;
            } else if (c == b' ' || c == b'\n') && !after_angle {
                match next(TRIVIA, &mut kinds, &mut used) {
                    Some(t) => {
                        out.push_str(t);
                        // a line comment or splice must not swallow what follows: they end in a newline already;
                        // keep the original newline so that the line structure of directive detection is stable
                        if c == b'\n' && (!t.ends_with('\n') || t.ends_with("\\\n") || t.ends_with("\\\r\n")) {
                            out.push('\n');
                        }
                    }
                    None => out.push(c as char),
                }
            } else if matches!(c, b'(' | b')' | b'[' | b']' | b'{' | b'}' | b';' | b',') && !after_angle {
                if let Some(t) = next(TRIVIA, &mut kinds, &mut used) {
                    out.push_str(t);
                }
                out.push(c as char);
                if let Some(t) = next(TRIVIA, &mut kinds, &mut used) {
                    out.push_str(t);
                }
            } else {
                out.push(c as char);
            }
            prev = c;
            i += 1;
        }
    }
    (out, used, kinds.iter().filter(|x| **x).count())
}

fn first_line(msg: &str) -> &str {
    msg.lines().next().unwrap_or("")
}

/// (file, line, col, message) of `file:line:col: error: message`, or (None, message)
fn parse_diag(msg: &str) -> (Option<(String, u32, u32)>, String) {
    let l = first_line(msg);
    if let Some(i) = l.find(": error: ") {
        let (loc, m) = (&l[..i], &l[i + 9..]);
        let parts: Vec<&str> = loc.rsplitn(3, ':').collect();
        if parts.len() == 3 {
            if let (Ok(col), Ok(line)) = (parts[0].parse(), parts[1].parse()) {
                return (Some((parts[2].to_string(), line, col)), m.to_string());
            }
        }
        return (None, m.to_string());
    }
    (None, l.trim_start_matches("error: ").to_string())
}

fn files_of(rec: &Value) -> Vec<(String, String)> {
    rec["files"].as_array().map(|a| a.iter().map(|f| (f[0].as_str().unwrap_or("").to_string(), f[1].as_str().unwrap_or("").to_string())).collect()).unwrap_or_default()
}

fn run_files(files: &[(String, String)], tgt: Tgt) -> Result<Result<Vec<String>, String>, String> {
    let r = compile(&CompileReq { files, entry: "main.rssl", defines: &[], tgt, mode: Mode::NoPipeline, validate_layout: false })?;
    Ok(result_snapshot(&r))
}

pub fn check_record(rec: &Value) -> Verdict {
    let files = files_of(rec);
    let tgt = Tgt::from_name(rec["tgt"].as_str().unwrap_or("dx"));
    let picks: Vec<u8> = rec["picks"].as_array().map(|a| a.iter().map(|x| x.as_u64().unwrap_or(0) as u8).collect()).unwrap_or_else(|| vec![0]);
    let picks = if picks.is_empty() { vec![0] } else { picks };
    let show = |fs: &[(String, String)]| fs.iter().map(|(n, c)| format!("--- {}\n{}", n, c)).collect::<Vec<_>>().join("\n");
    let base = match run_files(&files, tgt) {
        Err(p) => return Verdict::fail(format!("panic:{}", p), show(&files)),
        Ok(r) => r,
    };
    let mut labels = vec![if base.is_ok() { "accepted".to_string() } else { "rejected".to_string() }];
    let mut max_used = 0;
    let mut max_kinds = 0;
    // trivia variants
    for v in 0..6u8 {
        let rotated: Vec<u8> = picks.iter().map(|p| p.wrapping_add(v.wrapping_mul(37))).collect();
        let mut vf = Vec::new();
        for (n, c) in &files {
            let (t, used, kinds) = add_trivia(c, &rotated);
            max_used = max_used.max(used);
            max_kinds = max_kinds.max(kinds);
            vf.push((n.clone(), t));
        }
        let r = match run_files(&vf, tgt) {
            Err(p) => return Verdict::fail(format!("panic:{}", p), show(&vf)),
            Ok(r) => r,
        };
        match (&base, &r) {
            (Ok(a), Ok(b)) => {
                if a != b {
                    let d = a.iter().zip(b.iter()).flat_map(|(x, y)| x.lines().zip(y.lines())).find(|(x, y)| x != y).map(|(x, y)| format!("original: {}\nvariant : {}", x, y)).unwrap_or_default();
                    return Verdict::fail("trivia:output-changed", format!("{}\n=== original\n{}\n=== variant\n{}", d, show(&files), show(&vf)));
                }
            }
            (Err(a), Err(b)) => {
                let (_, ma) = parse_diag(a);
                let (_, mb) = parse_diag(b);
                if ma != mb {
                    return Verdict::fail("trivia:diagnostic-changed", format!("original: {}\nvariant : {}\n=== original\n{}\n=== variant\n{}", first_line(a), first_line(b), show(&files), show(&vf)));
                }
            }
            (a, b) => {
                return Verdict::fail(
                    "trivia:verdict-changed",
                    format!("original: {}\nvariant : {}\n=== original\n{}\n=== variant\n{}", a.as_ref().err().map(|e| first_line(e)).unwrap_or("accepted"), b.as_ref().err().map(|e| first_line(e)).unwrap_or("accepted"), show(&files), show(&vf)),
                );
            }
        }
    }
    // k-line variants for located diagnostics
    let mut located = false;
    if let Err(e) = &base {
        if let (Some((file, line, col)), msg) = parse_diag(e) {
            located = true;
            for k in [1u32, 2, 7, 50] {
                for style in 0..3 {
                    let pad: String = (0..k)
                        .map(|i| match (style, i % 2) {
                            (0, _) | (1, 0) => "\n",
                            (1, _) => "// pad\n",
                            (_, 0) => "\r\n",
                            _ => "/* pad */ \r\n",
                        })
                        .collect();
                    // (1) lines inserted at the top of the file that holds the error
                    let mut vf = files.clone();
                    for f in vf.iter_mut() {
                        if f.0 == file {
                            f.1.insert_str(0, &pad);
                        }
                    }
                    let r = match run_files(&vf, tgt) {
                        Err(p) => return Verdict::fail(format!("panic:{}", p), show(&vf)),
                        Ok(r) => r,
                    };
                    let ok = match &r {
                        Err(e2) => {
                            let (l2, m2) = parse_diag(e2);
                            l2 == Some((file.clone(), line + k, col)) && m2 == msg
                        }
                        Ok(_) => false,
                    };
                    if !ok {
                        return Verdict::fail(
                            "position:k-lines",
                            format!("{} lines inserted at the top of {}\noriginal: {}\nvariant : {}\n=== original\n{}", k, file, first_line(e), r.as_ref().err().map(|x| first_line(x)).unwrap_or("accepted"), show(&files)),
                        );
                    }
                    // (2) lines inserted in another file leave the position alone
                    if files.len() > 1 {
                        let mut vf = files.clone();
                        for f in vf.iter_mut() {
                            if f.0 != file && f.0 != "main.rssl" {
                                f.1.push_str(&pad);
                            }
                        }
                        if file != "main.rssl" {
                            // padding main before the #include line must not move a diagnostic inside the include
                            for f in vf.iter_mut() {
                                if f.0 == "main.rssl" {
                                    f.1.insert_str(0, &pad);
                                }
                            }
                        }
                        let r = match run_files(&vf, tgt) {
                            Err(p) => return Verdict::fail(format!("panic:{}", p), show(&vf)),
                            Ok(r) => r,
                        };
                        let ok = match &r {
                            Err(e2) => {
                                let (l2, m2) = parse_diag(e2);
                                let expect_line = line;
                                l2 == Some((file.clone(), expect_line, col)) && m2 == msg
                            }
                            Ok(_) => false,
                        };
                        if !ok && file != "main.rssl" {
                            return Verdict::fail(
                                "position:include-file",
                                format!("{} lines inserted outside {}\noriginal: {}\nvariant : {}\n=== original\n{}", k, file, first_line(e), r.as_ref().err().map(|x| first_line(x)).unwrap_or("accepted"), show(&files)),
                            );
                        }
                    }
                }
            }
            labels.push(if file == "main.rssl" { "diag_in_main".into() } else { "diag_in_include".into() });
        } else {
            labels.push("diag_without_location".into());
        }
    }
    let nontrivial = max_used >= 10 && max_kinds >= 3 && (base.is_ok() || located);
    Verdict::pass(if nontrivial { Some(hash_of(&rec.to_string())) } else { None }, labels)
}

const ERRORS: &[&str] = &[
    "    undefined_symbol_zz = 1;\n",
    "    int bad_zz = undefined_fn_zz(3);\n",
    "    float3 bad_vec_zz = float3(1.0, 2.0);\n",
    "    int q_zz = ;\n",
    "    1 = 2;\n",
    "    const int c_zz = 1; c_zz = 2;\n",
    "    unknown_type_zz v_zz;\n",
    "    BAD_MACRO_ZZ;\n",
];

fn make_record(ch: &[u32], variant: u8, which: u8, picks: &[u8], t: usize) -> Value {
    let (_p, mut text, _) = progen::generate(ch, if variant % 2 == 0 { progen::Profile::exec_hlsl() } else { progen::Profile::exec_msl() });
    let mut files = Vec::new();
    let inject = variant % 3 != 0;
    let in_include = variant % 5 == 1;
    if variant % 4 == 2 {
        // macros in play: object-like and function-like, used by an appended function
        text.push_str("#define TWICE_ZZ(x) ((x) + (x))\n#define LIMIT_ZZ 12\n#define ZERO_ZZ() 7\n#define PAIR_ZZ(x, y) ((x) * (y))\nint macro_user_zz(int a) {\n    return TWICE_ZZ(a) + LIMIT_ZZ + ZERO_ZZ() + PAIR_ZZ(a, ZERO_ZZ()) + TWICE_ZZ(PAIR_ZZ(a, 3));\n}\n");
        // conditions with several operators and macro invocations: trivia (also a line splice) lands inside them
        // (the condition parser knows comparisons, && || !, defined, parentheses and literals; no arithmetic)
        text.push_str("#define GE_ZZ(x, y) ((x) >= (y))\n#if LIMIT_ZZ >= 2 && ( ZERO_ZZ ( ) == 7 || defined ( NOT_DEFINED_ZZ ) ) && ! GE_ZZ ( 2 , LIMIT_ZZ ) && LIMIT_ZZ != 3\nint cond_a_zz ( int a ) { return a + 1 ; }\n#elif LIMIT_ZZ > 3 || ! defined ( LIMIT_ZZ )\nint cond_a_zz ( int a ) { return a + 2 ; }\n#else\nint cond_a_zz ( int a ) { return a + 3 ; }\n#endif\n#if ! ( LIMIT_ZZ < 20 ) || ZERO_ZZ ( ) != 7\nint cond_c_zz ( ) { return 4 ; }\n#elif GE_ZZ ( LIMIT_ZZ , 12 ) && true\nint cond_c_zz ( ) { return 5 ; }\n#endif\n#ifdef LIMIT_ZZ\nint cond_b_zz ( ) { return cond_a_zz ( 1 ) + cond_c_zz ( ) ; }\n#endif\n");
    }
    text.insert_str(0, "#define BAD_MACRO_ZZ undefined_in_macro_zz = 3\n");
    if inject {
        let stmt = ERRORS[which as usize % ERRORS.len()];
        if in_include {
            files.push(("inc_zz.h".to_string(), format!("int helper_in_include_zz(int a) {{\n    int r = a;\n{}    return r;\n}}\n", stmt)));
            // include after the macro definition line so BAD_MACRO_ZZ is visible there as well
            let at = text.find('\n').map(|i| i + 1).unwrap_or(0);
            text.insert_str(at, "#include \"inc_zz.h\"\n");
        } else if let Some(i) = text.rfind(") {\n") {
            text.insert_str(i + 4, stmt);
        }
    } else if variant % 5 == 1 {
        files.push(("inc_zz.h".to_string(), "#pragma once\nint helper_in_include_zz(int a) {\n    return a + 1;\n}\n".to_string()));
        let at = text.find('\n').map(|i| i + 1).unwrap_or(0);
        text.insert_str(at, "#include \"inc_zz.h\"\n");
    }
    files.push(("main.rssl".to_string(), text));
    json!({"files": files, "tgt": Tgt::ALL4[t % 4].name(), "picks": picks})
}

pub fn run(ctx: &mut Ctx) {
    ctx.rule = "Generated programs (accepted, or rejected through one injected erroneous statement from an 8-entry catalogue incl. an error inside a macro expansion; with and without an include file holding the error; with object-like macros and function-like macros of 0, 1 and 2 parameters, also nested, and #if / #elif conditions of several operators over them) x 6 trivia variants: at every existing blank/newline and on both sides of ( ) [ ] { } ; , a random choice of space, tabs, newlines, // and /* */ comments, backslash-newline splices and CRLF is inserted (never directly after < or >, never between a macro name and its parameter list; directive lines get horizontal trivia and splices between their tokens and blanks, comments or a splice in front of the #). Accepted: sources, stages, metadata and state identical. Rejected: still rejected with the same message. Located diagnostics x k in {1,2,7,50} blank or comment lines at the top of the file holding the error: same file, line + k, same column and message; lines added in other files do not move it. Non-trivial = >= 10 insertion points used with >= 3 trivia kinds, and for diagnostics a located error. Distinct = hash of the record.".into();
    if !ctx.replay_tier(&check_record) {
        return;
    }
    ctx.run_prop(
        "trivia_and_line_shifts",
        ctx.tier.pick(3_000, 60_000),
        || (progen::choices_strategy(400), any::<u8>(), any::<u8>(), proptest::collection::vec(any::<u8>(), 8..64), 0usize..4),
        |(ch, v, w, picks, t): &(Vec<u32>, u8, u8, Vec<u8>, usize)| make_record(ch, *v, *w, picks, *t),
        check_record,
    );
    for l in ["accepted", "rejected", "diag_in_main", "diag_in_include"] {
        ctx.require_label(l, 20);
    }
}
