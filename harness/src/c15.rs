//! C15 — renaming is harmless and emitted names are hygienic.
//!
//! Metamorphic oracle: a program P and a consistently renamed copy P' are compiled; the token
//! streams of the two outputs must be identical except for identifiers, and the correspondence
//! between the identifiers must be a consistent map (every use follows its declaration). On top:
//!  - a name that is plain (not reserved, unique in its scope) must appear verbatim,
//!  - the emitted name of a user entity is never a word the target language reserves
//!    (independent lists: C++14 keywords, Metal address spaces / stage keywords, HLSL's documented
//!    reserved words),
//!  - two different user entities never end up with the same emitted name unless the record says
//!    the sharing is legal (different functions' locals, different structs' fields),
//!  - the renamed program still computes what its typed IR computes (the C01/C02 executor).

use crate::common::*;
use crate::ctext::{self, Tok};
use crate::exec;
use crate::progen::{self, Prog, St, E};
use serde_json::{json, Value};
use std::collections::{BTreeMap, HashMap, HashSet};

const CPP_KEYWORDS: &[&str] = &[
    "alignas", "alignof", "and", "and_eq", "asm", "auto", "bitand", "bitor", "bool", "break", "case", "catch", "char", "char16_t", "char32_t", "class", "compl", "const", "constexpr", "const_cast", "continue", "decltype", "default", "delete", "do", "double", "dynamic_cast", "else", "enum",
    "explicit", "export", "extern", "false", "float", "for", "friend", "goto", "if", "inline", "int", "long", "mutable", "namespace", "new", "noexcept", "not", "not_eq", "nullptr", "operator", "or", "or_eq", "private", "protected", "public", "register", "reinterpret_cast", "return", "short",
    "signed", "sizeof", "static", "static_assert", "static_cast", "struct", "switch", "template", "this", "thread_local", "throw", "true", "try", "typedef", "typeid", "typename", "union", "unsigned", "using", "virtual", "void", "volatile", "wchar_t", "while", "xor", "xor_eq",
];
const MSL_EXTRA: &[&str] = &["device", "constant", "thread", "threadgroup", "threadgroup_imageblock", "kernel", "vertex", "fragment", "metal"];
/// "Reserved words" of the HLSL reference plus keywords no HLSL compiler accepts as identifiers
const HLSL_RESERVED: &[&str] = &[
    "auto", "case", "catch", "char", "class", "const_cast", "default", "delete", "dynamic_cast", "enum", "explicit", "friend", "goto", "long", "mutable", "new", "operator", "private", "protected", "public", "reinterpret_cast", "short", "signed", "sizeof", "static_cast", "template", "this",
    "throw", "try", "typename", "union", "unsigned", "using", "virtual", "cbuffer", "tbuffer", "groupshared", "precise", "row_major", "column_major", "nointerpolation", "noperspective", "snorm", "unorm", "uniform", "packoffset", "register", "typedef", "interface", "namespace", "inline", "extern",
    "export", "volatile", "static", "const", "struct", "in", "out", "inout", "discard", "vector", "matrix", "half", "double", "float", "int", "uint", "bool", "void", "break", "continue", "do", "else", "for", "if", "return", "switch", "while", "true", "false", "asm",
];

pub fn reserved_for(tgt: Tgt) -> Vec<&'static str> {
    match tgt {
        Tgt::Msl | Tgt::MetalBytecode => CPP_KEYWORDS.iter().chain(MSL_EXTRA.iter()).copied().collect(),
        _ => HLSL_RESERVED.to_vec(),
    }
}

/// the reserved words RSSL's own front end accepts as the name of a local variable (probed once):
/// the others are keywords of RSSL itself and can never reach an exporter
fn usable_words(tgt: Tgt, builtins: bool) -> Vec<&'static str> {
    static CACHE: std::sync::OnceLock<Vec<&'static str>> = std::sync::OnceLock::new();
    let accepted = CACHE.get_or_init(|| {
        let mut all: Vec<&'static str> = CPP_KEYWORDS.iter().chain(MSL_EXTRA.iter()).chain(HLSL_RESERVED.iter()).copied().collect();
        all.sort();
        all.dedup();
        all.into_iter().filter(|w| matches!(type_check_text(&format!("int f() {{ int {} = 1; return {}; }}\n", w, w)), Ok(Ok(_)))).collect()
    });
    let mine = reserved_for(tgt);
    let mut v: Vec<&'static str> = accepted.iter().copied().filter(|w| mine.contains(w)).collect();
    // names of builtin functions: the exporters rename them as well (not required by the property, but it exercises the
    // same renaming paths, and a user entity of that name must still be referred to consistently)
    if builtins && !matches!(tgt, Tgt::Msl | Tgt::MetalBytecode) {
        v.extend(["min", "max", "dot", "length", "step", "abs", "lerp", "clamp", "select", "all", "any", "distance", "normalize"]);
    }
    if v.is_empty() { mine } else { v }
}

/// RSSL's builtin type names: as the name of a type or function they do not hide the builtin
/// (`half e` stays the builtin half, `float(x)` stays a constructor), so such a renaming is not a
/// consistent renaming in RSSL itself; they are only used for variables, parameters and members
const TYPE_WORDS: &[&str] = &["bool", "int", "uint", "half", "float", "double", "void", "vector", "matrix"];

fn strip_suffix(s: &str) -> Option<(&str, &str)> {
    let i = s.rfind('_')?;
    let (a, b) = s.split_at(i);
    let digits = &b[1..];
    if !digits.is_empty() && digits.bytes().all(|c| c.is_ascii_digit()) { Some((a, digits)) } else { None }
}

fn idents(tokens: &[Tok]) -> Vec<(usize, &str)> {
    tokens.iter().enumerate().filter_map(|(i, t)| if let Tok::Id(s) = t { Some((i, s.as_str())) } else { None }).collect()
}

pub fn check_record(r: &Value) -> Verdict {
    if r["kind"].as_str() == Some("hidden_root_name") {
        // the record names a program of the table; it is self-contained through the table's generator
        let src = crate::exec::hidden_root_name_source(r["index"].as_u64().unwrap_or(0));
        let tgt = Tgt::from_name(r["target"].as_str().unwrap_or("dx"));
        return match crate::exec::check_exec_named(&src, tgt, 0x41dd, 3, &HashMap::new()) {
            Verdict::Fail { signature, detail } => Verdict::fail(format!("exec:{}", signature), format!("{}\n{}", src, detail)),
            Verdict::Pass { nontrivial, mut labels } => {
                labels.retain(|l| !l.starts_with("compared_functions"));
                labels.push("hidden_root_name".into());
                Verdict::Pass { nontrivial, labels }
            }
            other => other,
        };
    }
    let (Some(base), Some(renamed)) = (r["base"].as_str(), r["renamed"].as_str()) else { return Verdict::Skip("incomplete record".into()) };
    let tgt = match r["target"].as_str() {
        Some(t) if ["dx", "vk", "msl"].contains(&t) => Tgt::from_name(t),
        _ => return Verdict::Skip("no target".into()),
    };
    let map: Vec<(String, String)> = r["map"].as_array().map(|a| a.iter().filter_map(|p| Some((p[0].as_str()?.to_string(), p[1].as_str()?.to_string()))).collect()).unwrap_or_default();
    let user_names: HashSet<String> = r["names"].as_array().map(|a| a.iter().filter_map(|x| x.as_str().map(|s| s.to_string())).collect()).unwrap_or_default();
    let grouped: HashSet<String> = r["grouped"].as_array().map(|a| a.iter().filter_map(|x| x.as_str().map(|s| s.to_string())).collect()).unwrap_or_default();
    let verbatim: HashSet<String> = r["expect_verbatim"].as_array().map(|a| a.iter().filter_map(|x| x.as_str().map(|s| s.to_string())).collect()).unwrap_or_default();
    let shared_ok: Vec<(String, String)> = r["shared_ok"].as_array().map(|a| a.iter().filter_map(|p| Some((p[0].as_str()?.to_string(), p[1].as_str()?.to_string()))).collect()).unwrap_or_default();
    let scopes: HashMap<String, String> = r["scopes"].as_object().map(|o| o.iter().filter_map(|(k, v)| Some((k.clone(), v.as_str()?.to_string()))).collect()).unwrap_or_default();
    let class = r["class"].as_str().unwrap_or("?").to_string();
    let show = || format!("target {} class {}\nmap {:?}\n--- renamed source\n{}", tgt.name(), class, map, renamed);

    let pipeline = r["pipeline"].as_bool().unwrap_or(false);
    let compile1 = |src: &str| -> Result<Result<String, String>, String> {
        let result = if pipeline {
            let files = vec![("main.rssl".to_string(), src.to_string())];
            compile(&CompileReq { files: &files, entry: "main.rssl", defines: &[], tgt, mode: Mode::All, validate_layout: false })
        } else {
            compile_text(src, tgt)
        };
        match result {
            Err(p) => Err(p),
            Ok(Err(d)) => Ok(Err(d)),
            Ok(Ok(p)) => Ok(Ok(p.first().map(pipeline_text).unwrap_or_default())),
        }
    };
    let base_out = match compile1(base) {
        Err(p) => return Verdict::fail(format!("panic:{}", p), format!("base program\n{}", base)),
        Ok(Err(d)) => return Verdict::Skip(format!("base rejected: {}", normalise_panic(d.lines().find(|l| l.contains("error") || l.contains("generate")).unwrap_or("")))),
        Ok(Ok(t)) => t,
    };
    let ren_out = match compile1(renamed) {
        Err(p) => return Verdict::fail(format!("panic:{}", p), show()),
        Ok(Err(d)) => {
            // RSSL itself may refuse a name (its own keywords): the renaming is then outside the property's domain
            let first = d.lines().find(|l| l.contains("error") || l.contains("generate")).unwrap_or("").to_string();
            return Verdict::Skip(format!("renamed rejected: {}", normalise_panic(&first).chars().take(60).collect::<String>()));
        }
        Ok(Ok(t)) => t,
    };
    let (bt, rt) = match (ctext::lex(&base_out), ctext::lex(&ren_out)) {
        (Ok(a), Ok(b)) => (a, b),
        _ => return Verdict::fail("lex", format!("emitted text does not lex\n{}", show())),
    };
    if bt.len() != rt.len() {
        return Verdict::fail("structure:length", format!("{} tokens before, {} after renaming\n{}\n--- base output\n{}\n--- renamed output\n{}", bt.len(), rt.len(), show(), base_out, ren_out));
    }
    // the parameters of one emitted function have different names (Metal receives globals as extra parameters)
    if let Some((func, name)) = duplicate_parameter(&rt) {
        return Verdict::fail("name-collision:parameters", format!("function `{}` of the renamed output has two parameters called `{}`\n{}\n--- renamed output\n{}", func, name, show(), ren_out));
    }
    // user-derived identifiers of the base output
    let derived = |b: &str| -> Option<(String, Option<String>)> {
        // Metal trampolines copy out / inout parameters into locals called __<parameter>
        let b = b.strip_prefix("__").filter(|rest| user_names.contains(*rest)).unwrap_or(b);
        if user_names.contains(b) {
            return Some((b.to_string(), None));
        }
        if let Some((stem, digits)) = strip_suffix(b) {
            if grouped.contains(stem) {
                return Some((stem.to_string(), Some(digits.to_string())));
            }
        }
        None
    };
    // parameters and locals are per emitted function (a template parameter's instances are different
    // entities in each instance): their correspondence is kept per top-level definition
    let function_scoped = |stem: &str| scopes.get(stem).map(|t| t.starts_with("function") || t == "template").unwrap_or(false);
    let mut image_keyed: BTreeMap<(usize, String), String> = BTreeMap::new();
    let mut depth = 0i32;
    let mut segment = 1usize;
    for i in 0..bt.len() {
        match (&bt[i], &rt[i]) {
            (Tok::Id(a), Tok::Id(b)) => {
                let Some((stem, _)) = derived(a) else {
                    if a != b {
                        return Verdict::fail("structure:fixed-identifier", format!("identifier `{}` that no user name stands behind became `{}`\n{}\n--- base output\n{}\n--- renamed output\n{}", a, b, show(), base_out, ren_out));
                    }
                    continue;
                };
                let key = (if function_scoped(&stem) { segment } else { 0 }, a.clone());
                match image_keyed.get(&key) {
                    None => {
                        image_keyed.insert(key, b.clone());
                    }
                    Some(prev) if prev == b => {}
                    Some(prev) => {
                        return Verdict::fail("inconsistent-use", format!("`{}` became `{}` in one place and `{}` in another\n{}\n--- base output\n{}\n--- renamed output\n{}", a, prev, b, show(), base_out, ren_out));
                    }
                }
            }
            (a, b) if a == b => {
                match a {
                    Tok::P("{") => depth += 1,
                    Tok::P("}") => {
                        depth -= 1;
                        if depth == 0 {
                            segment += 1;
                        }
                    }
                    _ => {}
                }
            }
            (a, b) => {
                return Verdict::fail("structure:token", format!("token {} differs: {:?} vs {:?}\n{}\n--- base output\n{}\n--- renamed output\n{}", i, a, b, show(), base_out, ren_out));
            }
        }
    }
    let image: Vec<(usize, String, String)> = image_keyed.into_iter().map(|((s, a), b)| (s, a, b)).collect();
    let new_of: HashMap<&str, &str> = map.iter().map(|(a, b)| (a.as_str(), b.as_str())).collect();
    let reserved: HashSet<&str> = reserved_for(tgt).into_iter().collect();
    let mut labels = vec![format!("class_{}", class), format!("tgt_{}", tgt.name())];
    let mut seen_images: HashMap<(usize, &str), &str> = HashMap::new();
    for (seg, b, img) in &image {
        if b.starts_with("__") {
            continue;
        }
        let (stem, suffix) = derived(b).unwrap();
        let wanted = new_of.get(stem.as_str()).copied().unwrap_or(stem.as_str());
        // (b) never a reserved word of the target
        if reserved.contains(img.as_str()) {
            return Verdict::fail(format!("reserved-name-emitted:{}", tgt.name()), format!("the entity `{}` (renamed to `{}`) is emitted as `{}`, which {} reserves\n{}\n--- renamed output\n{}", stem, wanted, img, tgt.name(), show(), ren_out));
        }
        // (e) plain names are kept
        if verbatim.contains(&stem) {
            let expect = match &suffix {
                Some(s) => format!("{}_{}", wanted, s),
                None => wanted.to_string(),
            };
            if *img != expect {
                return Verdict::fail("plain-name-not-kept", format!("`{}` was renamed to the plain name `{}` but is emitted as `{}`\n{}\n--- renamed output\n{}", stem, wanted, img, show(), ren_out));
            }
            labels.push("verbatim_checked".into());
        }
        // (c) no two entities share an emitted name unless the record allows it
        if let Some(other) = seen_images.insert((*seg, img.as_str()), b.as_str()).or_else(|| if *seg != 0 { seen_images.get(&(0, img.as_str())).copied() } else { None }) {
            let (o_stem, _) = derived(other).unwrap();
            let allowed = shared_ok.iter().any(|(x, y)| (x == &stem && y == &o_stem) || (y == &stem && x == &o_stem));
            // only entities of one scope can collide: all global-scope kinds (enum values included), the
            // members of one struct, the parameters and locals of one function
            let same_scope = match (scopes.get(&stem), scopes.get(&o_stem)) {
                (Some(a), Some(b)) => a == b && a != "template" && a != "ns:*",
                _ => true,
            };
            if !allowed && same_scope {
                return Verdict::fail("name-collision", format!("`{}` and `{}` are both emitted as `{}`\n{}\n--- renamed output\n{}", other, b, img, show(), ren_out));
            }
            labels.push("legal_sharing".into());
        }
        if wanted != stem && *img != wanted && suffix.is_none() {
            labels.push("exporter_renamed".into());
        }
    }
    // (d) the renamed program still means the same: differential execution of the renamed program
    let mut emitted: HashMap<String, String> = HashMap::new();
    for (_, b, img) in &image {
        match derived(b) {
            // parameters and locals are not looked up by the executor; their names may legally repeat those of globals
            Some((stem, _)) if function_scoped(&stem) => {}
            Some((stem, None)) => {
                let wanted = new_of.get(stem.as_str()).copied().unwrap_or(stem.as_str());
                // by qualified name as well: entities of different namespaces may share their plain name
                if let Some(path) = scopes.get(&stem).and_then(|t| t.strip_prefix("ns:")) {
                    if path != "*" {
                        let q: Vec<&str> = path.split("::").map(|c| new_of.get(c).copied().unwrap_or(c)).collect();
                        emitted.insert(format!("@{}::{}", q.join("::"), wanted), img.clone());
                    }
                }
                emitted.insert(wanted.to_string(), img.clone());
            }
            // the K-th member of an overload / template group (the base output numbers them 0, 1, ...)
            Some((stem, Some(k))) => {
                let wanted = new_of.get(stem.as_str()).copied().unwrap_or(stem.as_str());
                emitted.insert(format!("{}#{}", wanted, k), img.clone());
            }
            None => {}
        }
    }
    if pipeline || r["no_exec"].as_bool().unwrap_or(false) {
        // entry points take stage inputs, resources have no contents: not executed, the structural comparison is the oracle
        labels.push("pipeline_io".into());
        labels.sort();
        labels.dedup();
        return Verdict::pass(Some(hash_of(&(renamed, tgt.name()))), labels);
    }
    match exec::check_exec_named(renamed, tgt, r["arg_seed"].as_u64().unwrap_or(1), 1, &emitted) {
        Verdict::Fail { signature, detail } => return Verdict::fail(format!("exec:{}", signature), format!("{}\n{}", show(), detail)),
        Verdict::Pass { .. } => labels.push("executed".into()),
        Verdict::Skip(_) => labels.push("not_executed".into()),
    }
    if image.is_empty() {
        return Verdict::Skip("no user identifier in the output".into());
    }
    labels.sort();
    labels.dedup();
    Verdict::pass(Some(hash_of(&(renamed, tgt.name()))), labels)
}

// ---------------------------------------------------------------------------------------------
// generation

#[derive(Clone, Copy, Debug, PartialEq)]
enum Kind {
    Func,
    Param(usize),
    Local(usize),
    Struct,
    Field(usize),
    /// a member function: scoped like a field, called like a function (so never renamed onto a type word: `int(x)`
    /// would stop being a call)
    Method(usize),
    Enum,
    EnumValue(usize),
    Global,
    TemplateParam,
    Namespace,
}

/// (function, parameter name) of the first function definition or declaration whose parameter list names one
/// parameter twice. A parameter's name is the last identifier of its tokens outside of attributes and array bounds.
fn duplicate_parameter(toks: &[Tok]) -> Option<(String, String)> {
    let mut i = 0;
    while i + 1 < toks.len() {
        if let (Tok::Id(fname), Tok::P("(")) = (&toks[i], &toks[i + 1]) {
            // a declaration: the token before the name is a type word, never an operator or a bracket
            let declares = i > 0 && matches!(&toks[i - 1], Tok::Id(w) if !matches!(w.as_str(), "return" | "else" | "case" | "do"));
            if declares {
                let mut depth = 0i32;
                let mut j = i + 1;
                let mut names: Vec<String> = Vec::new();
                let mut last: Option<String> = None;
                let mut attr = 0i32;
                let mut square = 0i32;
                let mut is_list = true;
                while j < toks.len() {
                    match &toks[j] {
                        Tok::P("(") => depth += 1,
                        Tok::P(")") => {
                            depth -= 1;
                            if depth == 0 {
                                if let Some(n) = last.take() {
                                    names.push(n);
                                }
                                break;
                            }
                        }
                        Tok::P("[[") => attr += 1,
                        Tok::P("]]") => attr -= 1,
                        Tok::P("[") => square += 1,
                        Tok::P("]") => square -= 1,
                        Tok::P(",") if depth == 1 && attr == 0 && square == 0 => {
                            match last.take() {
                                Some(n) => names.push(n),
                                None => is_list = false,
                            }
                        }
                        Tok::P("=") if depth == 1 => {}
                        Tok::Id(n) if attr == 0 && square == 0 && depth >= 1 => last = Some(n.clone()),
                        Tok::P(";") | Tok::P("{") | Tok::P("}") => {
                            is_list = false;
                            break;
                        }
                        _ => {}
                    }
                    j += 1;
                }
                // only parameter lists that are followed by a body or a `;` (definitions and prototypes)
                let followed = matches!(toks.get(j + 1), Some(Tok::P("{")) | Some(Tok::P(";")));
                if is_list && followed {
                    for a in 0..names.len() {
                        if names[..a].contains(&names[a]) {
                            return Some((fname.clone(), names[a].clone()));
                        }
                    }
                }
            }
        }
        i += 1;
    }
    None
}

fn collect_locals(ss: &[St], f: usize, out: &mut Vec<(usize, Kind)>) {
    for s in ss {
        match s {
            St::Decl(_, n, _, _) | St::DeclArr(_, n, _) => out.push((*n, Kind::Local(f))),
            St::If(_, a, b) => {
                collect_locals(a, f, out);
                if let Some(b) = b {
                    collect_locals(b, f, out);
                }
            }
            St::For(n, _, b) | St::While(n, _, b) | St::DoWhile(n, _, b) => {
                out.push((*n, Kind::Local(f)));
                collect_locals(b, f, out);
            }
            St::ForMulti(n, m, _, b) => {
                out.push((*n, Kind::Local(f)));
                out.push((*m, Kind::Local(f)));
                collect_locals(b, f, out);
            }
            St::Switch(_, cases, d) => {
                for (_, b) in cases {
                    collect_locals(b, f, out);
                }
                collect_locals(d, f, out);
            }
            St::Block(b) => collect_locals(b, f, out),
            _ => {}
        }
    }
}

fn entities(p: &Prog) -> Vec<(usize, Kind)> {
    let mut v = Vec::new();
    for (i, s) in p.structs.iter().enumerate() {
        v.push((s.name, Kind::Struct));
        for (n, _) in &s.fields {
            v.push((*n, Kind::Field(i)));
        }
    }
    for (i, e) in p.enums.iter().enumerate() {
        v.push((e.name, Kind::Enum));
        for (n, _) in &e.values {
            v.push((*n, Kind::EnumValue(i)));
        }
    }
    for g in &p.globals {
        v.push((g.name, Kind::Global));
    }
    for it in &p.items {
        if let progen::Item::NamespaceBegin(n) = it {
            if !v.iter().any(|(m, k)| m == n && *k == Kind::Namespace) {
                v.push((*n, Kind::Namespace));
            }
        }
    }
    // methods: the name lives in the struct's scope, parameters and locals in the method's own scope
    for (si, s) in p.structs.iter().enumerate() {
        for (mi, m) in s.methods.iter().enumerate() {
            let scope_index = 10_000 + si * 100 + mi;
            v.push((m.name, Kind::Method(si)));
            if let Some((t, _)) = m.template {
                v.push((t, Kind::TemplateParam));
            }
            for prm in &m.params {
                v.push((prm.name, Kind::Param(scope_index)));
            }
            collect_locals(&m.body, scope_index, &mut v);
        }
    }
    for (i, f) in p.funcs.iter().enumerate() {
        if !v.iter().any(|(n, k)| *n == f.name && *k == Kind::Func) {
            v.push((f.name, Kind::Func));
        }
        if let Some((t, _)) = f.template {
            v.push((t, Kind::TemplateParam));
        }
        for prm in &f.params {
            v.push((prm.name, Kind::Param(i)));
        }
        collect_locals(&f.body, i, &mut v);
    }
    v
}

fn fresh_word(seed: &mut exec::Mix) -> String {
    // plain names: a letter prefix and lowercase letters, never ending in _digits
    let mut s = String::from("q");
    let len = 4 + (seed.next() % 5) as usize;
    for _ in 0..len {
        s.push((b'a' + (seed.next() % 26) as u8) as char);
    }
    s.push('k');
    s
}

fn grouped_names(p: &Prog) -> Vec<String> {
    // functions that are overloaded or templates get `_N` names from the exporters
    let mut out = Vec::new();
    for f in &p.funcs {
        let count = p.funcs.iter().filter(|g| g.name == f.name).count();
        if count > 1 || f.template.is_some() {
            out.push(p.names[f.name].clone());
        }
    }
    out.sort();
    out.dedup();
    out
}

fn record_for(p: &Prog, renamed: &Prog, map: Vec<(String, String)>, verbatim: Vec<String>, shared_ok: Vec<(String, String)>, class: &str, tgt: Tgt, seed: u64) -> Value {
    let names: Vec<String> = entities(p).iter().map(|(n, _)| p.names[*n].clone()).collect();
    let mut scopes = serde_json::Map::new();
    for (n, k) in entities(p) {
        let tag = match k {
            Kind::Func => {
                // the scope of a function is its namespace; a name used in several namespaces has no single scope
                let mut paths: Vec<Vec<usize>> = (0..p.funcs.len()).filter(|i| p.funcs[*i].name == n).map(|i| p.func_ns[i].clone()).collect();
                paths.sort();
                paths.dedup();
                match paths.as_slice() {
                    [one] if one.is_empty() => "global".to_string(),
                    [one] => format!("ns:{}", one.iter().map(|x| p.names[*x].clone()).collect::<Vec<_>>().join("::")),
                    _ => "ns:*".to_string(),
                }
            }
            Kind::Namespace => "global".to_string(),
            Kind::Global if p.global_ns.contains_key(&n) => format!("ns:{}", p.global_ns[&n].iter().map(|x| p.names[*x].clone()).collect::<Vec<_>>().join("::")),
            Kind::Struct | Kind::Enum | Kind::EnumValue(_) | Kind::Global => "global".to_string(),
            Kind::Field(s) | Kind::Method(s) => format!("struct{}", s),
            Kind::Param(f) | Kind::Local(f) => format!("function{}", f),
            Kind::TemplateParam => "template".to_string(),
        };
        scopes.insert(p.names[n].clone(), json!(tag));
    }
    json!({
        "scopes": scopes,
        "base": progen::render(p), "renamed": progen::render(renamed), "map": map, "names": names, "grouped": grouped_names(p),
        "expect_verbatim": verbatim, "shared_ok": shared_ok, "class": class, "target": tgt.name(), "arg_seed": seed,
    })
}

pub fn make_case(choices: &[u32], class: u8, tgt_i: usize, seed: u64) -> Value {
    make_case_with(choices, class, tgt_i, seed, false)
}

/// `builtins`: also rename onto names of builtin functions (only meaningful where the oracle does not depend on the
/// program still calling the builtin of that name: C04)
pub fn make_case_with(choices: &[u32], class: u8, tgt_i: usize, seed: u64, builtins: bool) -> Value {
    let tgt = [Tgt::Dx, Tgt::Vk, Tgt::Msl][tgt_i % 3];
    let prof = if tgt == Tgt::Msl { progen::Profile::exec_msl() } else { progen::Profile::exec_hlsl() };
    let (p, _, _) = progen::generate(choices, prof);
    let ents = entities(&p);
    let mut mix = exec::Mix(seed);
    let mut q = p.clone();
    let mut map = Vec::new();
    let mut verbatim = Vec::new();
    let mut shared_ok = Vec::new();
    let mut used: HashSet<String> = p.names.iter().cloned().collect();
    let mut class_name;
    match class % 5 {
        0 => {
            // every identifier gets a fresh plain name
            class_name = "fresh";
            for (n, _) in &ents {
                if map.iter().any(|(o, _): &(String, String)| o == &p.names[*n]) {
                    continue;
                }
                let mut w = fresh_word(&mut mix);
                while !used.insert(w.clone()) {
                    w = fresh_word(&mut mix);
                }
                q.names[*n] = w.clone();
                map.push((p.names[*n].clone(), w));
                verbatim.push(p.names[*n].clone());
            }
        }
        1 => {
            // 1-3 entities are renamed onto words the target reserves
            class_name = "reserved";
            let words = usable_words(tgt, builtins);
            let k = 1 + (mix.next() % 3) as usize;
            let mut taken = HashSet::new();
            for _ in 0..k {
                if ents.is_empty() {
                    break;
                }
                let (n, _) = ents[(mix.next() % ents.len() as u64) as usize];
                let w = words[(mix.next() % words.len() as u64) as usize];
                let (_, kind) = ents.iter().find(|(m, _)| *m == n).unwrap();
                if TYPE_WORDS.contains(&w) && matches!(kind, Kind::Func | Kind::Method(_) | Kind::Struct | Kind::Enum | Kind::TemplateParam) {
                    continue;
                }
                if !taken.insert(w) || map.iter().any(|(o, _): &(String, String)| o == &p.names[n]) {
                    continue;
                }
                q.names[n] = w.to_string();
                map.push((p.names[n].clone(), w.to_string()));
            }
        }
        4 => {
            // an entity onto a reserved word and other entities onto the names the exporter will generate for it
            class_name = "reserved_suffix";
            let words = usable_words(tgt, builtins);
            if !ents.is_empty() && !words.is_empty() {
                let (n, kind) = ents[(mix.next() % ents.len() as u64) as usize];
                let w = words[(mix.next() % words.len() as u64) as usize];
                if !(TYPE_WORDS.contains(&w) && matches!(kind, Kind::Func | Kind::Method(_) | Kind::Struct | Kind::Enum | Kind::TemplateParam)) {
                    q.names[n] = w.to_string();
                    map.push((p.names[n].clone(), w.to_string()));
                    for i in 0..1 + (mix.next() % 2) as usize {
                        let (m, _) = ents[(mix.next() % ents.len() as u64) as usize];
                        let cand = format!("{}_{}", w, i);
                        if m == n || used.contains(&cand) || map.iter().any(|(o, _): &(String, String)| o == &p.names[m]) {
                            continue;
                        }
                        used.insert(cand.clone());
                        q.names[m] = cand.clone();
                        map.push((p.names[m].clone(), cand));
                    }
                }
            }
        }
        2 => {
            // names of the form name_N, aimed at the names the exporters generate for overloads and templates
            class_name = "suffix";
            let groups = grouped_names(&p);
            let stems: Vec<String> = if groups.is_empty() { p.funcs.iter().map(|f| p.names[f.name].clone()).collect() } else { groups };
            let k = 1 + (mix.next() % 3) as usize;
            for i in 0..k {
                if ents.is_empty() || stems.is_empty() {
                    break;
                }
                let (n, _) = ents[(mix.next() % ents.len() as u64) as usize];
                let stem = &stems[(mix.next() % stems.len() as u64) as usize];
                let w = format!("{}_{}", stem, (mix.next() % 3) as usize + if i == 2 { 1 } else { 0 });
                if used.contains(&w) || map.iter().any(|(o, _): &(String, String)| o == &p.names[n]) || p.names[n] == *stem {
                    continue;
                }
                used.insert(w.clone());
                q.names[n] = w.clone();
                map.push((p.names[n].clone(), w));
            }
        }
        _ => {
            // legal sharing: locals / parameters of different functions, fields of different structs
            class_name = "shared";
            let w = {
                let mut w = fresh_word(&mut mix);
                while !used.insert(w.clone()) {
                    w = fresh_word(&mut mix);
                }
                w
            };
            let mut owners_l = HashSet::new();
            let mut owners_f = HashSet::new();
            let mut chosen: Vec<usize> = Vec::new();
            let variant = mix.next() % 4;
            let use_fields = variant == 0;
            // statics of namespaces that are always referenced by their full name (odd name index, see the renderer)
            let namespaced_statics: Vec<usize> = p.globals.iter().map(|g| g.name).filter(|n| p.global_ns.contains_key(n)).collect();
            let distinct_paths = {
                let mut paths: Vec<&Vec<usize>> = namespaced_statics.iter().map(|n| &p.global_ns[n]).collect();
                paths.sort();
                paths.dedup();
                paths.len()
            };
            let mut keep_verbatim = true;
            if variant == 2 && distinct_paths >= 2 {
                // statics of different namespaces share a name; no chosen namespace encloses another, so an
                // unqualified use inside a namespace still finds the static of that namespace first
                class_name = "shared_namespace_statics";
                let mut paths: Vec<Vec<usize>> = Vec::new();
                for n in &namespaced_statics {
                    let path = &p.global_ns[n];
                    if !paths.iter().any(|q| q.starts_with(path) || path.starts_with(q)) {
                        paths.push(path.clone());
                        chosen.push(*n);
                    }
                }
                if chosen.len() < 2 {
                    class_name = "shared";
                }
                keep_verbatim = false;
            } else if variant == 3 && p.globals.iter().any(|g| g.storage == "static") {
                // a static variable and locals / parameters of functions that do not name it share a name: legal
                // shadowing in the source; on Metal the static may reach those functions as an implicit parameter
                class_name = "shared_static_and_locals";
                let statics: Vec<usize> = p.globals.iter().filter(|g| g.storage == "static").map(|g| g.name).collect();
                let g = statics[(mix.next() % statics.len() as u64) as usize];
                let always_qualified = p.global_ns.contains_key(&g) && g % 2 == 1;
                chosen.push(g);
                let base_text = progen::render(&p);
                let gname = p.names[g].clone();
                // the text of each function: from its header to the next function (a conservative over-approximation)
                let mentions = |fname: &str| -> bool {
                    let Some(at) = base_text.find(&format!(" {}(", fname)) else { return true };
                    let rest = &base_text[at..];
                    let end = rest.find("\n}\n").map(|e| e + 3).unwrap_or(rest.len());
                    rest[..end].contains(&gname)
                };
                for (n, k) in &ents {
                    if let Kind::Local(f) | Kind::Param(f) = k {
                        if *f < p.funcs.len() && owners_l.insert(*f) {
                            let fname = p.names[p.funcs[*f].name].clone();
                            let overloaded = p.funcs.iter().filter(|h| h.name == p.funcs[*f].name).count() > 1;
                            if always_qualified || (!overloaded && !mentions(&fname)) {
                                chosen.push(*n);
                            }
                        }
                    }
                }
                keep_verbatim = false;
            } else {
                for (n, k) in &ents {
                    match k {
                        Kind::Local(f) | Kind::Param(f) if !use_fields && owners_l.insert(*f) => chosen.push(*n),
                        Kind::Field(s) if use_fields && owners_f.insert(*s) => chosen.push(*n),
                        _ => {}
                    }
                }
            }
            for n in &chosen {
                q.names[*n] = w.clone();
                map.push((p.names[*n].clone(), w.clone()));
                if keep_verbatim {
                    verbatim.push(p.names[*n].clone());
                }
            }
            for a in &chosen {
                for b in &chosen {
                    if a < b {
                        shared_ok.push((p.names[*a].clone(), p.names[*b].clone()));
                    }
                }
            }
        }
    }
    record_for(&p, &q, map, verbatim, shared_ok, class_name, tgt, seed)
}

/// the fixed small program of the exhaustive table: one reserved word on one entity kind
const TABLE_KINDS: &[&str] = &["struct", "field", "enum", "enum_value", "global", "function", "parameter", "local", "template_parameter", "overloaded_function", "static_const"];

fn table_program(kind: usize, word: &str) -> (String, String, Vec<(String, String)>, Vec<String>, Vec<String>) {
    let defaults = ["SName", "fname", "EName", "EVal", "gname", "fnname", "pname", "lname", "TName", "ovname", "kname"];
    let render = |names: &[&str]| -> String {
        format!(
            "struct {s} {{ int {f}; float2 v; }};\nenum {e} {{ {ev}, EVal2 }};\nstatic int {g} = 1;\nstatic const int {k} = 4;\nint {fn_}(int {p}, int q) {{\n    int {l} = {p} + q + {g} + {k};\n    {s} s;\n    s.{f} = {l};\n    {e} e = {e}::{ev};\n    return s.{f} + (int)e;\n}}\nint {ov}(int a) {{ return a; }}\nint {ov}(float a) {{ return 2; }}\ntemplate<typename {t}> {t} tfn({t} a) {{ return a; }}\nint user(int kk) {{\n    return {fn_}(kk, 2) + {ov}(kk) + {ov}(1.5f) + tfn(kk);\n}}\n",
            s = names[0], f = names[1], e = names[2], ev = names[3], g = names[4], fn_ = names[5], p = names[6], l = names[7], t = names[8], ov = names[9], k = names[10]
        )
    };
    let base = render(&defaults);
    let mut names = defaults.to_vec();
    names[kind] = word;
    let renamed = render(&names);
    let mut user: Vec<String> = defaults.iter().map(|s| s.to_string()).collect();
    user.extend(["EVal2", "q", "s", "e", "a", "tfn", "user", "kk", "v"].iter().map(|s| s.to_string()));
    (base, renamed, vec![(defaults[kind].to_string(), word.to_string())], user, vec!["ovname".to_string(), "tfn".to_string()])
}

pub fn run(ctx: &mut Ctx) {
    use proptest::prelude::*;
    ctx.rule = "A program and a consistently renamed copy are compiled for DirectX HLSL, Vulkan HLSL or Metal. Renamings: (fresh) every identifier to a fresh plain name; (reserved) 1-3 entities onto words the target reserves, drawn from independent lists (86 C++14 keywords, 9 Metal address-space / stage keywords and the namespace name, 87 HLSL reserved words and keywords) - also exhaustively: every word x 11 entity kinds (struct, field, enum, enum value, static, static const, function, overloaded function, parameter, local, template parameter) in a fixed program; (suffix) 1-3 entities onto name_N forms that collide with the names generated for overloads and template instances; (reserved_suffix) one entity onto a reserved word and 1-2 others onto word_0 / word_1, the names the exporter generates for it; (shared) one name shared by locals / parameters of different functions, by fields of different structs, by statics of different namespaces, or by a static and locals / parameters of functions that do not name it; (namespace_statics) exhaustively, every assignment of {own name, one shared plain name, its generated form name_0} to the statics of two sibling namespaces and of the global scope and to a parameter, a local and a nested local of functions that reach those statics only through calls (2 187 assignments x 3 targets x {statics, resources, statics next to a global constant}); (pipeline_io) exhaustively, every reserved word on each of the 10 interface names (output struct, its members with semantics, entry points, stage parameters) of a vertex + pixel pipeline compiled with its generated entry points. Checked: identical token streams up to identifiers with a consistent identifier map; fixed identifiers unchanged; plain names kept verbatim; no emitted user name is reserved in the target; no two entities share an emitted name unless the sharing is legal; the renamed program passes the C01/C02 differential executor. Renamings RSSL's own front end rejects are skipped and counted. Non-trivial = both programs compiled and at least one user identifier was compared; distinct = hash of (renamed source, target).".into();
    ctx.assumptions.push("reserved-word lists are limited to words every implementation of the target rejects as an identifier; names that are merely builtin functions are not required to be renamed".into());
    ctx.assumptions.push("namespaces are not generated: names shared between namespaces are not covered".into());
    if !ctx.replay_tier(&check_record) {
        return;
    }
    // ---- exhaustive table
    let mut table: Vec<(usize, &'static str, Tgt)> = Vec::new();
    for tgt in [Tgt::Dx, Tgt::Msl] {
        for w in reserved_for(tgt) {
            for k in 0..TABLE_KINDS.len() {
                if TYPE_WORDS.contains(&w) && matches!(TABLE_KINDS[k], "struct" | "enum" | "function" | "overloaded_function" | "template_parameter") {
                    continue;
                }
                table.push((k, w, tgt));
            }
        }
    }
    let make = |i: u64| {
        let (k, w, tgt) = table[i as usize];
        let (base, renamed, map, names, grouped) = table_program(k, w);
        let scopes = json!({"SName": "global", "fname": "struct0", "v": "struct0", "EName": "global", "EVal": "global", "EVal2": "global", "gname": "global", "kname": "global", "fnname": "global", "pname": "function0", "q": "function0", "lname": "function0", "s": "function0", "e": "function0",
            "TName": "template", "ovname": "global", "a": "function1", "tfn": "global", "user": "global", "kk": "function2"});
        json!({"base": base, "renamed": renamed, "map": map, "names": names, "grouped": grouped, "scopes": scopes, "expect_verbatim": [], "shared_ok": [], "class": format!("table_{}", TABLE_KINDS[k]), "target": tgt.name(), "arg_seed": 1})
    };
    ctx.run_enum("reserved_word_x_entity_kind", table.len() as u64, true, make, |i| check_record(&make(i)));
    // ---- names of the root scope named with a leading :: where a namespace, a struct or a function declares the same
    // name (the table of C01 / C02): the emitted reference has to reach the entity the source names
    {
        let make = |i: u64| json!({"kind": "hidden_root_name", "index": i / 2, "target": if i % 2 == 0 { "dx" } else { "msl" }});
        ctx.run_enum("hidden_root_names", 96 * 2, true, make, |i| check_record(&make(i)));
    }
    // ---- a vertex + pixel pipeline whose interface names are renamed onto reserved words: the generated entry points
    // have to follow the renamed struct, members and parameters
    {
        const IO_NAMES: [&str; 10] = ["VOut", "pos", "uv", "wet", "VSMain", "PSMain", "vid", "o_vertex", "i_uv", "i_wet"];
        const IO_SCOPES: [&str; 10] = ["global", "struct0", "struct0", "struct0", "global", "global", "function0", "function0", "function1", "function1"];
        let io_program = |names: &[String]| -> String {
            format!(
                "struct {vo} {{ float4 {p} : SV_Position; float2 {u} : TEXCOORD0; float {w} : WETNESS; }};\nvoid {vs}(uint {vid} : SV_VertexID, out {vo} {ov}) {{ {ov}.{p} = float4(0, 0, 0, 1); {ov}.{u} = float2(0, 0); {ov}.{w} = 1.0; }}\nfloat4 {ps}(float2 {iu} : TEXCOORD0, float {iw} : WETNESS) : SV_Target0 {{ return float4({iu}, {iw}, 1); }}\nPipeline Draw {{ VertexShader = {vs}; PixelShader = {ps}; }}\n",
                vo = names[0], p = names[1], u = names[2], w = names[3], vs = names[4], ps = names[5], vid = names[6], ov = names[7], iu = names[8], iw = names[9]
            )
        };
        let mut io_table: Vec<(usize, &'static str, Tgt)> = Vec::new();
        for tgt in [Tgt::Dx, Tgt::Msl] {
            for w in reserved_for(tgt) {
                for k in 0..IO_NAMES.len() {
                    if TYPE_WORDS.contains(&w) && matches!(k, 0 | 4 | 5) {
                        continue;
                    }
                    io_table.push((k, w, tgt));
                }
            }
        }
        let io_make = |i: u64| {
            let (k, w, tgt) = io_table[i as usize];
            let base_names: Vec<String> = IO_NAMES.iter().map(|s| s.to_string()).collect();
            let mut names = base_names.clone();
            names[k] = w.to_string();
            let scopes: serde_json::Map<String, Value> = IO_NAMES.iter().zip(IO_SCOPES.iter()).map(|(n, s)| (n.to_string(), json!(s))).collect();
            json!({"base": io_program(&base_names), "renamed": io_program(&names), "map": [[IO_NAMES[k], w]], "names": IO_NAMES, "grouped": [], "scopes": scopes,
                "expect_verbatim": [], "shared_ok": [], "class": "pipeline_io", "target": tgt.name(), "arg_seed": 1, "pipeline": true})
        };
        ctx.run_enum("pipeline_interface_names", io_table.len() as u64, true, io_make, |i| check_record(&io_make(i)));
    }
    // ---- statics of two namespaces and of the global scope, and the parameters / locals of functions that reach them
    // only through calls, take every combination of {own name, one shared plain name, the generated form of it}: all
    // legal in the source (uses of the statics are qualified or come from functions without variables)
    {
        const NS_NAMES: [&str; 14] = ["NA_zz", "NB_zz", "ga_zz", "gb_zz", "gg_zz", "fa_zz", "fb_zz", "hh_zz", "user_zz", "va_zz", "vb_zz", "vu_zz", "lu_zz", "li_zz"];
        const NS_SCOPES: [&str; 14] = ["global", "global", "ns:NA_zz", "ns:NB_zz", "global", "ns:NA_zz", "ns:NB_zz", "global", "global", "function0", "function1", "function3", "function3", "function3"];
        // the names that vary: ga gb gg va vu lu li
        const VARYING: [usize; 7] = [2, 3, 4, 9, 11, 12, 13];
        const POOL: [&str; 2] = ["wq_zz", "wq_zz_0"];
        let ns_program = |n: &[String]| -> String {
            format!(
                "namespace {na} {{\n    static int {ga} = 1;\n    int {fa}(int {va}) {{ {na}::{ga} += {va}; return {na}::{ga}; }}\n}}\nnamespace {nb} {{\n    static int {gb} = 2;\n    int {fb}(int {vb}) {{ {nb}::{gb} -= {vb}; return {nb}::{gb} + {na}::{ga}; }}\n}}\nstatic int {gg} = 5;\nint {hh}() {{ {gg} += 1; return {gg} + {na}::{fa}(1); }}\nint {user}(int {vu}) {{\n    int {lu} = {vu} * 2;\n    {{\n        int {li} = {lu} + 1;\n        {lu} += {li};\n    }}\n    return {na}::{fa}({vu}) * 100 + {nb}::{fb}({lu}) * 10 + {na}::{ga} + {nb}::{gb} + {hh}();\n}}\n",
                na = n[0], nb = n[1], ga = n[2], gb = n[3], gg = n[4], fa = n[5], fb = n[6], hh = n[7], user = n[8], va = n[9], vb = n[10], vu = n[11], lu = n[12], li = n[13]
            )
        };
        // the same program with resources and a uniform instead of the statics: on Metal they travel as parameters too
        let ns_program_resources = |n: &[String]| -> String {
            format!(
                "namespace {na} {{\n    StructuredBuffer<int> {ga};\n    int {fa}(int {va}) {{ return {na}::{ga}[{va}]; }}\n}}\nnamespace {nb} {{\n    Buffer<int> {gb};\n    int {fb}(int {vb}) {{ return {nb}::{gb}[{vb}] + {na}::{ga}[0]; }}\n}}\nconst Texture2D<int> {gg};\nint {hh}() {{ return {gg}[uint2(0, 0)] + {na}::{fa}(1); }}\nint {user}(int {vu}) {{\n    int {lu} = {vu} * 2;\n    {{\n        int {li} = {lu} + 1;\n        {lu} += {li};\n    }}\n    return {na}::{fa}({vu}) * 100 + {nb}::{fb}({lu}) * 10 + {na}::{ga}[1] + {nb}::{gb}[2] + {hh}();\n}}\n",
                na = n[0], nb = n[1], ga = n[2], gb = n[3], gg = n[4], fa = n[5], fb = n[6], hh = n[7], user = n[8], va = n[9], vb = n[10], vu = n[11], lu = n[12], li = n[13]
            )
        };
        // and with a constant at global scope: on Metal it stays a global next to the parameters
        let ns_program_constant = |n: &[String]| -> String {
            ns_program(n).replace(&format!("static int {} = 5;", n[4]), &format!("static const int {} = 5;", n[4])).replace(&format!("{{ {} += 1; return", n[4]), "{ return")
        };
        let per_target = 3u64.pow(VARYING.len() as u32);
        let ns_make = |i: u64| {
            let resources = i >= per_target * 3 && i < per_target * 6;
            let constant = i >= per_target * 6;
            let tgt = [Tgt::Dx, Tgt::Vk, Tgt::Msl][(i / per_target) as usize % 3];
            let mut k = i % per_target;
            let base_names: Vec<String> = NS_NAMES.iter().map(|s| s.to_string()).collect();
            let mut names = base_names.clone();
            let mut map = Vec::new();
            for v in VARYING {
                let choice = (k % 3) as usize;
                k /= 3;
                if choice > 0 {
                    names[v] = POOL[choice - 1].to_string();
                    map.push(json!([NS_NAMES[v], POOL[choice - 1]]));
                }
            }
            let scopes: serde_json::Map<String, Value> = NS_NAMES.iter().zip(NS_SCOPES.iter()).map(|(n, s)| (n.to_string(), json!(s))).collect();
            // not a renaming that keeps the meaning: the local of the outer block named like the parameter, or the
            // nested local named like the outer local its initialiser reads
            let invalid = names[12] == names[11] || names[13] == names[12];
            let (base_text, renamed_text) = if resources {
                (ns_program_resources(&base_names), ns_program_resources(&names))
            } else if constant {
                (ns_program_constant(&base_names), ns_program_constant(&names))
            } else {
                (ns_program(&base_names), ns_program(&names))
            };
            json!({"base": base_text, "renamed": renamed_text, "map": map, "names": NS_NAMES, "grouped": [], "scopes": scopes, "invalid": invalid, "no_exec": resources,
                "expect_verbatim": [], "shared_ok": [["li_zz", "vu_zz"]], "class": "namespace_statics", "target": tgt.name(), "arg_seed": 1})
        };
        ctx.run_enum("namespace_static_names", per_target * 9, true, ns_make, |i| {
            let r = ns_make(i);
            if r["invalid"].as_bool().unwrap_or(false) {
                Verdict::pass(None, vec!["namespace_statics_not_a_renaming".into()])
            } else {
                check_record(&r)
            }
        });
    }
    // ---- fresh names for the fixed program's kinds (sanity: the table program itself renames cleanly)
    ctx.run_prop(
        "renamed_generated_programs",
        ctx.tier.pick(8_000, 200_000),
        || (progen::choices_strategy(500), 0u8..5, 0usize..3, any::<u64>()),
        |(ch, class, t, seed): &(Vec<u32>, u8, usize, u64)| make_case(ch, *class, *t, *seed),
        check_record,
    );
    for l in ["class_fresh", "class_reserved", "class_suffix", "class_shared", "class_shared_static_and_locals", "class_namespace_statics", "class_reserved_suffix", "verbatim_checked", "executed", "legal_sharing"] {
        ctx.require_label(l, 50);
    }
}
