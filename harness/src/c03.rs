//! C03 — accepted programs elaborate to well-typed IR; ill-typed programs are rejected.
//!
//! Two oracles.
//!  (1) IR lint: for every accepted program the whole `ir::Module` is walked by an independent
//!      checker with its own structural types: each operation, call, assignment, initialiser,
//!      return, constructor, condition and subscript must receive operands of exactly the types
//!      it requires, writes need non-const lvalues, every id must exist. Additionally RSSL's own
//!      `Expression::get_type` (whose rules are asserts) is run on every expression.
//!  (2) Injection: a generated well-typed program plus one function containing a single typing
//!      violation from a table (with the violation placed in a random expression / statement
//!      context) must be rejected with a diagnostic, while its valid twin is accepted.

use crate::common::*;
use crate::progen;
use crate::xshape::{self, Variant};
use rssl::ir;
use serde_json::{json, Value};

#[derive(Clone, Debug, PartialEq)]
enum LT {
    Void,
    Scalar(ir::ScalarType),
    Vector(ir::ScalarType, u32),
    Matrix(ir::ScalarType, u32, u32),
    Struct(u32),
    Enum(u32),
    Array(Box<LT>, Option<u64>),
    /// object types, templates and everything else outside the modelled subset
    Opaque,
}

#[derive(Clone, Debug)]
struct TV {
    ty: LT,
    is_const: bool,
    lvalue: bool,
}

pub struct Lint<'m> {
    m: &'m ir::Module,
    pub problems: Vec<String>,
    pub exprs: u64,
    pub opaque: u64,
    pub casts: u64,
    pub calls: u64,
    ret: Option<LT>,
    func: String,
}

fn is_int(s: ir::ScalarType) -> bool {
    matches!(s, ir::ScalarType::IntLiteral | ir::ScalarType::Int32 | ir::ScalarType::UInt32)
}
fn is_float(s: ir::ScalarType) -> bool {
    matches!(s, ir::ScalarType::FloatLiteral | ir::ScalarType::Float16 | ir::ScalarType::Float32 | ir::ScalarType::Float64)
}

impl LT {
    fn scalar(&self) -> Option<ir::ScalarType> {
        match self {
            LT::Scalar(s) | LT::Vector(s, _) | LT::Matrix(s, _, _) => Some(*s),
            _ => None,
        }
    }
    fn is_numeric(&self) -> bool {
        self.scalar().is_some()
    }
    fn dims(&self) -> (u32, u32) {
        match self {
            LT::Vector(_, n) => (*n, 1),
            LT::Matrix(_, x, y) => (*x, *y),
            _ => (1, 1),
        }
    }
    fn with_scalar(&self, s: ir::ScalarType) -> LT {
        match self {
            LT::Vector(_, n) => LT::Vector(s, *n),
            LT::Matrix(_, x, y) => LT::Matrix(s, *x, *y),
            _ => LT::Scalar(s),
        }
    }
    fn elements(&self) -> u32 {
        let (x, y) = self.dims();
        x * y
    }
}

impl<'m> Lint<'m> {
    pub fn new(m: &'m ir::Module) -> Lint<'m> {
        Lint { m, problems: Vec::new(), exprs: 0, opaque: 0, casts: 0, calls: 0, ret: None, func: String::new() }
    }

    fn bad(&mut self, rule: &str, detail: String) {
        if self.problems.len() < 8 {
            self.problems.push(format!("{} || in {}: {}", rule, self.func, detail));
        }
    }

    fn lt(&self, id: ir::TypeId) -> (LT, bool) {
        let reg = &self.m.type_registry;
        match reg.get_type_layer(id) {
            ir::TypeLayer::Modifier(m, inner) => {
                let (t, c) = self.lt(inner);
                (t, c || m.is_const)
            }
            ir::TypeLayer::Void => (LT::Void, false),
            ir::TypeLayer::Scalar(s) => (LT::Scalar(s), false),
            ir::TypeLayer::Vector(inner, n) => match self.lt(inner).0 {
                LT::Scalar(s) => (LT::Vector(s, n), false),
                _ => (LT::Opaque, false),
            },
            ir::TypeLayer::Matrix(inner, x, y) => match self.lt(inner).0 {
                LT::Scalar(s) => (LT::Matrix(s, x, y), false),
                _ => (LT::Opaque, false),
            },
            ir::TypeLayer::Struct(id) => (LT::Struct(id.0), false),
            ir::TypeLayer::Enum(id) => (LT::Enum(id.0), false),
            ir::TypeLayer::Array(inner, n) => {
                let (t, c) = self.lt(inner);
                (LT::Array(Box::new(t), n), c)
            }
            _ => (LT::Opaque, false),
        }
    }

    fn constant_type(&self, c: &ir::Constant) -> LT {
        match c {
            ir::Constant::Bool(_) => LT::Scalar(ir::ScalarType::Bool),
            ir::Constant::IntLiteral(_) => LT::Scalar(ir::ScalarType::IntLiteral),
            ir::Constant::Int32(_) => LT::Scalar(ir::ScalarType::Int32),
            ir::Constant::UInt32(_) => LT::Scalar(ir::ScalarType::UInt32),
            ir::Constant::FloatLiteral(_) => LT::Scalar(ir::ScalarType::FloatLiteral),
            ir::Constant::Float16(_) => LT::Scalar(ir::ScalarType::Float16),
            ir::Constant::Float32(_) => LT::Scalar(ir::ScalarType::Float32),
            ir::Constant::Float64(_) => LT::Scalar(ir::ScalarType::Float64),
            ir::Constant::Enum(id, _) => LT::Enum(id.0),
            _ => LT::Opaque,
        }
    }

    fn rv(ty: LT) -> Option<TV> {
        Some(TV { ty, is_const: false, lvalue: false })
    }

    /// type of an expression under the linter's own rules; None = outside the modelled subset
    fn ty(&mut self, e: &ir::Expression) -> Option<TV> {
        self.exprs += 1;
        let m = self.m;
        match e {
            ir::Expression::Literal(c) => Self::rv(self.constant_type(c)),
            ir::Expression::Variable(id) => {
                if id.0 >= m.variable_registry.get_variable_count() {
                    self.bad("dangling-id", format!("local variable {} does not exist", id.0));
                    return None;
                }
                let (ty, c) = self.lt(m.variable_registry.get_local_variable(*id).type_id);
                Some(TV { ty, is_const: c, lvalue: true })
            }
            ir::Expression::Global(id) => {
                if id.0 as usize >= m.global_registry.len() {
                    self.bad("dangling-id", format!("global {} does not exist", id.0));
                    return None;
                }
                let (ty, c) = self.lt(m.global_registry[id.0 as usize].type_id);
                Some(TV { ty, is_const: c, lvalue: true })
            }
            ir::Expression::MemberVariable(sid, idx) => {
                let Some(def) = m.struct_registry.get(sid.0 as usize) else {
                    self.bad("dangling-id", format!("struct {} does not exist", sid.0));
                    return None;
                };
                let Some(member) = def.members.get(*idx as usize) else {
                    self.bad("dangling-id", format!("struct {} has no member {}", def.name.node, idx));
                    return None;
                };
                let (ty, c) = self.lt(member.type_id);
                Some(TV { ty, is_const: c, lvalue: true })
            }
            ir::Expression::EnumValue(id) => {
                let ev = m.enum_registry.get_enum_value(*id);
                Self::rv(LT::Enum(ev.enum_id.0))
            }
            ir::Expression::TernaryConditional(c, a, b) => {
                let ct = self.ty(c);
                let at = self.ty(a);
                let bt = self.ty(b);
                if let Some(ct) = &ct {
                    if ct.ty != LT::Scalar(ir::ScalarType::Bool) && ct.ty != LT::Opaque {
                        self.bad("ternary-condition", format!("condition has type {:?}", ct.ty));
                    }
                }
                match (at, bt) {
                    (Some(a), Some(b)) => {
                        if a.ty != b.ty && a.ty != LT::Opaque && b.ty != LT::Opaque {
                            self.bad("ternary-arms", format!("arms have types {:?} and {:?}", a.ty, b.ty));
                        }
                        Self::rv(a.ty)
                    }
                    _ => None,
                }
            }
            ir::Expression::Sequence(chain) => {
                if chain.is_empty() {
                    self.bad("empty-sequence", "sequence without elements".into());
                    return None;
                }
                let mut last = None;
                for x in chain {
                    last = self.ty(x);
                }
                last
            }
            ir::Expression::Swizzle(v, slots) => {
                let vt = self.ty(v)?;
                let (s, n) = match &vt.ty {
                    LT::Scalar(s) => (*s, 1),
                    LT::Vector(s, n) => (*s, *n),
                    LT::Opaque => return None,
                    other => {
                        self.bad("swizzle-base", format!("swizzle of {:?}", other));
                        return None;
                    }
                };
                if slots.is_empty() || slots.len() > 4 {
                    self.bad("swizzle-length", format!("{} components", slots.len()));
                }
                let idx: Vec<u32> = slots
                    .iter()
                    .map(|x| match x {
                        ir::SwizzleSlot::X => 0,
                        ir::SwizzleSlot::Y => 1,
                        ir::SwizzleSlot::Z => 2,
                        ir::SwizzleSlot::W => 3,
                    })
                    .collect();
                if idx.iter().any(|i| *i >= n) {
                    self.bad("swizzle-range", format!("component {:?} of a {}-component value", idx, n));
                }
                let repeated = (0..idx.len()).any(|i| idx[..i].contains(&idx[i]));
                let ty = if slots.len() == 1 { LT::Scalar(s) } else { LT::Vector(s, slots.len() as u32) };
                Some(TV { ty, is_const: vt.is_const, lvalue: vt.lvalue && !repeated })
            }
            ir::Expression::ArraySubscript(a, i) => {
                let at = self.ty(a);
                let it = self.ty(i);
                let at = at?;
                let elem = match &at.ty {
                    LT::Array(inner, _) => (**inner).clone(),
                    LT::Vector(s, _) => LT::Scalar(*s),
                    LT::Matrix(s, _, y) => LT::Vector(*s, *y),
                    LT::Opaque => return None,
                    other => {
                        self.bad("subscript-base", format!("subscript of {:?}", other));
                        return None;
                    }
                };
                if let Some(it) = it {
                    match it.ty {
                        LT::Scalar(s) if is_int(s) => {}
                        LT::Opaque => {}
                        other => self.bad("subscript-index", format!("index has type {:?}", other)),
                    }
                }
                Some(TV { ty: elem, is_const: at.is_const, lvalue: at.lvalue })
            }
            ir::Expression::StructMember(base, sid, idx) => {
                let bt = self.ty(base);
                let Some(def) = m.struct_registry.get(sid.0 as usize) else {
                    self.bad("dangling-id", format!("struct {} does not exist", sid.0));
                    return None;
                };
                let Some(member) = def.members.get(*idx as usize) else {
                    self.bad("dangling-id", format!("struct {} has no member {}", def.name.node, idx));
                    return None;
                };
                let (ty, c) = self.lt(member.type_id);
                let bt = bt?;
                match &bt.ty {
                    LT::Struct(s) if *s == sid.0 => {}
                    LT::Opaque => {}
                    other => self.bad("member-base", format!("member of struct {} taken from {:?}", def.name.node, other)),
                }
                Some(TV { ty, is_const: c || bt.is_const, lvalue: bt.lvalue })
            }
            ir::Expression::Call(fid, ct, args) => {
                self.calls += 1;
                let arg_types: Vec<Option<TV>> = args.iter().map(|a| self.ty(a)).collect();
                if fid.0 >= m.function_registry.get_function_count() {
                    self.bad("dangling-id", format!("function {} does not exist", fid.0));
                    return None;
                }
                let sig = m.function_registry.get_function_signature(*fid);
                let ret = self.lt(sig.return_type.return_type).0;
                if m.function_registry.get_intrinsic_data(*fid).is_some() {
                    // intrinsic signatures use object and template types: outside the modelled subset
                    self.opaque += 1;
                    return Self::rv(ret);
                }
                let name = m.function_registry.get_function_name(*fid).to_string();
                let offset = if matches!(ct, ir::CallType::MethodExternal) { 1 } else { 0 };
                let given = args.len().saturating_sub(offset);
                if given > sig.param_types.len() || given < sig.non_default_params {
                    self.bad("call-arity", format!("{} called with {} arguments, takes {}..={}", name, given, sig.non_default_params, sig.param_types.len()));
                }
                for (i, p) in sig.param_types.iter().enumerate() {
                    let Some(Some(a)) = arg_types.get(i + offset) else { continue };
                    let (pt, _) = self.lt(p.type_id);
                    if pt == LT::Opaque || a.ty == LT::Opaque {
                        continue;
                    }
                    if pt != a.ty {
                        self.bad("call-argument-type", format!("argument {} of {} has type {:?} but the parameter has type {:?}", i, name, a.ty, pt));
                    }
                    if !matches!(p.input_modifier, ir::InputModifier::In) {
                        if !a.lvalue {
                            self.bad("call-out-rvalue", format!("argument {} of {} is passed to an out / inout parameter but is not an lvalue", i, name));
                        }
                        if a.is_const {
                            self.bad("call-out-const", format!("argument {} of {} is passed to an out / inout parameter but is const", i, name));
                        }
                    }
                }
                Self::rv(ret)
            }
            ir::Expression::Constructor(tid, slots) => {
                let (ty, _) = self.lt(*tid);
                let slot_types: Vec<Option<TV>> = slots.iter().map(|s| self.ty(&s.expr)).collect();
                let Some(s) = ty.scalar() else {
                    if ty != LT::Opaque {
                        self.bad("constructor-type", format!("constructor of {:?}", ty));
                    }
                    return None;
                };
                let total: u32 = slots.iter().map(|s| s.arity).sum();
                if total != ty.elements() {
                    self.bad("constructor-arity", format!("constructor of {:?} given {} components", ty, total));
                }
                for (slot, st) in slots.iter().zip(slot_types) {
                    let Some(st) = st else { continue };
                    if st.ty == LT::Opaque {
                        continue;
                    }
                    if st.ty.scalar() != Some(s) || st.ty.elements() != slot.arity {
                        self.bad("constructor-slot", format!("slot of arity {} for scalar {:?} holds {:?}", slot.arity, s, st.ty));
                    }
                }
                Self::rv(ty)
            }
            ir::Expression::Cast(tid, inner) => {
                self.casts += 1;
                let (to, _) = self.lt(*tid);
                let from = self.ty(inner)?;
                let ok = match (&from.ty, &to) {
                    (LT::Opaque, _) | (_, LT::Opaque) => true,
                    (a, b) if a == b => true,
                    (a, b) if (a.is_numeric() || matches!(a, LT::Enum(_))) && (b.is_numeric() || matches!(b, LT::Enum(_))) => {
                        let (ax, ay) = a.dims();
                        let (bx, by) = b.dims();
                        // same shape, splat from one element, or truncation
                        (ax, ay) == (bx, by) || a.elements() == 1 || (bx <= ax && by <= ay)
                    }
                    // a numeric zero / value spread over an aggregate: (S)0
                    (a, LT::Struct(_)) | (a, LT::Array(..)) if a.is_numeric() && a.elements() == 1 => true,
                    _ => false,
                };
                if !ok {
                    self.bad("cast", format!("cast from {:?} to {:?}", from.ty, to));
                }
                Self::rv(to)
            }
            ir::Expression::SizeOf(_) => Self::rv(LT::Scalar(ir::ScalarType::UInt32)),
            ir::Expression::IntrinsicOp(op, args) => self.intrinsic_op(op, args),
            _ => {
                self.opaque += 1;
                None
            }
        }
    }

    fn intrinsic_op(&mut self, op: &ir::IntrinsicOp, args: &[ir::Expression]) -> Option<TV> {
        use ir::IntrinsicOp::*;
        let ts: Vec<Option<TV>> = args.iter().map(|a| self.ty(a)).collect();
        let name = format!("{:?}", op);
        let unary = matches!(op, PrefixIncrement | PrefixDecrement | PostfixIncrement | PostfixDecrement | Plus | Minus | LogicalNot | BitwiseNot);
        let binary = matches!(
            op,
            Add | Subtract | Multiply | Divide | Modulus | LeftShift | RightShift | BitwiseAnd | BitwiseOr | BitwiseXor | BooleanAnd | BooleanOr | LessThan | LessEqual | GreaterThan | GreaterEqual | Equality | Inequality | Assignment | SumAssignment | DifferenceAssignment | ProductAssignment | QuotientAssignment | RemainderAssignment | LeftShiftAssignment | RightShiftAssignment | BitwiseAndAssignment | BitwiseOrAssignment | BitwiseXorAssignment
        );
        if !unary && !binary {
            self.opaque += 1;
            return None;
        }
        if (unary && args.len() != 1) || (binary && args.len() != 2) {
            self.bad("operator-arity", format!("{} with {} operands", name, args.len()));
            return None;
        }
        let a = ts[0].clone()?;
        if a.ty == LT::Opaque {
            return None;
        }
        if unary {
            return match op {
                PrefixIncrement | PrefixDecrement | PostfixIncrement | PostfixDecrement => {
                    if !a.lvalue {
                        self.bad("write-rvalue", format!("{} of something that is not an lvalue", name));
                    }
                    if a.is_const {
                        self.bad("write-const", format!("{} of a const object", name));
                    }
                    match a.ty.scalar() {
                        Some(s) if s != ir::ScalarType::Bool => {}
                        _ => self.bad("operand-type", format!("{} of {:?}", name, a.ty)),
                    }
                    let prefix = matches!(op, PrefixIncrement | PrefixDecrement);
                    Some(TV { ty: a.ty, is_const: false, lvalue: prefix && a.lvalue })
                }
                Plus | Minus => {
                    match &a.ty {
                        t if t.is_numeric() => {
                            if *op == Minus && t.scalar() == Some(ir::ScalarType::Bool) {
                                self.bad("operand-type", format!("{} of {:?}", name, a.ty));
                            }
                        }
                        LT::Enum(_) => {}
                        other => self.bad("operand-type", format!("{} of {:?}", name, other)),
                    }
                    Self::rv(a.ty)
                }
                LogicalNot => {
                    if a.ty.scalar() != Some(ir::ScalarType::Bool) || matches!(a.ty, LT::Matrix(..)) {
                        self.bad("operand-type", format!("{} of {:?}", name, a.ty));
                    }
                    Self::rv(a.ty)
                }
                _ => {
                    match &a.ty {
                        t if t.scalar().map(is_int).unwrap_or(false) => {}
                        LT::Enum(_) => {}
                        other => self.bad("operand-type", format!("{} of {:?}", name, other)),
                    }
                    Self::rv(a.ty)
                }
            };
        }
        let b = ts[1].clone()?;
        if b.ty == LT::Opaque {
            return None;
        }
        if a.ty != b.ty {
            self.bad("operand-mismatch", format!("{} on {:?} and {:?}", name, a.ty, b.ty));
        }
        let scalar = a.ty.scalar();
        let arithmetic_ok = |t: &LT| t.is_numeric() && t.scalar() != Some(ir::ScalarType::Bool) || matches!(t, LT::Enum(_));
        let integer_ok = |t: &LT| t.scalar().map(is_int).unwrap_or(false) || matches!(t, LT::Enum(_));
        let assignment = matches!(op, Assignment | SumAssignment | DifferenceAssignment | ProductAssignment | QuotientAssignment | RemainderAssignment | LeftShiftAssignment | RightShiftAssignment | BitwiseAndAssignment | BitwiseOrAssignment | BitwiseXorAssignment);
        if assignment {
            if !a.lvalue {
                self.bad("write-rvalue", format!("{} to something that is not an lvalue", name));
            }
            if a.is_const {
                self.bad("write-const", format!("{} to a const object", name));
            }
            match op {
                Assignment => {}
                LeftShiftAssignment | RightShiftAssignment | BitwiseAndAssignment | BitwiseOrAssignment | BitwiseXorAssignment => {
                    // bool |= bool and the like are kept on bools by the typer
                    if !integer_ok(&a.ty) && scalar != Some(ir::ScalarType::Bool) {
                        self.bad("operand-type", format!("{} on {:?}", name, a.ty));
                    }
                }
                _ => {
                    if !a.ty.is_numeric() && !matches!(a.ty, LT::Enum(_)) {
                        self.bad("operand-type", format!("{} on {:?}", name, a.ty));
                    }
                }
            }
            return Some(TV { ty: a.ty, is_const: false, lvalue: a.lvalue });
        }
        match op {
            Add | Subtract | Multiply | Divide | Modulus => {
                if !arithmetic_ok(&a.ty) {
                    self.bad("operand-type", format!("{} on {:?}", name, a.ty));
                }
                Self::rv(a.ty)
            }
            LeftShift | RightShift | BitwiseAnd | BitwiseOr | BitwiseXor => {
                if !integer_ok(&a.ty) {
                    self.bad("operand-type", format!("{} on {:?}", name, a.ty));
                }
                Self::rv(a.ty)
            }
            BooleanAnd | BooleanOr => {
                if a.ty != LT::Scalar(ir::ScalarType::Bool) {
                    self.bad("operand-type", format!("{} on {:?}", name, a.ty));
                }
                Self::rv(LT::Scalar(ir::ScalarType::Bool))
            }
            _ => {
                // comparisons
                if !a.ty.is_numeric() && !matches!(a.ty, LT::Enum(_)) {
                    self.bad("operand-type", format!("{} on {:?}", name, a.ty));
                }
                Self::rv(a.ty.with_scalar(ir::ScalarType::Bool))
            }
        }
    }

    fn initializer(&mut self, init: &ir::Initializer, want: &LT, what: &str) {
        match init {
            ir::Initializer::Expression(e) => {
                if let Some(t) = self.ty(e) {
                    if t.ty != *want && t.ty != LT::Opaque && *want != LT::Opaque {
                        self.bad("initialiser-type", format!("{} of type {:?} initialised with {:?}", what, want, t.ty));
                    }
                }
            }
            ir::Initializer::Aggregate(items) => match want {
                LT::Array(inner, n) => {
                    if let Some(n) = n {
                        if *n as usize != items.len() {
                            self.bad("initialiser-count", format!("{}: array of {} initialised with {} elements", what, n, items.len()));
                        }
                    }
                    for i in items {
                        self.initializer(i, inner, what);
                    }
                }
                LT::Struct(sid) => {
                    let members: Vec<LT> = self.m.struct_registry[*sid as usize].members.iter().map(|m| self.lt(m.type_id).0).collect();
                    if members.len() != items.len() {
                        self.bad("initialiser-count", format!("{}: struct with {} members initialised with {} elements", what, members.len(), items.len()));
                    }
                    for (i, t) in items.iter().zip(members.iter()) {
                        self.initializer(i, t, what);
                    }
                }
                LT::Vector(s, n) => {
                    if *n as usize != items.len() {
                        self.bad("initialiser-count", format!("{}: vector of {} initialised with {} elements", what, n, items.len()));
                    }
                    for i in items {
                        self.initializer(i, &LT::Scalar(*s), what);
                    }
                }
                LT::Opaque | LT::Matrix(..) => {
                    self.opaque += 1;
                }
                other => self.bad("initialiser-shape", format!("{}: aggregate initialiser for {:?}", what, other)),
            },
        }
    }

    fn condition(&mut self, e: &ir::Expression, what: &str) {
        if let Some(t) = self.ty(e) {
            match &t.ty {
                LT::Opaque => {}
                // the condition is used as a boolean: any numeric type converts
                t if t.is_numeric() => {}
                LT::Enum(_) => {}
                other => self.bad("condition-type", format!("{} condition has type {:?}", what, other)),
            }
        }
    }

    fn var_def(&mut self, d: &ir::VarDef) {
        if d.id.0 >= self.m.variable_registry.get_variable_count() {
            self.bad("dangling-id", format!("local variable {} does not exist", d.id.0));
            return;
        }
        let v = self.m.variable_registry.get_local_variable(d.id);
        let (ty, _) = self.lt(v.type_id);
        if ty == LT::Void {
            self.bad("void-variable", format!("variable {} has type void", v.name.node));
        }
        if let Some(i) = &d.init {
            let name = v.name.node.clone();
            self.initializer(i, &ty, &format!("variable {}", name));
        }
    }

    fn block(&mut self, b: &ir::ScopeBlock) {
        for s in &b.0 {
            self.stmt(s);
        }
    }

    fn stmt(&mut self, s: &ir::Statement) {
        use ir::StatementKind::*;
        match &s.kind {
            Expression(e) => {
                self.ty(e);
            }
            Var(d) => self.var_def(d),
            Block(b) => self.block(b),
            If(c, b) => {
                self.condition(c, "if");
                self.block(b);
            }
            IfElse(c, a, b) => {
                self.condition(c, "if");
                self.block(a);
                self.block(b);
            }
            For(init, c, inc, body) => {
                match init {
                    ir::ForInit::Empty => {}
                    ir::ForInit::Expression(e) => {
                        self.ty(e);
                    }
                    ir::ForInit::Definitions(defs) => {
                        for d in defs {
                            self.var_def(d);
                        }
                    }
                }
                if let Some(c) = c {
                    self.condition(c, "for");
                }
                if let Some(i) = inc {
                    self.ty(i);
                }
                self.block(body);
            }
            While(c, b) => {
                self.condition(c, "while");
                self.block(b);
            }
            DoWhile(b, c) => {
                self.block(b);
                self.condition(c, "do-while");
            }
            Switch(e, b) => {
                if let Some(t) = self.ty(e) {
                    match &t.ty {
                        LT::Scalar(s) if is_int(*s) || *s == ir::ScalarType::Bool => {}
                        LT::Enum(_) | LT::Opaque => {}
                        other => self.bad("switch-type", format!("switch on {:?}", other)),
                    }
                }
                self.block(b);
            }
            Return(e) => {
                let want = self.ret.clone().unwrap_or(LT::Opaque);
                match e {
                    None => {
                        if want != LT::Void && want != LT::Opaque {
                            self.bad("return-type", format!("return without a value in a function returning {:?}", want));
                        }
                    }
                    Some(e) => {
                        if let Some(t) = self.ty(e) {
                            if want == LT::Void && t.ty != LT::Void {
                                self.bad("return-type", format!("return of {:?} in a void function", t.ty));
                            } else if t.ty != want && t.ty != LT::Opaque && want != LT::Opaque {
                                self.bad("return-type", format!("return of {:?} in a function returning {:?}", t.ty, want));
                            }
                        }
                    }
                }
            }
            Break | Continue | Discard | CaseLabel(_) | DefaultLabel => {}
        }
    }

    pub fn module(&mut self) {
        let m = self.m;
        for g in 0..m.global_registry.len() {
            let def = &m.global_registry[g];
            self.func = format!("global {}", def.name.node);
            self.ret = None;
            if let Some(i) = &def.init {
                let (ty, _) = self.lt(def.type_id);
                self.initializer(i, &ty, "global");
            }
        }
        for id in m.function_registry.iter() {
            if m.function_registry.get_intrinsic_data(id).is_some() {
                continue;
            }
            let sig = m.function_registry.get_function_signature(id);
            if !sig.template_params.is_empty() && m.function_registry.get_template_instantiation_data(id).is_none() {
                continue;
            }
            let Some(imp) = m.function_registry.get_function_implementation(id) else { continue };
            self.func = format!("function {}", m.function_registry.get_function_name(id));
            self.ret = Some(self.lt(sig.return_type.return_type).0);
            if imp.params.len() != sig.param_types.len() {
                self.bad("signature", format!("{} parameters in the implementation, {} in the signature", imp.params.len(), sig.param_types.len()));
            }
            for (p, st) in imp.params.iter().zip(sig.param_types.iter()) {
                if p.param_type != *st {
                    self.bad("signature", "parameter type differs between implementation and signature".into());
                }
                if p.id.0 >= m.variable_registry.get_variable_count() {
                    self.bad("dangling-id", format!("parameter variable {} does not exist", p.id.0));
                    continue;
                }
                let (vt, _) = self.lt(m.variable_registry.get_local_variable(p.id).type_id);
                let (pt, _) = self.lt(p.param_type.type_id);
                if vt != pt {
                    self.bad("signature", format!("parameter variable has type {:?} but the parameter type is {:?}", vt, pt));
                }
                if let Some(d) = &p.default_expr {
                    // default values are stored unconverted: they only have to be convertible
                    if let Some(t) = self.ty(d) {
                        let ok = t.ty == pt || t.ty == LT::Opaque || pt == LT::Opaque || ((t.ty.is_numeric() || matches!(t.ty, LT::Enum(_))) && pt.is_numeric());
                        if !ok {
                            self.bad("default-argument-type", format!("default of type {:?} for a parameter of type {:?}", t.ty, pt));
                        }
                    }
                }
            }
            self.block(&imp.scope_block);
        }
    }
}

/// RSSL's own typing rules (asserts in get_type / get_return_type) over every expression
fn own_rules(m: &ir::Module) -> Result<u64, String> {
    fn walk_e(e: &ir::Expression, m: &ir::Module, n: &mut u64) {
        *n += 1;
        let _ = e.get_type(m);
        match e {
            ir::Expression::TernaryConditional(a, b, c) => {
                walk_e(a, m, n);
                walk_e(b, m, n);
                walk_e(c, m, n);
            }
            ir::Expression::Sequence(v) => v.iter().for_each(|x| walk_e(x, m, n)),
            ir::Expression::Swizzle(a, _) | ir::Expression::MatrixSwizzle(a, _) | ir::Expression::StructMember(a, _, _) | ir::Expression::ObjectMember(a, _) | ir::Expression::Cast(_, a) => walk_e(a, m, n),
            ir::Expression::ArraySubscript(a, b) => {
                walk_e(a, m, n);
                walk_e(b, m, n);
            }
            ir::Expression::Call(_, _, v) | ir::Expression::IntrinsicOp(_, v) => v.iter().for_each(|x| walk_e(x, m, n)),
            ir::Expression::Constructor(_, slots) => slots.iter().for_each(|s| walk_e(&s.expr, m, n)),
            _ => {}
        }
    }
    fn walk_i(i: &ir::Initializer, m: &ir::Module, n: &mut u64) {
        match i {
            ir::Initializer::Expression(e) => walk_e(e, m, n),
            ir::Initializer::Aggregate(v) => v.iter().for_each(|x| walk_i(x, m, n)),
        }
    }
    fn walk_b(b: &ir::ScopeBlock, m: &ir::Module, n: &mut u64) {
        use ir::StatementKind::*;
        for s in &b.0 {
            match &s.kind {
                Expression(e) => walk_e(e, m, n),
                Var(d) => {
                    if let Some(i) = &d.init {
                        walk_i(i, m, n)
                    }
                }
                Block(b) => walk_b(b, m, n),
                If(c, b) | While(c, b) | Switch(c, b) => {
                    walk_e(c, m, n);
                    walk_b(b, m, n);
                }
                DoWhile(b, c) => {
                    walk_b(b, m, n);
                    walk_e(c, m, n);
                }
                IfElse(c, a, b) => {
                    walk_e(c, m, n);
                    walk_b(a, m, n);
                    walk_b(b, m, n);
                }
                For(init, c, inc, body) => {
                    match init {
                        ir::ForInit::Expression(e) => walk_e(e, m, n),
                        ir::ForInit::Definitions(defs) => {
                            for d in defs {
                                if let Some(i) = &d.init {
                                    walk_i(i, m, n)
                                }
                            }
                        }
                        ir::ForInit::Empty => {}
                    }
                    if let Some(c) = c {
                        walk_e(c, m, n);
                    }
                    if let Some(i) = inc {
                        walk_e(i, m, n);
                    }
                    walk_b(body, m, n);
                }
                Return(Some(e)) => walk_e(e, m, n),
                _ => {}
            }
        }
    }
    guard(|| {
        let mut n = 0u64;
        for g in 0..m.global_registry.len() {
            if let Some(i) = &m.global_registry[g].init {
                walk_i(i, m, &mut n);
            }
        }
        for id in m.function_registry.iter() {
            if let Some(imp) = m.function_registry.get_function_implementation(id) {
                for p in &imp.params {
                    if let Some(d) = &p.default_expr {
                        walk_e(d, m, &mut n);
                    }
                }
                walk_b(&imp.scope_block, m, &mut n);
            }
        }
        n
    })
}

fn lint_source(src: &str, must_accept: bool) -> Verdict {
    let m = match type_check_text(src) {
        Err(p) => return Verdict::fail(format!("panic:{}", p), format!("the type checker panicked\n{}", src)),
        Ok(Err(d)) => {
            if must_accept {
                return Verdict::fail("valid-program-rejected", format!("{}\n--- source\n{}", d, src));
            }
            return Verdict::Skip(format!("front end rejects: {}", normalise_panic(d.lines().next().unwrap_or(""))));
        }
        Ok(Ok(m)) => m,
    };
    if let Err(p) = own_rules(&m) {
        return Verdict::fail(format!("own-rules:{}", p), format!("Expression::get_type asserted on the accepted program\n{}", src));
    }
    let mut l = Lint::new(&m);
    l.module();
    if let Some(p) = l.problems.first() {
        let rule = p.split(" || ").next().unwrap_or("lint").to_string();
        return Verdict::fail(format!("lint:{}", rule), format!("{}\n--- source\n{}", l.problems.join("\n"), src));
    }
    let mut labels = vec![format!("casts_{}", if l.casts == 0 { "0" } else if l.casts < 10 { "1-9" } else { "10+" })];
    if l.calls > 0 {
        labels.push("user_calls".into());
    }
    if l.opaque > 0 {
        labels.push("has_opaque_parts".into());
    }
    Verdict::pass(if l.exprs >= 3 { Some(hash_of(&src)) } else { None }, labels)
}

// ---------------------------------------------------------------------------------------------
// injected violations

const PRELUDE: &str = "struct ZS { int m; float2 v; int arr[2]; };\nstruct ZT { ZS s; float q; };\nenum ZE { ZA, ZB };\nstatic const int zkc = 3;\nstatic int zgs = 1;\nstatic const ZS zks = { 1, float2(1, 2), { 1, 2 } };\nstatic const int zka[2] = { 1, 2 };\nvoid zo(out int x) { x = 1; }\nvoid zio(inout int x) { x += 1; }\nvoid zov(out float2 x) { x = float2(1, 2); }\nint ztwo(int a, int b) { return a + b; }\nint zdflt(int a, int b = 2) { return a + b; }\nZS zmk() { ZS s; s.m = 1; s.v = float2(0, 0); s.arr[0] = 0; s.arr[1] = 0; return s; }\nint ztakes(ZS s) { return s.m; }\nvoid znothing() { }\n";

/// (name, declarations inside the function, the bad expression or statement, the valid twin)
/// `@` marks where the context wrapper puts the expression; entries with kind 's' are whole statements.
const VIOLATIONS: &[(&str, &str, char, &str, &str)] = &[
    ("const-assign", "const int c = 1; int n = 1;", 'e', "c = 2", "n = 2"),
    ("const-compound", "const int c = 1; int n = 1;", 'e', "c += 2", "n += 2"),
    ("const-shift-assign", "const int c = 1; int n = 1;", 'e', "c <<= 2", "n <<= 2"),
    ("const-postinc", "const int c = 1; int n = 1;", 'e', "c++", "n++"),
    ("const-predec", "const int c = 1; int n = 1;", 'e', "--c", "--n"),
    ("const-struct-member", "const ZS c = zmk(); ZS n = zmk();", 'e', "c.m = 2", "n.m = 2"),
    ("const-nested-member", "const ZT c; ZT n;", 'e', "c.s.m = 2", "n.s.m = 2"),
    ("const-member-swizzle", "const ZT c; ZT n;", 'e', "c.s.v.x = 2", "n.s.v.x = 2"),
    ("const-member-element", "const ZT c; ZT n;", 'e', "c.s.arr[1] += 2", "n.s.arr[1] += 2"),
    ("const-array-element", "const int c[2] = { 1, 2 }; int n[2] = { 1, 2 };", 'e', "c[0] = 2", "n[0] = 2"),
    ("const-vector-component", "const float2 c = float2(1, 2); float2 n = float2(1, 2);", 'e', "c.y = 2", "n.y = 2"),
    ("const-vector-subscript", "const float2 c = float2(1, 2); float2 n = float2(1, 2);", 'e', "c[1] = 2", "n[1] = 2"),
    ("const-global", "", 'e', "zkc = 1", "zgs = 1"),
    ("const-global-member", "ZS n = zmk();", 'e', "zks.m = 1", "n.m = 1"),
    ("const-global-element", "ZS n = zmk();", 'e', "zks.arr[0]++", "n.arr[0]++"),
    ("rvalue-sum", "int a = 1, b = 2;", 'e', "(a + b) = 3", "a = 3"),
    ("rvalue-call", "int a = 1;", 'e', "ztwo(1, 2) = 3", "a = 3"),
    ("rvalue-literal", "int a = 1;", 'e', "5 = 3", "a = 3"),
    ("rvalue-postinc", "int a = 1;", 'e', "a++ = 3", "++a = 3"),
    ("rvalue-negation", "int a = 1;", 'e', "-a = 3", "a = 3"),
    ("rvalue-repeated-swizzle", "float2 v = float2(1, 2);", 'e', "v.xx = float2(3, 4)", "v.yx = float2(3, 4)"),
    ("rvalue-member-of-call", "ZS n = zmk();", 'e', "zmk().m = 3", "n.m = 3"),
    ("rvalue-increment-literal", "int a = 1;", 'e', "5++", "a++"),
    ("rvalue-increment-sum", "int a = 1, b = 2;", 'e', "++(a + b)", "++a"),
    ("rvalue-cast", "int a = 1; float fl = 1;", 'e', "(float)a = 2.0", "fl = 2.0"),
    ("rvalue-compound", "int a = 1, b = 2;", 'e', "(a * b) -= 1", "a -= 1"),
    ("out-literal", "int a = 1;", 'e', "zo(5)", "zo(a)"),
    ("out-sum", "int a = 1, b = 2;", 'e', "zo(a + b)", "zo(a)"),
    ("out-const", "const int c = 1; int a = 1;", 'e', "zo(c)", "zo(a)"),
    ("out-call", "int a = 1;", 'e', "zo(ztwo(1, 2))", "zo(a)"),
    ("out-repeated-swizzle", "float2 v = float2(1, 2);", 'e', "zov(v.xx)", "zov(v.yx)"),
    ("out-const-member", "const ZS c = zmk(); ZS n = zmk();", 'e', "zo(c.m)", "zo(n.m)"),
    ("out-const-global", "int a = 1;", 'e', "zo(zkc)", "zo(zgs)"),
    ("inout-literal", "int a = 1;", 'e', "zio(5)", "zio(a)"),
    ("inout-const", "const int c = 1; int a = 1;", 'e', "zio(c)", "zio(a)"),
    ("inout-postinc", "int a = 1;", 'e', "zio(a++)", "zio(a)"),
    ("arguments-too-few", "", 'e', "ztwo(1)", "ztwo(1, 2)"),
    ("arguments-too-many", "", 'e', "ztwo(1, 2, 3)", "ztwo(1, 2)"),
    ("arguments-none", "", 'e', "ztwo()", "ztwo(1, 2)"),
    ("arguments-default-too-few", "", 'e', "zdflt()", "zdflt(1)"),
    ("arguments-default-too-many", "", 'e', "zdflt(1, 2, 3)", "zdflt(1, 2)"),
    ("argument-struct-for-int", "ZS s = zmk();", 'e', "ztwo(s, 1)", "ztwo(s.m, 1)"),
    ("argument-int-for-struct", "ZS s = zmk();", 'e', "ztakes(1)", "ztakes(s)"),
    ("argument-array-for-int", "int a[2] = { 1, 2 };", 'e', "ztwo(a, 1)", "ztwo(a[0], 1)"),
    ("argument-other-struct", "ZT t; ZS s = zmk();", 'e', "ztakes(t)", "ztakes(t.s)"),
    ("argument-void", "", 'e', "ztwo(znothing(), 1)", "ztwo(zgs, 1)"),
    ("return-struct-from-int", "ZS s = zmk();", 'r', "int|s", "int|s.m"),
    ("return-value-from-void", "", 'r', "void|1", "int|1"),
    ("return-nothing-from-int", "", 'r', "int|", "void|"),
    ("return-int-from-struct", "ZS s = zmk();", 'r', "ZS|1", "ZS|s"),
    ("return-other-struct", "ZT t; t.q = 1;", 'r', "ZS|t", "ZS|t.s"),
    ("return-array-from-int", "int a[2] = { 1, 2 };", 'r', "int|a", "int|a[1]"),
    ("initialise-struct-from-int", "", 's', "ZS s = 1;", "ZS s = zmk();"),
    ("initialise-int-from-struct", "", 's', "int a = zmk();", "int a = zmk().m;"),
    ("assign-other-struct", "ZS s = zmk(); ZT t;", 'e', "s = t", "s = t.s"),
    ("condition-struct", "ZS s = zmk();", 's', "if (s) { }", "if (s.m) { }"),
    ("condition-array", "int a[2] = { 1, 2 };", 's', "while (a) { break; }", "while (a[0]) { break; }"),
    ("condition-void", "", 's', "if (znothing()) { }", "if (zgs) { }"),
    ("switch-float", "float x = 1; int i = 1;", 's', "switch (x) { case 1: break; }", "switch (i) { case 1: break; }"),
    ("switch-struct", "ZS s = zmk();", 's', "switch (s) { default: break; }", "switch (s.m) { default: break; }"),
    ("undefined-variable", "int yes = 1;", 'e', "nope + 1", "yes + 1"),
    ("undefined-function", "", 'e', "nope(1)", "ztwo(1, 1)"),
    ("member-missing", "ZS s = zmk();", 'e', "s.zz", "s.m"),
    ("swizzle-out-of-range", "float2 v = float2(1, 2);", 'e', "v.z", "v.y"),
    ("vector-extension", "float2 v = float2(1, 2); float3 w = float3(1, 2, 3);", 's', "float3 x = v;", "float2 x = w;"),
    ("swizzle-too-long", "float4 zv = float4(1, 2, 3, 4);", 'e', "zv.xyzwx", "zv.xyzw"),
    ("swizzle-too-long-colours", "float3 zv = float3(1, 2, 3);", 'e', "zv.rgbrg", "zv.rgbr"),
    ("scalar-swizzle-too-long", "float zs = 1;", 'e', "zs.xxxxx", "zs.xxxx"),
    ("constructor-too-few", "", 'e', "float3(1, 2)", "float3(1, 2, 3)"),
    ("constructor-too-many", "", 'e', "float2(1, 2, 3)", "float2(1, 2)"),
    ("subscript-struct", "ZS s = zmk();", 'e', "s[0]", "s.arr[0]"),
    ("call-non-function", "int a = 1;", 'e', "a(1)", "ztwo(a, 1)"),
    ("arithmetic-struct", "ZS s = zmk();", 'e', "s + s", "s.m + s.m"),
    ("negate-struct", "ZS s = zmk();", 'e', "-s", "-s.m"),
    ("not-struct", "ZS s = zmk();", 'e', "!s", "!s.m"),
    ("ternary-struct-condition", "ZS s = zmk();", 'e', "s ? 1 : 2", "s.m ? 1 : 2"),
    ("ternary-mixed-arms", "ZS s = zmk();", 'e', "true ? s : 2", "true ? s.m : 2"),
    ("void-in-arithmetic", "", 'e', "znothing() + 1", "zgs + 1"),
    ("enum-from-int", "", 's', "ZE e = 1;", "ZE e = ZB;"),
    ("float-bitand", "float a = 1; int i = 1;", 'e', "a & 1", "i & 1"),
    ("float-shift", "float a = 1; int i = 1;", 'e', "a << 1", "i << 1"),
    ("float-or-assign", "float a = 1; int i = 1;", 'e', "a |= 1", "i |= 1"),
    ("float-shift-assign", "float a = 1; int i = 1;", 'e', "a >>= 1", "i >>= 1"),
    ("struct-add-assign", "ZS s = zmk();", 'e', "s += s", "s.m += s.m"),
    ("bool-increment", "bool b = true; int i = 1;", 'e', "b++", "i++"),
    ("array-assign-size", "int a[2] = { 1, 2 }; int b[3] = { 1, 2, 3 }; int c[2] = { 3, 4 };", 'e', "a = b", "a = c"),
    ("array-initialiser-too-many", "", 's', "int a[2] = { 1, 2, 3 };", "int a[3] = { 1, 2, 3 };"),
    ("array-initialiser-too-few", "", 's', "int a[3] = { 1, 2 };", "int a[2] = { 1, 2 };"),
    ("struct-initialiser-too-many", "", 's', "ZT t = { zmk(), 1.0, 2.0 };", "ZT t = { zmk(), 1.0 };"),
    // parts of a value that is not an lvalue
    ("rvalue-element-of-call", "ZS n = zmk();", 'e', "zmk().arr[0] = 3", "n.arr[0] = 3"),
    ("rvalue-component-of-call", "ZS n = zmk();", 'e', "zmk().v.x = 3", "n.v.x = 3"),
    ("rvalue-subscript-of-call", "ZS n = zmk();", 'e', "zmk().v[1] = 3", "n.v[1] = 3"),
    ("rvalue-element-of-sum", "float2 v = float2(1, 2);", 'e', "(v + v)[0] = 3", "v[0] = 3"),
    ("rvalue-component-increment", "ZS n = zmk();", 'e', "zmk().m++", "n.m++"),
    ("out-element-of-call", "ZS n = zmk();", 'e', "zo(zmk().arr[1])", "zo(n.arr[1])"),
    // whole arrays
    ("const-array-assign", "const int c[2] = { 1, 2 }; int n[2] = { 1, 2 }; int o[2] = { 3, 4 };", 'e', "c = o", "n = o"),
    ("const-global-array-assign", "int n[2] = { 1, 2 };", 'e', "zks.arr = n", "n = zks.arr"),
    ("const-global-whole-array-assign", "int n[2] = { 1, 2 };", 'e', "zka = n", "n[0] = zka[0]"),
    ("const-global-array-from-const-array", "", 'e', "zka = zks.arr", "zgs = zka[0]"),
    ("const-global-array-element", "int n[2] = { 1, 2 };", 'e', "zka[1] = 3", "n[1] = zka[1]"),
    // increment and decrement of what has no arithmetic
    ("struct-increment", "ZS s = zmk();", 'e', "s++", "s.m++"),
    ("struct-predecrement", "ZS s = zmk();", 'e', "--s", "--s.m"),
    ("array-increment", "int a[2] = { 1, 2 };", 'e', "a++", "a[0]++"),
    ("enum-increment", "ZE e = ZB; int i = 1;", 'e', "e++", "i++"),
    ("enum-compound", "ZE e = ZB; int i = 1;", 'e', "e += 1", "i += 1"),
    // labels
    ("case-float", "int i = 1;", 's', "switch (i) { case 1.5: break; default: break; }", "switch (i) { case 1: break; default: break; }"),
    ("case-not-constant", "int i = 1; int j = 2;", 's', "switch (i) { case j: break; default: break; }", "switch (i) { case 2: break; default: break; }"),
    ("case-struct", "int i = 1; ZS s = zmk();", 's', "switch (i) { case s: break; default: break; }", "switch (i) { case 3: break; default: break; }"),
];

/// expression contexts: the expression under test replaces `@`; each context only needs `@` to be
/// a well-formed expression of any type (it is discarded, compared or converted explicitly)
const CONTEXTS: &[&str] = &[
    "@;",
    "(@);",
    "{ { @; } }",
    "if (zgs > 0) { @; }",
    "for (int zi = 0; zi < 2; zi++) { @; }",
    "for (int zi = 0; zi < 2; (@), zi++) { }",
    "for (@; zgs < 0;) { }",
    "while (zgs < 0) { @; }",
    "do { @; } while (zgs < 0);",
    "switch (zgs) { case 1: @; break; default: break; }",
    "zgs > 0 ? (@, 1) : 2;",
    "(zgs, @);",
    "(@, zgs);",
    "if (zgs > 0) { } else { @; }",
    "{ int zl = 1; { zl += 1; @; } }",
];

fn build(kind: usize, ctx: usize, valid: bool) -> Option<String> {
    let (_, decls, k, bad, good) = VIOLATIONS[kind];
    let text = if valid { good } else { bad };
    let mut s = String::new();
    match k {
        'e' => {
            let c = CONTEXTS[ctx % CONTEXTS.len()];
            s.push_str(&format!("void zinj() {{\n    {}\n    {}\n}}\n", decls, c.replace('@', text)));
        }
        's' => {
            let wrappers = ["{ @ }", "if (zgs > 0) { @ }", "for (int zi = 0; zi < 2; zi++) { @ }", "@", "{ { @ } }"];
            let w = wrappers[ctx % wrappers.len()];
            s.push_str(&format!("void zinj() {{\n    {}\n    {}\n}}\n", decls, w.replace('@', text)));
        }
        'r' => {
            let (ret, value) = text.split_once('|')?;
            let wrappers = ["return @;", "if (zgs > 0) { return @; } return @;", "{ { return @; } }"];
            let w = wrappers[ctx % wrappers.len()];
            let body = if value.is_empty() { w.replace(" @", "") } else { w.replace('@', value) };
            s.push_str(&format!("{} zinj() {{\n    {}\n    {}\n}}\n", ret, decls, body));
        }
        _ => return None,
    }
    Some(s)
}

/// the ill-typed programs of the injection table on their own (C07 uses them as rejected inputs)
pub fn violation_sources() -> Vec<(String, String)> {
    let mut out = Vec::new();
    for kind in 0..VIOLATIONS.len() {
        for ctx in [0usize, 3] {
            if let Some(bad) = build(kind, ctx, false) {
                out.push((VIOLATIONS[kind].0.to_string(), format!("{}{}", PRELUDE, bad)));
            }
        }
    }
    out
}

fn check_injection(base: &str, kind: usize, ctx: usize, placement: u64) -> Verdict {
    let name = VIOLATIONS[kind].0;
    let (Some(bad), Some(good)) = (build(kind, ctx, false), build(kind, ctx, true)) else { return Verdict::Skip("bad table entry".into()) };
    // the injected function goes before or after the generated program, or as a struct method
    let place = |f: &str| -> String {
        match placement % 3 {
            0 => format!("{}{}{}", PRELUDE, base, f),
            1 => format!("{}{}{}", PRELUDE, f, base),
            _ => format!("{}{}struct ZHolder {{\n    int zfield;\n{}}};\n", PRELUDE, base, f.replace("void zinj", "    void zinj").replace("int zinj", "    int zinj").replace("ZS zinj", "    ZS zinj")),
        }
    };
    let good_src = place(&good);
    let bad_src = place(&bad);
    match type_check_text(&good_src) {
        Err(p) => return Verdict::fail(format!("panic:{}", p), format!("valid twin of {}\n{}", name, good_src)),
        Ok(Err(d)) => return Verdict::fail(format!("valid-twin-rejected:{}", name), format!("{}\n--- source\n{}", d, good_src)),
        Ok(Ok(_)) => {}
    }
    match type_check_text(&bad_src) {
        Err(p) => Verdict::fail(format!("panic:{}", p), format!("violation {}\n{}", name, bad_src)),
        Ok(Ok(_)) => Verdict::fail(format!("ill-typed-accepted:{}", name), format!("the program with the injected violation `{}` (valid twin `{}`) was accepted\n--- source\n{}", VIOLATIONS[kind].3, VIOLATIONS[kind].4, bad_src)),
        Ok(Err(d)) => {
            if d.trim().is_empty() {
                return Verdict::fail("empty-diagnostic", bad_src);
            }
            Verdict::pass(Some(hash_of(&(bad_src, 0u8))), vec![format!("violation:{}", name), format!("placement_{}", placement % 3)])
        }
    }
}

/// fixed pairs outside the generator's resource-free subset: (name, ill-typed program, valid twin)
const CATALOGUE: &[(&str, &str, &str)] = &[
    ("constant-buffer-write", "cbuffer CB { int cbx; };\nvoid f() { cbx = 1; }\n", "cbuffer CB { int cbx; };\nvoid f() { int a = cbx; a = 1; }\n"),
    ("constant-buffer-write-member", "struct S { int m; };\nConstantBuffer<S> cb;\nvoid f() { cb.m = 1; }\n", "struct S { int m; };\nConstantBuffer<S> cb;\nvoid f() { int a = cb.m; a = 1; }\n"),
    ("structured-buffer-write", "struct S { int m; };\nStructuredBuffer<S> sb;\nvoid f() { sb[0].m = 1; }\n", "struct S { int m; };\nRWStructuredBuffer<S> sb;\nvoid f() { sb[0].m = 1; }\n"),
    ("structured-buffer-element-write", "StructuredBuffer<uint> sb;\nvoid f() { sb[0] += 1u; }\n", "RWStructuredBuffer<uint> sb;\nvoid f() { sb[0] += 1u; }\n"),
    ("buffer-write", "Buffer<float4> b;\nvoid f() { b[0] = float4(1, 2, 3, 4); }\n", "RWBuffer<float4> b;\nvoid f() { b[0] = float4(1, 2, 3, 4); }\n"),
    ("texture-write", "Texture2D<float4> t;\nvoid f() { t[uint2(0, 0)] = float4(1, 2, 3, 4); }\n", "RWTexture2D<float4> t;\nvoid f() { t[uint2(0, 0)] = float4(1, 2, 3, 4); }\n"),
    ("buffer-element-to-out", "struct S { int m; };\nStructuredBuffer<S> sb;\nvoid zo(out int x) { x = 1; }\nvoid f() { zo(sb[0].m); }\n", "struct S { int m; };\nRWStructuredBuffer<S> sb;\nvoid zo(out int x) { x = 1; }\nvoid f() { zo(sb[0].m); }\n"),
    ("texture-as-condition", "Texture2D<float4> t;\nvoid f() { if (t) { } }\n", "Texture2D<float4> t;\nvoid f() { if (t[uint2(0, 0)].x > 0) { } }\n"),
    ("texture-arithmetic", "Texture2D<float4> t;\nvoid f() { float4 a = t + t; }\n", "Texture2D<float4> t;\nvoid f() { float4 a = t[uint2(0, 0)] + t[uint2(1, 1)]; }\n"),
    ("sampler-as-int-argument", "SamplerState s;\nint two(int a) { return a; }\nvoid f() { two(s); }\n", "SamplerState s;\nint two(int a) { return a; }\nvoid f() { two(1); }\n"),
];

fn check_catalogue(name: &str) -> Verdict {
    let Some((_, bad, good)) = CATALOGUE.iter().find(|c| c.0 == name) else { return Verdict::Skip("unknown catalogue entry".into()) };
    match type_check_text(good) {
        Err(p) => return Verdict::fail(format!("panic:{}", p), format!("valid twin of {}\n{}", name, good)),
        Ok(Err(d)) => return Verdict::fail(format!("valid-twin-rejected:{}", name), format!("{}\n--- source\n{}", d, good)),
        Ok(Ok(_)) => {}
    }
    match type_check_text(bad) {
        Err(p) => Verdict::fail(format!("panic:{}", p), format!("catalogue entry {}\n{}", name, bad)),
        Ok(Ok(_)) => Verdict::fail(format!("ill-typed-accepted:{}", name), format!("accepted:\n{}", bad)),
        Ok(Err(_)) => Verdict::pass(Some(hash_of(&(bad, 1u8))), vec!["catalogue".into()]),
    }
}

/// every swizzle over xyzw of length 1-4 on a float2/3/4 lvalue in four write positions: accepted exactly
/// when all components exist and none is repeated
fn swizzle_case(i: u64) -> (String, bool, String) {
    let mut k = i as usize;
    let mut take = |n: usize| {
        let r = k % n;
        k /= n;
        r
    };
    let n = 2 + take(3);
    let write = take(4);
    let letters = if take(2) == 0 { ["x", "y", "z", "w"] } else { ["r", "g", "b", "a"] };
    // 4 + 16 + 64 + 256 swizzles, shortest first
    let mut sw = take(340);
    let mut len = 1;
    let mut block = 4;
    while sw >= block {
        sw -= block;
        block *= 4;
        len += 1;
    }
    let comps: Vec<usize> = (0..len).map(|j| (sw >> (2 * j)) & 3).collect();
    let swz: String = comps.iter().map(|c| letters[*c]).collect();
    let ok = comps.iter().all(|c| *c < n) && (0..len).all(|a| !comps[..a].contains(&comps[a]));
    let vt = |l: usize| if l == 1 { "float".to_string() } else { format!("float{}", l) };
    let value = if len == 1 { "1.5".to_string() } else { format!("float{}({})", len, (0..len).map(|j| format!("{}.0", j + 1)).collect::<Vec<_>>().join(", ")) };
    let stmt = match write {
        0 => format!("v.{} = {};", swz, value),
        1 => format!("v.{} += {};", swz, value),
        2 => format!("zsw(v.{});", swz),
        _ => format!("v.{}++;", swz),
    };
    let src = format!("void zsw(out {} o) {{ o = {}; }}\nfloat{} f(float{} v) {{\n    {}\n    return v;\n}}\n", vt(len), value, n, n, stmt);
    (src, ok, format!("float{}.{} write {}", n, swz, write))
}

fn check_swizzle(i: u64) -> Verdict {
    let (src, ok, what) = swizzle_case(i);
    match type_check_text(&src) {
        Err(p) => Verdict::fail(format!("panic:{}", p), src),
        Ok(Ok(_)) if !ok => Verdict::fail("ill-typed-accepted:swizzle-write", format!("{}: a write through a swizzle with a repeated or missing component was accepted\n{}", what, src)),
        Ok(Err(d)) if ok => Verdict::fail("valid-program-rejected:swizzle-write", format!("{}: {}\n{}", what, d, src)),
        Ok(Ok(_)) => Verdict::pass(Some(i), vec!["swizzle_write_accepted".into()]),
        Ok(Err(_)) => Verdict::pass(Some(i), vec!["swizzle_write_rejected".into()]),
    }
}

/// types of the const-write table
#[derive(Clone, Debug, PartialEq)]
enum WTy {
    S(&'static str),
    V(&'static str, usize),
    M(&'static str, usize, usize),
    A(Box<WTy>, usize),
    St(&'static str),
}
const WRITE_PRELUDE: &str = "struct WS { int m; float2 v; float2x2 x; int arr[2]; };\nstruct WT { WS s; WS sa[2]; float3 q; };\n";
impl WTy {
    /// `T name` / `T name[n]`
    fn decl(&self, name: &str) -> String {
        match self {
            WTy::A(e, n) => format!("{}[{}]", e.decl(name), n),
            WTy::S(s) | WTy::St(s) => format!("{} {}", s, name),
            WTy::V(s, n) => format!("{}{} {}", s, n, name),
            WTy::M(s, r, c) => format!("{}{}x{} {}", s, r, c, name),
        }
    }
    /// one access step and the type it yields
    fn steps(&self) -> Vec<(String, WTy)> {
        const L: [&str; 4] = ["x", "y", "z", "w"];
        match self {
            WTy::S(_) => vec![],
            WTy::V(s, n) => {
                let mut v = vec![(".x".to_string(), WTy::S(s)), (format!(".{}", L[n - 1]), WTy::S(s)), ("[0]".to_string(), WTy::S(s)), (format!("[{}]", n - 1), WTy::S(s))];
                v.push((format!(".{}x", L[n - 1]), WTy::V(s, 2)));
                v
            }
            WTy::M(s, r, c) => vec![
                ("[0]".to_string(), WTy::V(s, *c)),
                (format!("[{}]", r - 1), WTy::V(s, *c)),
                ("._m00".to_string(), WTy::S(s)),
                (format!("._m{}{}", r - 1, c - 1), WTy::S(s)),
                (format!("._m{}{}_m00", r - 1, c - 1), WTy::V(s, 2)),
            ],
            WTy::A(e, n) => vec![("[0]".to_string(), (**e).clone()), (format!("[{}]", n - 1), (**e).clone())],
            WTy::St("WS") => vec![
                (".m".to_string(), WTy::S("int")),
                (".v".to_string(), WTy::V("float", 2)),
                (".x".to_string(), WTy::M("float", 2, 2)),
                (".arr".to_string(), WTy::A(Box::new(WTy::S("int")), 2)),
            ],
            WTy::St(_) => vec![(".s".to_string(), WTy::St("WS")), (".sa".to_string(), WTy::A(Box::new(WTy::St("WS")), 2)), (".q".to_string(), WTy::V("float", 3))],
        }
    }
}
/// (root type, access path, leaf type): every path of at most 4 steps from each root
fn write_paths() -> &'static Vec<(WTy, String, WTy)> {
    static PATHS: std::sync::OnceLock<Vec<(WTy, String, WTy)>> = std::sync::OnceLock::new();
    PATHS.get_or_init(|| {
        let arr = |t: WTy| WTy::A(Box::new(t), 2);
        let roots = vec![
            WTy::S("int"),
            WTy::V("float", 3),
            WTy::V("uint", 4),
            WTy::M("float", 2, 2),
            WTy::M("float", 3, 4),
            WTy::M("int", 4, 3),
            arr(WTy::S("int")),
            arr(WTy::V("float", 3)),
            arr(WTy::M("float", 2, 2)),
            WTy::St("WS"),
            WTy::St("WT"),
            arr(WTy::St("WS")),
        ];
        let mut out = Vec::new();
        for root in roots {
            let mut frontier = vec![(String::new(), root.clone())];
            for _depth in 0..=4 {
                let mut next = Vec::new();
                for (p, t) in &frontier {
                    if !matches!(t, WTy::A(..)) {
                        out.push((root.clone(), p.clone(), t.clone()));
                    }
                    for (s, t2) in t.steps() {
                        next.push((format!("{}{}", p, s), t2));
                    }
                }
                frontier = next;
            }
        }
        out
    })
}
const WRITE_FORMS: usize = 7;
const WRITE_PLACEMENTS: usize = 3;
/// (program with the const object, its twin without `const`, description, must the const program be rejected)
fn const_write_case(i: u64) -> Option<(String, String, String, bool)> {
    let paths = write_paths();
    let mut k = i as usize;
    let form = k % WRITE_FORMS;
    k /= WRITE_FORMS;
    let placement = k % WRITE_PLACEMENTS;
    k /= WRITE_PLACEMENTS;
    let (root, path, leaf) = paths.get(k)?;
    let numeric = !matches!(leaf, WTy::St(_));
    if !numeric && matches!(form, 1 | 2 | 3) {
        return None;
    }
    // a local array cannot be initialised from another array
    if placement == 1 && matches!(root, WTy::A(..)) {
        return None;
    }
    let (p, q) = (format!("c{}", path), format!("s{}", path));
    let stmt = match form {
        0 => format!("{} = {};", p, q),
        1 => format!("{} += {};", p, q),
        2 => format!("{}++;", p),
        3 => format!("--{};", p),
        4 => format!("zo({}, {});", p, q),
        5 => format!("zio({}, {});", p, q),
        _ => format!("{} = {};", q, p),
    };
    let helper = match form {
        4 => format!("void zo(out {}, {}) {{ p = q; }}\n", leaf.decl("p"), leaf.decl("q")),
        5 => format!("void zio(inout {}, {}) {{ p = q; }}\n", leaf.decl("p"), leaf.decl("q")),
        _ => String::new(),
    };
    let build = |konst: &str| match placement {
        0 => format!("{}{}void f({}{}, {}) {{\n    {}\n}}\n", WRITE_PRELUDE, helper, konst, root.decl("c"), root.decl("s"), stmt),
        1 => format!("{}{}void f({}) {{\n    {}{} = s;\n    {}\n}}\n", WRITE_PRELUDE, helper, root.decl("s"), konst, root.decl("c"), stmt),
        _ => format!("{}{}static {}{};\nvoid f({}) {{\n    {}\n}}\n", WRITE_PRELUDE, helper, konst, root.decl("c"), root.decl("s"), stmt),
    };
    let what = format!("{} `{}` with c a {} of type {}", ["assignment", "compound assignment", "post-increment", "pre-decrement", "out argument", "inout argument", "read"][form], stmt, ["const parameter", "const local", "static const global"][placement], root.decl("").trim());
    Some((build("const "), build(""), what, form != 6))
}
fn check_const_write(i: u64) -> Verdict {
    let Some((konst, twin, what, must_reject)) = const_write_case(i) else { return Verdict::pass(None, vec!["const_write_not_applicable".into()]) };
    match type_check_text(&twin) {
        Err(p) => return Verdict::fail(format!("panic:{}", p), twin),
        // the path or form is outside the accepted language: nothing to compare
        Ok(Err(_)) => return Verdict::pass(None, vec!["const_write_twin_rejected".into()]),
        Ok(Ok(_)) => {}
    }
    match type_check_text(&konst) {
        Err(p) => Verdict::fail(format!("panic:{}", p), konst),
        Ok(Ok(_)) if must_reject => Verdict::fail("ill-typed-accepted:const-write", format!("{}: accepted although c is const (the same program without `const` is accepted too)\n{}", what, konst)),
        Ok(Err(d)) if !must_reject => Verdict::fail("valid-program-rejected:const-read", format!("{}: {}\n{}", what, d, konst)),
        Ok(Ok(_)) => Verdict::pass(Some(i), vec!["const_read_accepted".into()]),
        Ok(Err(_)) => Verdict::pass(Some(i), vec!["const_write_rejected".into()]),
    }
}

/// named matrix components: `m._mRC` (zero based) and `m._RC` (one based) on a matrix of R rows and C columns, read
/// and written, alone and as a pair: accepted exactly when every component exists (and, for a write, none repeats)
fn matrix_component_case(i: u64) -> (String, bool, String) {
    let mut k = i as usize;
    let mut take = |n: usize| {
        let r = k % n;
        k /= n;
        r
    };
    let (rows, cols, r, c, one_based, form) = (1 + take(4), 1 + take(4), take(4), take(4), take(2) == 1, take(3));
    let comp = |r: usize, c: usize| if one_based { format!("_{}{}", r + 1, c + 1) } else { format!("_m{}{}", r, c) };
    let ty = format!("float{}x{}", rows, cols);
    let exists = r < rows && c < cols;
    let (stmt, ok) = match form {
        0 => (format!("float v = m.{};", comp(r, c)), exists),
        1 => (format!("m.{} = 1.0;", comp(r, c)), exists),
        // a pair with the first component: exists, and as a write target no repeat
        _ => (format!("m.{}{} = float2(1.0, 2.0);", comp(0, 0), comp(r, c)), exists && !(r == 0 && c == 0)),
    };
    let src = format!("void f({} m) {{\n    {}\n}}\n", ty, stmt);
    (src, ok, format!("{} {}", ty, stmt))
}
fn check_matrix_component(i: u64) -> Verdict {
    let (src, ok, what) = matrix_component_case(i);
    match type_check_text(&src) {
        Err(p) => Verdict::fail(format!("panic:{}", p), src),
        Ok(Ok(_)) if !ok => Verdict::fail("ill-typed-accepted:matrix-component", format!("{}: a component outside of the matrix (or a repeated write target) was accepted\n{}", what, src)),
        Ok(Err(d)) if ok => Verdict::fail("valid-program-rejected:matrix-component", format!("{}: {}\n{}", what, d, src)),
        Ok(Ok(_)) => Verdict::pass(Some(i), vec!["matrix_component_accepted".into()]),
        Ok(Err(_)) => Verdict::pass(Some(i), vec!["matrix_component_rejected".into()]),
    }
}

/// an lvalue of type A passed to an `out` / `inout` parameter of type P (both from {bool,int,uint,float} x {scalar,1,2,3}):
/// accepted exactly when the types are equal, or are T and T1 of the same scalar (a one-element vector aliases its scalar)
fn out_argument_case(i: u64) -> (String, bool, String) {
    const SC: [&str; 4] = ["bool", "int", "uint", "float"];
    let mut k = i as usize;
    let mut take = |n: usize| {
        let r = k % n;
        k /= n;
        r
    };
    let (sa, da, sp, dp, mode) = (take(4), take(4), take(4), take(4), take(2));
    let name = |s: usize, d: usize| if d == 0 { SC[s].to_string() } else { format!("{}{}", SC[s], d) };
    let (ta, tp) = (name(sa, da), name(sp, dp));
    let ok = sa == sp && (da == dp || (da <= 1 && dp <= 1));
    let m = ["out", "inout"][mode];
    let src = format!("void zcallee({} {} p) {{ p = ({})0; }}\nvoid f() {{\n    {} v = ({})0;\n    zcallee(v);\n}}\n", m, tp, tp, ta, ta);
    (src, ok, format!("{} argument for {} {} parameter", ta, m, tp))
}

fn check_out_argument(i: u64) -> Verdict {
    let (src, ok, what) = out_argument_case(i);
    match type_check_text(&src) {
        Err(p) => Verdict::fail(format!("panic:{}", p), src),
        Ok(Ok(_)) if !ok => Verdict::fail("ill-typed-accepted:out-argument-type", format!("{}: accepted although the argument is not an lvalue of the parameter's type\n{}", what, src)),
        Ok(Err(d)) if ok => Verdict::fail("valid-program-rejected:out-argument-type", format!("{}: {}\n{}", what, d, src)),
        Ok(Ok(_)) => Verdict::pass(Some(i), vec!["out_argument_accepted".into()]),
        Ok(Err(_)) => Verdict::pass(Some(i), vec!["out_argument_rejected".into()]),
    }
}

pub fn check_record(r: &Value) -> Verdict {
    match r["kind"].as_str().unwrap_or("") {
        "lint" => {
            let Some(src) = r["source"].as_str() else { return Verdict::Skip("no source".into()) };
            lint_source(src, r["must_accept"].as_bool().unwrap_or(false))
        }
        "catalogue" => check_catalogue(r["name"].as_str().unwrap_or("")),
        "swizzle" => check_swizzle(r["index"].as_u64().unwrap_or(0)),
        "out_argument" => check_out_argument(r["index"].as_u64().unwrap_or(0)),
        "const_write" => check_const_write(r["index"].as_u64().unwrap_or(0)),
        "matrix_component" => check_matrix_component(r["index"].as_u64().unwrap_or(0)),
        "inject" => {
            let base = r["base"].as_str().unwrap_or("");
            let name = r["violation"].as_str().unwrap_or("");
            let Some(kind) = VIOLATIONS.iter().position(|v| v.0 == name) else { return Verdict::Skip("unknown violation kind".into()) };
            check_injection(base, kind, r["context"].as_u64().unwrap_or(0) as usize, r["placement"].as_u64().unwrap_or(0))
        }
        _ => Verdict::Skip("unknown record kind".into()),
    }
}

pub fn run(ctx: &mut Ctx) {
    use proptest::prelude::*;
    ctx.rule = "(1) IR lint: generated programs of the resource-free subset (always accepted, checked), every 1-2 operator expression tree over the whole operator table on int / float / mixed int-float-uint-bool operands (accepted or rejected; only accepted ones are linted), and the repository's own .rssl inputs are type checked; the resulting module is walked by an independent checker with structural types (operand types equal and of the required class for every operator, non-const lvalues for every write, call arity / argument types / out arguments, return types, constructor slots, initialiser shapes, conditions, subscripts, existing ids) and by RSSL's own Expression::get_type asserts. (2) Injection: 89 kinds of single typing violations (writes to const incl. members / elements / swizzles of const objects and static const globals, writes to rvalues, rvalue or const out / inout arguments, argument count and type errors, return type errors, non-boolean conditions, non-integer switch values, operator operand classes, initialiser shapes, ...) are placed in 15 expression / 5 statement / 3 return contexts inside a function appended before or after a generated program or as a struct method; the program with the violation must be rejected with a diagnostic and its valid twin must be accepted. Writes through every swizzle of length 1-4 over xyzw / rgba on float2/3/4 in four write positions (=, +=, out argument, ++) must be accepted exactly when all components exist and none repeats (8 160 cases). An lvalue of every type from {bool, int, uint, float} x {scalar, 1, 2, 3} passed to an out / inout parameter of every such type (512 cases) is accepted exactly for equal types or T / T1 of one scalar. Every access path of at most 4 steps (members, array elements, vector components / subscripts / swizzles, matrix rows / _mRC components / _mRC swizzles) from 12 root types (scalars, vectors, matrices, arrays of them, two structs, an array of structs) on a const parameter, const local and static const global, in 6 write forms (=, +=, ++, --, out argument, inout argument) must be rejected while the same program without `const` is accepted, and reading through the path must be accepted. Named matrix components `_mRC` / `_RC` on every float RxC matrix (R, C in 1..4), read, written and as a written pair (1 536 cases) are accepted exactly when the components exist and a write target does not repeat. A catalogue of 10 resource-related pairs (writes to read-only buffers, textures and constant buffers, resources as operands) is checked the same way. Non-trivial: lint = module with at least 3 expressions; injection = violation rejected and twin accepted. Distinct = hash of the source.".into();
    ctx.assumptions.push("the linter models the resource-free subset; object types, intrinsic signatures and matrices' aggregate initialisers are treated as opaque and counted".into());
    ctx.assumptions.push("a condition may have any numeric or enum type (it is converted where it is used); default argument values are stored unconverted and only need to be convertible".into());
    if !ctx.replay_tier(&check_record) {
        return;
    }
    for c in CATALOGUE {
        ctx.run_one(&json!({"kind": "catalogue", "name": c.0}), &check_record);
    }
    // ---- exhaustive: writes through every swizzle
    let swizzle_total = (3 * 4 * 2 * 340) as u64;
    ctx.run_enum("swizzle_write_table", swizzle_total, true, |i| json!({"kind": "swizzle", "index": i}), |i| check_record(&json!({"kind": "swizzle", "index": i})));
    // ---- exhaustive: argument type x out / inout parameter type
    let const_write_total = (write_paths().len() * WRITE_FORMS * WRITE_PLACEMENTS) as u64;
    ctx.run_enum("const_write_table", const_write_total, true, |i| json!({"kind": "const_write", "index": i}), |i| check_record(&json!({"kind": "const_write", "index": i})));
    ctx.run_enum("matrix_component_table", 4 * 4 * 4 * 4 * 2 * 3, true, |i| json!({"kind": "matrix_component", "index": i}), |i| check_record(&json!({"kind": "matrix_component", "index": i})));
    ctx.run_enum("out_argument_type_table", 512, true, |i| json!({"kind": "out_argument", "index": i}), |i| check_record(&json!({"kind": "out_argument", "index": i})));
    // ---- exhaustive: every violation kind x context x placement on an empty base
    let n_ctx = CONTEXTS.len();
    let total = (VIOLATIONS.len() * n_ctx * 3) as u64;
    let make = |i: u64| {
        let kind = (i as usize) / (n_ctx * 3);
        let c = ((i as usize) / 3) % n_ctx;
        json!({"kind": "inject", "base": "", "violation": VIOLATIONS[kind].0, "context": c, "placement": i % 3})
    };
    ctx.run_enum("violations_x_contexts", total, true, make, |i| check_record(&make(i)));
    // ---- injection into generated programs
    ctx.run_prop(
        "violations_in_generated_programs",
        ctx.tier.pick(6_000, 150_000),
        || (progen::choices_strategy(400), 0usize..VIOLATIONS.len(), 0usize..64, 0u64..3),
        |(ch, k, c, p): &(Vec<u32>, usize, usize, u64)| json!({"kind": "inject", "base": progen::generate(ch, progen::Profile::exec_hlsl()).1, "violation": VIOLATIONS[*k].0, "context": c, "placement": p}),
        check_record,
    );
    // ---- lint: operator shapes
    for (name, v) in [("int", Variant::Int), ("float", Variant::Float), ("mixed0", Variant::Mixed(0)), ("mixed1", Variant::Mixed(1)), ("mixed2", Variant::Mixed(2)), ("mixed3", Variant::Mixed(3))] {
        for n in [1usize, 2] {
            let trees = xshape::all_trees(v, n);
            let make = |i: u64| json!({"kind": "lint", "source": xshape::program(v, &trees[i as usize])});
            ctx.run_enum(&format!("lint_{}op_{}_shapes", n, name), trees.len() as u64, true, make, |i| check_record(&make(i)));
        }
    }
    // ---- lint: generated programs
    ctx.run_prop(
        "lint_generated_programs",
        ctx.tier.pick(8_000, 200_000),
        || (progen::choices_strategy(700), any::<bool>()),
        |(ch, full): &(Vec<u32>, bool)| {
            let prof = if *full { progen::Profile::full() } else { progen::Profile::exec_hlsl() };
            json!({"kind": "lint", "source": progen::generate(ch, prof).1, "must_accept": true})
        },
        check_record,
    );
    // ---- lint: the repository's own single-file inputs
    let mut corpus: Vec<String> = Vec::new();
    fn walk(dir: &std::path::Path, out: &mut Vec<String>) {
        let Ok(rd) = std::fs::read_dir(dir) else { return };
        let mut entries: Vec<_> = rd.flatten().map(|e| e.path()).collect();
        entries.sort();
        for p in entries {
            if p.is_dir() {
                if p.file_name().map(|n| n != "target" && n != ".git").unwrap_or(false) {
                    walk(&p, out);
                }
            } else if p.extension().map(|e| e == "rssl").unwrap_or(false) {
                if let Ok(t) = std::fs::read_to_string(&p) {
                    out.push(t);
                }
            }
        }
    }
    walk(std::path::Path::new("/repo"), &mut corpus);
    let n = corpus.len() as u64;
    let make = |i: u64| json!({"kind": "lint", "source": corpus[i as usize], "must_accept": false});
    ctx.run_enum("lint_repository_inputs", n, false, make, |i| check_record(&make(i)));
    for v in VIOLATIONS {
        ctx.require_label(&format!("violation:{}", v.0), 10);
    }
    ctx.require_label("user_calls", 100);
}
