//! C12 — macro expansion and inclusion equal reference textual substitution.
//!
//! Oracles: (1) a reference C macro expander with hide sets (Prosser's algorithm) written from
//! the C standard's rescanning rules; (2) paste-inline: preprocessing a file equals preprocessing
//! the text obtained by pasting each include in place (#pragma once files only the first time);
//! (3) define placement: API defines behave like #define lines before the first line.

use crate::common::*;
use proptest::prelude::*;
use rssl::text::tokens::Token;
use serde_json::{Value, json};
use std::collections::BTreeSet;

#[derive(Clone, Debug, PartialEq, Eq, Hash)]
pub enum Tk {
    Id(String),
    Num(u64),
    P(&'static str),
    /// `##` inside a macro body
    Paste,
}

fn tk_text(t: &Tk) -> String {
    match t {
        Tk::Id(s) => s.clone(),
        Tk::Num(n) => n.to_string(),
        Tk::P(p) => p.to_string(),
        Tk::Paste => "##".into(),
    }
}

#[derive(Clone, Debug)]
pub struct MacroDef {
    name: String,
    params: Option<Vec<String>>,
    body: Vec<Tk>,
}

#[derive(Clone, Debug)]
pub enum LineItem {
    Define(MacroDef),
    Undef(String),
    /// a line of tokens; `breaks` lists token indices after which a newline is inserted instead of a blank
    Tokens(Vec<Tk>, Vec<usize>),
}

fn render_lines(lines: &[LineItem]) -> String {
    let mut s = String::new();
    for l in lines {
        match l {
            LineItem::Define(m) => {
                s.push_str("#define ");
                s.push_str(&m.name);
                if let Some(ps) = &m.params {
                    s.push('(');
                    s.push_str(&ps.join(", "));
                    s.push(')');
                }
                for t in &m.body {
                    s.push(' ');
                    s.push_str(&tk_text(t));
                }
                s.push('\n');
            }
            LineItem::Undef(n) => {
                s.push_str("#undef ");
                s.push_str(n);
                s.push('\n');
            }
            LineItem::Tokens(ts, breaks) => {
                for (i, t) in ts.iter().enumerate() {
                    s.push_str(&tk_text(t));
                    if breaks.contains(&i) {
                        s.push('\n');
                    } else {
                        s.push(' ');
                    }
                }
                s.push('\n');
            }
        }
    }
    s
}

// ---------------------------------------------------------------------------------------------
// reference expander (hide sets)

type Hs = BTreeSet<String>;
type Ht = (Tk, Hs);

struct Exp<'a> {
    macros: &'a [MacroDef],
    /// false = model of the known deviation KF-C12-1: the "do not replace again" mark of a macro name found while
    /// pre-expanding an argument is forgotten when the argument is substituted
    persist_paint: bool,
    /// also expand arguments whose parameter is not used (only to detect ill-formed invocations inside them)
    eager_args: bool,
    steps: usize,
    pastes: usize,
    nested_arg_invocations: usize,
    recursive_hits: usize,
}

#[derive(Debug)]
pub enum RefErr {
    /// outside the generated subset (wrong arity, unterminated arguments, paste producing no single token)
    OutOfSubset(&'static str),
    TooLarge,
}

impl Exp<'_> {
    fn find(&self, name: &str) -> Option<&MacroDef> {
        self.macros.iter().rev().find(|m| m.name == name)
    }

    fn expand(&mut self, mut ts: Vec<Ht>) -> Result<Vec<Ht>, RefErr> {
        let mut out: Vec<Ht> = Vec::new();
        loop {
            self.steps += 1;
            if self.steps > 20_000 || out.len() > 5_000 {
                return Err(RefErr::TooLarge);
            }
            if ts.is_empty() {
                return Ok(out);
            }
            let (t, hs) = ts.remove(0);
            let Tk::Id(name) = &t else {
                out.push((t, hs));
                continue;
            };
            if hs.contains(name) {
                self.recursive_hits += 1;
                out.push((t, hs));
                continue;
            }
            let Some(m) = self.find(name).cloned() else {
                out.push((t, hs));
                continue;
            };
            match &m.params {
                None => {
                    let mut hs2 = hs.clone();
                    hs2.insert(m.name.clone());
                    let sub = self.subst(&m, &[], &hs2)?;
                    let mut rest = sub;
                    rest.extend(ts);
                    ts = rest;
                }
                Some(params) => {
                    if ts.first().map(|x| x.0 != Tk::P("(")).unwrap_or(true) {
                        out.push((t, hs));
                        continue;
                    }
                    // collect actuals
                    let mut depth = 0;
                    let mut args: Vec<Vec<Ht>> = vec![Vec::new()];
                    let mut i = 1;
                    let close_hs;
                    loop {
                        let Some((tk, h)) = ts.get(i).cloned() else { return Err(RefErr::OutOfSubset("unterminated macro arguments")) };
                        match &tk {
                            Tk::P("(") => {
                                depth += 1;
                                args.last_mut().unwrap().push((tk, h));
                            }
                            Tk::P(")") if depth == 0 => {
                                close_hs = h;
                                break;
                            }
                            Tk::P(")") => {
                                depth -= 1;
                                args.last_mut().unwrap().push((tk, h));
                            }
                            Tk::P(",") if depth == 0 => args.push(Vec::new()),
                            _ => args.last_mut().unwrap().push((tk, h)),
                        }
                        i += 1;
                    }
                    let rest: Vec<Ht> = ts.split_off(i + 1);
                    if params.is_empty() {
                        if !(args.len() == 1 && args[0].is_empty()) {
                            return Err(RefErr::OutOfSubset("arguments to a macro without parameters"));
                        }
                        args.clear();
                    } else if args.len() != params.len() {
                        return Err(RefErr::OutOfSubset("wrong number of macro arguments"));
                    }
                    if args.iter().any(|a| a.iter().any(|(t, _)| matches!(t, Tk::Id(n) if self.find(n).is_some()))) {
                        self.nested_arg_invocations += 1;
                    }
                    if self.eager_args {
                        for (k, a) in args.iter().enumerate() {
                            let used = m.body.iter().any(|t| matches!(t, Tk::Id(n) if params.get(k) == Some(n)));
                            if !used {
                                self.expand(a.clone())?;
                            }
                        }
                    }
                    let mut hs2: Hs = hs.intersection(&close_hs).cloned().collect();
                    hs2.insert(m.name.clone());
                    let sub = self.subst(&m, &args, &hs2)?;
                    let mut all = sub;
                    all.extend(rest);
                    ts = all;
                }
            }
        }
    }

    fn subst(&mut self, m: &MacroDef, args: &[Vec<Ht>], hs: &Hs) -> Result<Vec<Ht>, RefErr> {
        let params: Vec<String> = m.params.clone().unwrap_or_default();
        let arg_of = |t: &Tk| -> Option<usize> {
            match t {
                Tk::Id(n) => params.iter().position(|p| p == n),
                _ => None,
            }
        };
        let mut os: Vec<Ht> = Vec::new();
        let body = &m.body;
        let mut i = 0;
        while i < body.len() {
            let t = &body[i];
            let next_is_paste = body.get(i + 1) == Some(&Tk::Paste);
            if *t == Tk::Paste {
                // glue the last token of os with the next operand (unexpanded if it is a parameter)
                let Some(right) = body.get(i + 1) else { return Err(RefErr::OutOfSubset("## at the end of a body")) };
                let right_tokens: Vec<Ht> = match arg_of(right) {
                    Some(k) => args[k].clone(),
                    None => vec![(right.clone(), Hs::new())],
                };
                self.pastes += 1;
                if let Some((rt, rhs)) = right_tokens.first().cloned() {
                    let Some((lt, lhs)) = os.pop() else { return Err(RefErr::OutOfSubset("## without a left operand")) };
                    let glued = glue(&lt, &rt).ok_or(RefErr::OutOfSubset("## does not form one token"))?;
                    let h: Hs = lhs.intersection(&rhs).cloned().collect();
                    os.push((glued, h));
                    os.extend(right_tokens.into_iter().skip(1));
                }
                i += 2;
                continue;
            }
            match arg_of(t) {
                Some(k) if next_is_paste => {
                    // left operand of ##: inserted unexpanded
                    os.extend(args[k].clone());
                }
                Some(k) => {
                    let mut expanded = self.expand(args[k].clone())?;
                    if !self.persist_paint {
                        for (_, h) in expanded.iter_mut() {
                            h.clear();
                        }
                    }
                    os.extend(expanded);
                }
                None => os.push((t.clone(), Hs::new())),
            }
            i += 1;
        }
        // hsadd
        for (_, h) in os.iter_mut() {
            h.extend(hs.iter().cloned());
        }
        Ok(os)
    }
}

fn glue(a: &Tk, b: &Tk) -> Option<Tk> {
    match (a, b) {
        (Tk::Id(x), Tk::Id(y)) => Some(Tk::Id(format!("{}{}", x, y))),
        (Tk::Id(x), Tk::Num(y)) => Some(Tk::Id(format!("{}{}", x, y))),
        (Tk::Num(x), Tk::Num(y)) => format!("{}{}", x, y).parse().ok().map(Tk::Num),
        _ => None,
    }
}

pub struct RefResult {
    pub tokens: Vec<String>,
    pub pastes: usize,
    pub nested: usize,
    pub recursive: usize,
}

/// Expand a whole file line group by line group (definitions take effect from their line onward).
pub fn reference(lines: &[LineItem]) -> Result<RefResult, RefErr> {
    reference_mode(lines, true, false)
}

pub fn reference_mode(lines: &[LineItem], persist_paint: bool, eager_args: bool) -> Result<RefResult, RefErr> {
    let mut macros: Vec<MacroDef> = Vec::new();
    let mut out = Vec::new();
    let (mut pastes, mut nested, mut recursive) = (0, 0, 0);
    // text between directives is expanded as one unit (an invocation may span lines)
    let mut pending: Vec<Ht> = Vec::new();
    let flush = move |pending: &mut Vec<Ht>, macros: &[MacroDef], out: &mut Vec<String>, pastes: &mut usize, nested: &mut usize, recursive: &mut usize| -> Result<(), RefErr> {
        if pending.is_empty() {
            return Ok(());
        }
        let mut e = Exp { macros, persist_paint, eager_args, steps: 0, pastes: 0, nested_arg_invocations: 0, recursive_hits: 0 };
        let r = e.expand(std::mem::take(pending))?;
        *pastes += e.pastes;
        *nested += e.nested_arg_invocations;
        *recursive += e.recursive_hits;
        out.extend(r.iter().map(|(t, _)| tk_text(t)));
        Ok(())
    };
    for l in lines {
        match l {
            LineItem::Define(m) => {
                flush(&mut pending, &macros, &mut out, &mut pastes, &mut nested, &mut recursive)?;
                macros.retain(|x| x.name != m.name);
                macros.push(m.clone());
            }
            LineItem::Undef(n) => {
                flush(&mut pending, &macros, &mut out, &mut pastes, &mut nested, &mut recursive)?;
                macros.retain(|x| &x.name != n);
            }
            LineItem::Tokens(ts, _) => pending.extend(ts.iter().cloned().map(|t| (t, Hs::new()))),
        }
    }
    flush(&mut pending, &macros, &mut out, &mut pastes, &mut nested, &mut recursive)?;
    Ok(RefResult { tokens: out, pastes, nested, recursive })
}

// ---------------------------------------------------------------------------------------------
// implementation side

fn token_text(t: &Token) -> String {
    match t {
        Token::Id(i) => i.0.clone(),
        Token::LiteralInt(n) => n.to_string(),
        Token::LeftParen => "(".into(),
        Token::RightParen => ")".into(),
        Token::Comma => ",".into(),
        Token::Plus => "+".into(),
        Token::Asterix => "*".into(),
        Token::Semicolon => ";".into(),
        Token::LeftSquareBracket => "[".into(),
        Token::RightSquareBracket => "]".into(),
        Token::Minus => "-".into(),
        Token::HashHash => "##".into(),
        Token::Concat => "##".into(),
        Token::Eof => "<eof>".into(),
        other => format!("{:?}", other),
    }
}

fn run_impl(files: &[(String, String)], defines: &[(String, String)]) -> Result<Result<Vec<String>, String>, String> {
    let files = files.to_vec();
    let defs: Vec<(&str, &str)> = defines.iter().map(|(a, b)| (a.as_str(), b.as_str())).collect();
    guard(|| {
        let mut sm = rssl::text::SourceManager::new();
        let mut h = MemFiles(files);
        match rssl::preprocess::preprocess("main.rssl", &mut sm, &mut h, &defs) {
            Ok(tokens) => {
                let lt = rssl::preprocess::prepare_tokens(&tokens);
                Ok(lt.iter().filter(|t| t.0 != Token::Eof).map(|t| token_text(&t.0)).collect())
            }
            Err(e) => {
                use rssl::text::CompileErrorExt;
                Err(format!("{}", e.display(&sm)))
            }
        }
    })
}

// ---------------------------------------------------------------------------------------------
// generators

const NAMES: [&str; 6] = ["M0", "M1", "M2", "M3", "M4", "M5"];
const PARAMS: [&str; 3] = ["p", "q", "r"];
const IDS: [&str; 5] = ["a", "b", "c", "x", "y"];

#[derive(Clone, Debug)]
struct Sig {
    name: &'static str,
    /// None object-like; Some(n) function-like with n parameters
    arity: Option<usize>,
    /// parameters that are operands of ## (their arguments must be single plain tokens)
    paste_params: Vec<usize>,
}

/// Builds macro programs from a choice list (so that definitions and invocations agree on arities).
struct MacroGen<'a> {
    ch: &'a [u16],
    pos: usize,
}

impl MacroGen<'_> {
    fn pick(&mut self, n: usize) -> usize {
        if n <= 1 {
            return 0;
        }
        let v = self.ch.get(self.pos).copied().unwrap_or(0);
        self.pos += 1;
        v as usize % n
    }

    fn simple(&mut self) -> Tk {
        match self.pick(3) {
            0 => Tk::Num(1 + self.pick(9) as u64),
            _ => Tk::Id(IDS[self.pick(IDS.len())].to_string()),
        }
    }

    /// tokens of one invocation of `s` (name, parentheses, arguments)
    fn invocation(&mut self, s: &Sig, sigs: &[Sig], depth: u32, out: &mut Vec<Tk>) {
        out.push(Tk::Id(s.name.to_string()));
        let Some(n) = s.arity else { return };
        // function-like names always carry a complete argument list: a bare name could pick up a later parenthesis
        // with an accidental number of arguments, and (KF-C12-1) whether such a name is still replaceable is exactly
        // where the implementation deviates from C; the one deliberate case is the hand-written regression list
        out.push(Tk::P("("));
        for k in 0..n {
            if k > 0 {
                out.push(Tk::P(","));
            }
            if s.paste_params.contains(&k) {
                out.push(self.simple());
            } else {
                self.argument(sigs, depth, out);
            }
        }
        out.push(Tk::P(")"));
    }

    fn argument(&mut self, sigs: &[Sig], depth: u32, out: &mut Vec<Tk>) {
        let n = 1 + self.pick(3);
        for _ in 0..n {
            match self.pick(8) {
                0 | 1 if depth > 0 && !sigs.is_empty() => {
                    let s = sigs[self.pick(sigs.len())].clone();
                    self.invocation(&s, sigs, depth - 1, out);
                }
                2 => {
                    // nested parentheses with a comma inside
                    out.push(Tk::P("("));
                    out.push(self.simple());
                    out.push(Tk::P(","));
                    out.push(self.simple());
                    out.push(Tk::P(")"));
                }
                3 => out.push(Tk::P(["+", "*", "-"][self.pick(3)])),
                _ => out.push(self.simple()),
            }
        }
    }

    fn body(&mut self, me: &Sig, sigs: &[Sig]) -> Vec<Tk> {
        let nparams = me.arity.unwrap_or(0);
        let mut b = Vec::new();
        let n = 1 + self.pick(5);
        for _ in 0..n {
            match self.pick(10) {
                0 | 1 | 2 if nparams > 0 => {
                    let k = self.pick(nparams);
                    if !me.paste_params.contains(&k) {
                        b.push(Tk::Id(PARAMS[k].to_string()));
                    } else {
                        // operand of ##
                        b.push(Tk::Id(PARAMS[k].to_string()));
                        b.push(Tk::Paste);
                        b.push(Tk::Num(1 + self.pick(9) as u64));
                    }
                }
                3 | 4 => {
                    // reference to another macro (or itself): with or without arguments
                    let s = sigs[self.pick(sigs.len())].clone();
                    b.push(Tk::Id(s.name.to_string()));
                    if let Some(k) = s.arity {
                        {
                            b.push(Tk::P("("));
                            for j in 0..k {
                                if j > 0 {
                                    b.push(Tk::P(","));
                                }
                                if s.paste_params.contains(&j) {
                                    b.push(self.simple());
                                } else if nparams > 0 && self.pick(2) == 0 {
                                    let pk = self.pick(nparams);
                                    if me.paste_params.contains(&pk) { b.push(self.simple()) } else { b.push(Tk::Id(PARAMS[pk].to_string())) }
                                } else if self.pick(4) == 0 && me.arity.is_none() {
                                    // an object-like macro may pass its own name on (it stays unreplaced)
                                    b.push(Tk::Id(me.name.to_string()));
                                } else {
                                    b.push(self.simple());
                                }
                            }
                            b.push(Tk::P(")"));
                        }
                    }
                }
                5 => {
                    b.push(Tk::P("("));
                    b.push(self.simple());
                    b.push(Tk::P(")"));
                }
                6 => {
                    // identifier ## number and number ## number always form one token
                    b.push(self.simple());
                    b.push(Tk::Paste);
                    b.push(Tk::Num(1 + self.pick(9) as u64));
                }
                7 => b.push(Tk::P(["+", "*"][self.pick(2)])),
                _ => b.push(self.simple()),
            }
        }
        // never start or end with ##, and never place two ## next to each other
        b
    }

    fn program(&mut self) -> Vec<LineItem> {
        let nm = 1 + self.pick(6);
        let mut sigs: Vec<Sig> = Vec::new();
        for i in 0..nm {
            let arity = match self.pick(3) {
                0 => None,
                _ => Some(self.pick(4)),
            };
            let mut paste_params = Vec::new();
            if let Some(n) = arity {
                for k in 0..n {
                    if self.pick(4) == 0 {
                        paste_params.push(k);
                    }
                }
            }
            sigs.push(Sig { name: NAMES[i], arity, paste_params });
        }
        let mut lines = Vec::new();
        let mut defined: Vec<bool> = vec![false; nm];
        // definitions first (in random order), then sites mixed with redefinitions / undefs
        for i in 0..nm {
            let s = sigs[i].clone();
            let body = self.body(&s, &sigs);
            lines.push(LineItem::Define(MacroDef { name: s.name.to_string(), params: s.arity.map(|n| PARAMS[..n].iter().map(|p| p.to_string()).collect()), body }));
            defined[i] = true;
        }
        let nsites = 1 + self.pick(10);
        for _ in 0..nsites {
            match self.pick(8) {
                0 => {
                    let i = self.pick(nm);
                    lines.push(LineItem::Undef(sigs[i].name.to_string()));
                    defined[i] = false;
                }
                1 => {
                    // redefinition with the same signature (arity is part of how sites are written)
                    let i = self.pick(nm);
                    let s = sigs[i].clone();
                    let body = self.body(&s, &sigs);
                    lines.push(LineItem::Define(MacroDef { name: s.name.to_string(), params: s.arity.map(|n| PARAMS[..n].iter().map(|p| p.to_string()).collect()), body }));
                    defined[i] = true;
                }
                _ => {
                    let mut ts = Vec::new();
                    let k = 1 + self.pick(3);
                    for _ in 0..k {
                        let s = sigs[self.pick(nm)].clone();
                        self.invocation(&s, &sigs, 2, &mut ts);
                        if self.pick(2) == 0 {
                            ts.push(Tk::P([";", "+", "*"][self.pick(3)]));
                        }
                    }
                    ts.push(Tk::P(";"));
                    // line breaks inside the site (an invocation may span lines)
                    let mut breaks = Vec::new();
                    if self.pick(3) == 0 && ts.len() > 2 {
                        breaks.push(self.pick(ts.len() - 1));
                    }
                    lines.push(LineItem::Tokens(ts, breaks));
                }
            }
        }
        lines
    }
}

fn lines_json(lines: &[LineItem]) -> Value {
    json!({"kind": "macros", "text": render_lines(lines)})
}

/// Parse the rendered text back into LineItems (records are self-contained text).
fn parse_lines(text: &str) -> Vec<LineItem> {
    fn tk(w: &str) -> Tk {
        if w == "##" {
            return Tk::Paste;
        }
        if let Ok(n) = w.parse::<u64>() {
            return Tk::Num(n);
        }
        for p in ["(", ")", ",", "+", "*", ";", "[", "]", "-"] {
            if w == p {
                return Tk::P(p);
            }
        }
        Tk::Id(w.to_string())
    }
    let mut out = Vec::new();
    let mut cur: Vec<Tk> = Vec::new();
    let mut breaks: Vec<usize> = Vec::new();
    let mut flush = |cur: &mut Vec<Tk>, breaks: &mut Vec<usize>, out: &mut Vec<LineItem>| {
        if !cur.is_empty() {
            out.push(LineItem::Tokens(std::mem::take(cur), std::mem::take(breaks)));
        }
    };
    for line in text.lines() {
        if let Some(rest) = line.strip_prefix("#define ") {
            flush(&mut cur, &mut breaks, &mut out);
            let (head, body) = match rest.find(|c: char| c == ' ' || c == '(') {
                Some(i) if rest.as_bytes()[i] == b'(' => {
                    let close = rest.find(')').unwrap_or(rest.len() - 1);
                    (&rest[..=close], rest[close + 1..].trim())
                }
                Some(i) => (&rest[..i], rest[i..].trim()),
                None => (rest, ""),
            };
            let (name, params) = match head.find('(') {
                Some(i) => {
                    let ps: Vec<String> = head[i + 1..head.len() - 1].split(',').map(|p| p.trim().to_string()).filter(|p| !p.is_empty()).collect();
                    (head[..i].to_string(), Some(ps))
                }
                None => (head.to_string(), None),
            };
            out.push(LineItem::Define(MacroDef { name, params, body: body.split_whitespace().map(tk).collect() }));
        } else if let Some(rest) = line.strip_prefix("#undef ") {
            flush(&mut cur, &mut breaks, &mut out);
            out.push(LineItem::Undef(rest.trim().to_string()));
        } else {
            for w in line.split_whitespace() {
                cur.push(tk(w));
            }
            if !cur.is_empty() {
                breaks.push(cur.len() - 1);
            }
        }
    }
    flush(&mut cur, &mut breaks, &mut out);
    out
}

fn check_macros(text: &str) -> Verdict {
    let lines = parse_lines(text);
    let want = match reference(&lines) {
        Ok(r) => r,
        Err(RefErr::OutOfSubset(why)) => return Verdict::Skip(format!("outside the subset: {}", why)),
        Err(RefErr::TooLarge) => return Verdict::Skip("reference expansion too large".into()),
    };
    // an ill-formed invocation hidden in an argument that C never expands (its parameter is unused) is outside the subset
    if let Err(RefErr::OutOfSubset(why)) = reference_mode(&lines, true, true) {
        return Verdict::Skip(format!("outside the subset (in an unused argument): {}", why));
    }
    // the known deviation KF-C12-1 makes mutually recursive sets explode: the model of the deviation predicts it, and
    // those inputs are excluded by construction (counted) so that the search continues behind the finding
    if let Err(RefErr::TooLarge) = reference_mode(&lines, false, true) {
        return Verdict::Skip("excluded: expansion explodes under the known finding KF-C12-1".into());
    }
    let files = vec![("main.rssl".to_string(), text.to_string())];
    let got = match run_impl(&files, &[]) {
        Err(p) => return Verdict::fail(format!("panic:{}", p), text.to_string()),
        Ok(r) => r,
    };
    match got {
        Err(e) => {
            // the known deviation KF-C12-1 can also end in an arity error: the model without persistent paint fails too
            if matches!(reference_mode(&lines, false, true), Err(RefErr::OutOfSubset(_))) {
                return Verdict::fail(
                    "expansion:painted-name-from-argument-expanded-again",
                    format!("{}\nreference: {}\n--- input\n{}", e, want.tokens.join(" "), text),
                );
            }
            Verdict::fail(
                format!("expansion:rejected:{}", normalise_panic(e.lines().next().unwrap_or("").split("error:").nth(1).unwrap_or(""))),
                format!("{}\nreference: {}\n--- input\n{}", e, want.tokens.join(" "), text),
            )
        }
        Ok(g) => {
            if g != want.tokens {
                let i = g.iter().zip(want.tokens.iter()).position(|(a, b)| a != b).unwrap_or(g.len().min(want.tokens.len()));
                // one known root cause has its own signature: the output equals the model without persistent paint
                if let Ok(alt) = reference_mode(&lines, false, false) {
                    if alt.tokens == g {
                        return Verdict::fail(
                            "expansion:painted-name-from-argument-expanded-again",
                            format!("implementation: {}\nreference     : {}\n--- input\n{}", g.join(" "), want.tokens.join(" "), text),
                        );
                    }
                }
                return Verdict::fail(
                    "expansion:differs-from-reference",
                    format!("first difference at token {}\nimplementation: {}\nreference     : {}\n--- input\n{}", i, g.join(" "), want.tokens.join(" "), text),
                );
            }
            let mut labels = vec!["macros_agree".to_string()];
            if want.pastes > 0 {
                labels.push("has_paste".into());
            }
            if want.nested > 0 {
                labels.push("nested_invocation_in_argument".into());
            }
            if want.recursive > 0 {
                labels.push("recursive_reference_stopped".into());
            }
            let nontrivial = want.pastes > 0 || want.nested > 0 || want.recursive > 0;
            Verdict::pass(if nontrivial { Some(hash_of(text)) } else { None }, labels)
        }
    }
}

// ---- includes: paste-inline relation

fn inline_includes(name: &str, files: &[(String, String)], once_seen: &mut Vec<String>, depth: u32) -> String {
    let Some((_, text)) = files.iter().find(|f| f.0 == name) else { return String::new() };
    if depth > 20 {
        return String::new();
    }
    let mut out = String::new();
    let is_once = text.lines().any(|l| l.trim() == "#pragma once");
    if is_once {
        if once_seen.iter().any(|n| n == name) {
            return String::new();
        }
        once_seen.push(name.to_string());
    }
    for line in text.lines() {
        if let Some(rest) = line.trim().strip_prefix("#include \"") {
            let inc = rest.trim_end_matches('"');
            out.push_str(&inline_includes(inc, files, once_seen, depth + 1));
        } else if line.trim() == "#pragma once" {
            // consumed
        } else {
            out.push_str(line);
            out.push('\n');
        }
    }
    out
}

fn check_includes(files: &[(String, String)]) -> Verdict {
    let show = || files.iter().map(|(n, c)| format!("--- {}\n{}", n, c)).collect::<Vec<_>>().join("\n");
    let a = match run_impl(files, &[]) {
        Err(p) => return Verdict::fail(format!("panic:{}", p), show()),
        Ok(r) => r,
    };
    let pasted = inline_includes("main.rssl", files, &mut Vec::new(), 0);
    let b = match run_impl(&[("main.rssl".to_string(), pasted.clone())], &[]) {
        Err(p) => return Verdict::fail(format!("panic:{}", p), pasted),
        Ok(r) => r,
    };
    match (a, b) {
        (Ok(x), Ok(y)) => {
            if x != y {
                return Verdict::fail("include:differs-from-pasting", format!("with #include: {}\npasted      : {}\n{}\n--- pasted text\n{}", x.join(" "), y.join(" "), show(), pasted));
            }
            let multi = files.iter().filter(|f| f.0 != "main.rssl").any(|f| files.iter().map(|g| g.1.matches(&format!("#include \"{}\"", f.0)).count()).sum::<usize>() >= 2);
            Verdict::pass(if multi { Some(hash_of(&show())) } else { None }, vec!["includes_agree".into()])
        }
        (Err(_), Err(_)) => Verdict::pass(None, vec!["includes_both_rejected".into()]),
        (x, y) => Verdict::fail("include:verdict-differs-from-pasting", format!("with #include: {:?}\npasted: {:?}\n{}", x.map(|v| v.len()), y.map(|v| v.len()), show())),
    }
}

// ---- define placement

fn check_placement(defs: &[(String, String)], body: &str, split: u32) -> Verdict {
    // split bit i set: define i goes to the API list, else it is a #define line (in order) before the first line
    let mut api = Vec::new();
    let mut lines = String::new();
    // API defines are applied before the file's own lines, so a placement is only comparable when it keeps the
    // relative order of the defines of one name: a later define of a name stays a line when an earlier one is a line
    let macro_name = |n: &str| n.split('(').next().unwrap_or(n).trim().to_string();
    let mut split = split;
    let mut repeated = false;
    for j in 0..defs.len() {
        for i in 0..j {
            if macro_name(&defs[i].0) == macro_name(&defs[j].0) {
                repeated = true;
                if split & (1 << i) == 0 {
                    split &= !(1 << j);
                }
            }
        }
    }
    for (i, (n, v)) in defs.iter().enumerate() {
        if split & (1 << i) != 0 {
            api.push((n.clone(), v.clone()));
        } else {
            lines.push_str(&format!("#define {} {}\n", n, v));
        }
    }
    let all_lines: String = defs.iter().map(|(n, v)| format!("#define {} {}\n", n, v)).collect();
    let base_text = format!("{}{}", all_lines, body);
    let var_text = format!("{}{}", lines, body);
    let base = match run_impl(&[("main.rssl".to_string(), base_text.clone())], &[]) {
        Err(p) => return Verdict::fail(format!("panic:{}", p), base_text),
        Ok(r) => r,
    };
    let var = match run_impl(&[("main.rssl".to_string(), var_text.clone())], &api) {
        Err(p) => return Verdict::fail(format!("panic:{}", p), format!("api defines {:?}\n{}", api, var_text)),
        Ok(r) => r,
    };
    let repeated_in_api = repeated && (0..api.len()).any(|j| (0..j).any(|i| macro_name(&api[i].0) == macro_name(&api[j].0)));
    match (&base, &var) {
        (Ok(a), Ok(b)) if a == b => {
            let mut labels = vec!["placement_agrees".to_string()];
            if repeated_in_api {
                labels.push("placement_name_repeated_in_api".into());
            }
            if api.iter().any(|(n, _)| n.contains('(')) {
                labels.push("placement_function_like_in_api".into());
            }
            Verdict::pass(if !api.is_empty() && (api.len() < defs.len() || repeated_in_api) { Some(hash_of(&(base_text, split))) } else { None }, labels)
        }
        (Err(_), Err(_)) => Verdict::pass(None, vec!["placement_both_rejected".into()]),
        _ => Verdict::fail(
            "define-placement:differs",
            format!("all as #define lines: {:?}\nwith API defines {:?}: {:?}\n--- file with all defines\n{}", base.as_ref().map(|v| v.join(" ")), api, var.as_ref().map(|v| v.join(" ")), base_text),
        ),
    }
}

pub fn check_record(rec: &Value) -> Verdict {
    match rec["kind"].as_str() {
        Some("macros") => check_macros(rec["text"].as_str().unwrap_or("")),
        Some("includes") => {
            let files: Vec<(String, String)> = rec["files"].as_array().map(|a| a.iter().map(|f| (f[0].as_str().unwrap_or("").to_string(), f[1].as_str().unwrap_or("").to_string())).collect()).unwrap_or_default();
            check_includes(&files)
        }
        Some("placement") => {
            let defs: Vec<(String, String)> = rec["defs"].as_array().map(|a| a.iter().map(|f| (f[0].as_str().unwrap_or("").to_string(), f[1].as_str().unwrap_or("").to_string())).collect()).unwrap_or_default();
            check_placement(&defs, rec["body"].as_str().unwrap_or(""), rec["split"].as_u64().unwrap_or(0) as u32)
        }
        _ => Verdict::Skip("unknown record kind".into()),
    }
}

fn include_graph(ch: &[u16]) -> Vec<(String, String)> {
    let mut g = MacroGen { ch, pos: 0 };
    let n = 2 + g.pick(4);
    let mut files = Vec::new();
    for i in 0..n {
        let mut t = String::new();
        if g.pick(2) == 0 {
            t.push_str("#pragma once\n");
        }
        t.push_str(&format!("TOK{} ;\n", i));
        // later files may include earlier ones (acyclic), several times
        for _ in 0..g.pick(3) {
            if i > 0 {
                t.push_str(&format!("#include \"f{}.h\"\n", g.pick(i)));
            }
        }
        if g.pick(2) == 0 {
            t.push_str(&format!("#define FROM{} {}\n", i, i + 10));
        }
        t.push_str(&format!("END{} FROM{} ;\n", i, g.pick(n)));
        files.push((format!("f{}.h", i), t));
    }
    let mut main = String::new();
    for _ in 0..(1 + g.pick(5)) {
        main.push_str(&format!("#include \"f{}.h\"\n", g.pick(n)));
        main.push_str(&format!("USE FROM{} ;\n", g.pick(n)));
    }
    files.push(("main.rssl".to_string(), main));
    files
}

pub fn run(ctx: &mut Ctx) {
    ctx.rule = "(1) Macro programs: 1-6 object- and function-like macros (0-3 parameters; bodies of 1-12 tokens over parameters, references to other macros and to themselves with and without argument lists, parenthesised groups, ## between parameters / identifiers / numbers), then up to 10 sites mixing invocations (nested invocations in arguments, parenthesised commas, function-like names without arguments, a line break inside the site) with redefinitions and #undef; the non-whitespace token sequence after rssl_preprocess::preprocess + prepare_tokens must equal the output of a reference expander with hide sets (Prosser's algorithm). Operands of ## are never macro names (the property's subset). (2) Include graphs of 2-5 header files (acyclic, repeated and diamond inclusion, with and without #pragma once, defining macros used later) must give the same tokens as the text with every include pasted in place. (3) 1-6 object-like and function-like defines, names repeated (a later define of a name replaces the earlier one) x every order-preserving split between API defines and #define lines before the first line give identical tokens. Non-trivial = a paste, an invocation nested in an argument or a stopped recursive reference; a file reached twice; a proper split. Distinct = hash of the input.".into();
    ctx.assumptions.push("trusted: the reference expander in harness/src/c12.rs; text between two directives is expanded as one unit (an invocation may span lines), definitions take effect from their line onward".into());
    ctx.assumptions.push("# stringification and ## whose operand is a macro name are outside the property's subset and are not generated".into());
    if !ctx.replay_tier(&check_record) {
        return;
    }
    ctx.run_prop(
        "macro_programs_vs_reference_expander",
        ctx.tier.pick(40_000, 1_000_000),
        || proptest::collection::vec(any::<u16>(), 20..300),
        |ch: &Vec<u16>| lines_json(&MacroGen { ch, pos: 0 }.program()),
        check_record,
    );
    // ---- a name redefined with another kind or another number of parameters, with and without #undef in between: the
    // definition in force is the last one above the site
    {
        const OBJ: [&str; 3] = ["1", "( 7 )", "q r"];
        const FUN: [&str; 3] = ["( a + a )", "[ a ]", "a"];
        let make = |i: u64| {
            let (o, f, seq, site) = (OBJ[(i % 3) as usize], FUN[((i / 3) % 3) as usize], (i / 9) % 6, (i / 54) % 2);
            let obj = format!("#define A {}\n", o);
            let fun = format!("#define A(a) {}\n", f);
            let fun2 = "#define A(a, b) a b\n".to_string();
            let undef = "#undef A\n".to_string();
            // (definitions, is the last definition function-like with one parameter / with two / object-like)
            let (defs, last): (String, u8) = match seq {
                0 => (format!("{}{}", obj, fun), 1),
                1 => (format!("{}{}", fun, obj), 0),
                2 => (format!("{}{}{}", obj, undef, fun), 1),
                3 => (format!("{}{}{}", fun, undef, obj), 0),
                4 => (format!("{}{}{}", obj, fun, obj), 0),
                _ => (format!("{}{}", fun, fun2), 2),
            };
            let sites = match (last, site) {
                (1, 0) => "x A ( 2 ) ; A ( A ( 3 ) ) ;\n",
                (1, _) => "A ; y A ( z ) + A ( 4 ) ;\n",
                (2, 0) => "x A ( 2 , 3 ) ;\n",
                (2, _) => "A ; A ( A ( 1 , 2 ) , 5 ) ;\n",
                (_, 0) => "x A ; A ( 3 ) ;\n",
                _ => "A + A ; ( A ) ;\n",
            };
            // a site between the definitions sees the earlier one
            let first_site = if seq == 1 || seq == 3 || seq == 5 { "A ( 9 ) ;\n" } else { "A ;\n" };
            let first_len = defs.find('\n').map(|k| k + 1).unwrap_or(0);
            let text = format!("{}{}{}{}", &defs[..first_len], first_site, &defs[first_len..], sites);
            json!({"kind": "macros", "text": text})
        };
        ctx.run_enum("redefinitions_of_another_kind", 108, true, make, |i| check_record(&make(i)));
    }
    ctx.run_prop(
        "include_graphs_vs_pasting",
        ctx.tier.pick(10_000, 200_000),
        || proptest::collection::vec(any::<u16>(), 10..80),
        |ch: &Vec<u16>| {
            let files = include_graph(ch);
            json!({"kind": "includes", "files": files})
        },
        check_record,
    );
    ctx.run_prop(
        "define_placement",
        ctx.tier.pick(10_000, 200_000),
        || (proptest::collection::vec((0usize..4, any::<u16>()), 1..7), any::<u32>(), proptest::collection::vec(any::<u16>(), 4..30)),
        |(defs, split, ch): &(Vec<(usize, u16)>, u32, Vec<u16>)| {
            const VALS: &[&str] = &["1", "a + b", "( x )", "D1 D2", "", "7 *", "y , z", "D0", "2", "F0 ( 3 )", "D3 ( 4 )"];
            const FVALS: &[&str] = &["p + 1", "p * p", "( p , D1 )", "", "D0 p", "9"];
            // names may repeat: a later define of a name replaces the earlier one, as a later #define line does
            let mut d = Vec::new();
            for (i, v) in defs {
                if *v % 5 == 0 {
                    d.push(json!([format!("F{}(p)", i % 2), pick(FVALS, v.wrapping_mul(31))]));
                } else {
                    d.push(json!([format!("D{}", i), pick(VALS, *v)]));
                }
            }
            let mut body = String::new();
            let mut g = MacroGen { ch, pos: 0 };
            for _ in 0..(1 + g.pick(4)) {
                body.push_str(&format!("D{} {} D{} ;\n", g.pick(4), ["+", "*", ";"][g.pick(3)], g.pick(4)));
                if g.pick(2) == 0 {
                    body.push_str(&format!("F{} ( D{} ) F1 ( 5 ) ;\n", g.pick(2), g.pick(4)));
                }
            }
            if g.pick(3) == 0 {
                body.push_str("#ifdef D1\nHAS_D1 ;\n#endif\n#if D0 == 1\nD0_IS_1 ;\n#endif\n");
            }
            json!({"kind": "placement", "defs": d, "body": body, "split": split % 64})
        },
        check_record,
    );
    for l in ["macros_agree", "has_paste", "nested_invocation_in_argument", "recursive_reference_stopped", "includes_agree", "placement_agrees", "placement_name_repeated_in_api", "placement_function_like_in_api"] {
        ctx.require_label(l, 50);
    }
}
