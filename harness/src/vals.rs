//! E4 — value domain and canonical operation library shared by the IR interpreter (E2) and the
//! emitted-text evaluator (E3). One total, deterministic definition per canonical operation, so
//! that "bit-identical" compares the structure of the computation, not platform float noise.

#[derive(Clone, Debug)]
pub enum V {
    Void,
    Bool(bool),
    Int(i32),
    UInt(u32),
    Half(f32),
    Float(f32),
    Double(f64),
    /// untyped integer literal
    LitI(i128),
    /// untyped float literal
    LitF(f64),
    /// enum value (underlying integer)
    Enum(i32),
    Vec(Vec<V>),
    Struct(Vec<V>),
    Array(Vec<V>),
}

#[derive(Copy, Clone, PartialEq, Eq, Debug, Hash, PartialOrd, Ord)]
pub enum K {
    Enum,
    Bool,
    LitI,
    Int,
    UInt,
    LitF,
    Half,
    Float,
    Double,
}

impl K {
    pub fn is_float(self) -> bool {
        matches!(self, K::LitF | K::Half | K::Float | K::Double)
    }
    pub fn from_name(n: &str) -> Option<K> {
        Some(match n {
            "bool" => K::Bool,
            "int" => K::Int,
            "uint" => K::UInt,
            "half" => K::Half,
            "float" => K::Float,
            "double" => K::Double,
            _ => return None,
        })
    }
}

/// bit-level equality (all NaNs are one value)
pub fn same(a: &V, b: &V) -> bool {
    match (a, b) {
        (V::Void, V::Void) => true,
        (V::Bool(x), V::Bool(y)) => x == y,
        (V::Int(x), V::Int(y)) => x == y,
        (V::Enum(x), V::Enum(y)) | (V::Enum(x), V::Int(y)) | (V::Int(x), V::Enum(y)) => x == y,
        (V::UInt(x), V::UInt(y)) => x == y,
        (V::Half(x), V::Half(y)) | (V::Float(x), V::Float(y)) => x.to_bits() == y.to_bits() || (x.is_nan() && y.is_nan()),
        (V::Double(x), V::Double(y)) | (V::LitF(x), V::LitF(y)) => x.to_bits() == y.to_bits() || (x.is_nan() && y.is_nan()),
        (V::LitI(x), V::LitI(y)) => x == y,
        (V::Vec(x), V::Vec(y)) | (V::Struct(x), V::Struct(y)) | (V::Array(x), V::Array(y)) => x.len() == y.len() && x.iter().zip(y).all(|(p, q)| same(p, q)),
        // a vector of one element and its element are the same value (Metal has no one-element vector types)
        (V::Vec(x), s) | (s, V::Vec(x)) if x.len() == 1 && s.is_scalar() => same(&x[0], s),
        _ => false,
    }
}

impl V {
    pub fn kind(&self) -> Option<K> {
        Some(match self {
            V::Bool(_) => K::Bool,
            V::Int(_) => K::Int,
            V::UInt(_) => K::UInt,
            V::Half(_) => K::Half,
            V::Float(_) => K::Float,
            V::Double(_) => K::Double,
            V::LitI(_) => K::LitI,
            V::LitF(_) => K::LitF,
            V::Enum(_) => K::Enum,
            V::Vec(v) => return v.first().and_then(|x| x.kind()),
            _ => return None,
        })
    }
    pub fn dim(&self) -> usize {
        match self {
            V::Vec(v) => v.len(),
            _ => 1,
        }
    }
    pub fn is_scalar(&self) -> bool {
        !matches!(self, V::Vec(_) | V::Struct(_) | V::Array(_) | V::Void)
    }
    pub fn zero(k: K) -> V {
        match k {
            K::Bool => V::Bool(false),
            K::Int => V::Int(0),
            K::UInt => V::UInt(0),
            K::Half => V::Half(0.0),
            K::Float => V::Float(0.0),
            K::Double => V::Double(0.0),
            K::LitI => V::LitI(0),
            K::LitF => V::LitF(0.0),
            K::Enum => V::Enum(0),
        }
    }
    pub fn truthy(&self) -> bool {
        match self {
            V::Bool(b) => *b,
            V::Int(x) | V::Enum(x) => *x != 0,
            V::UInt(x) => *x != 0,
            V::Half(x) | V::Float(x) => *x != 0.0,
            V::Double(x) | V::LitF(x) => *x != 0.0,
            V::LitI(x) => *x != 0,
            V::Vec(v) => v.first().map(|x| x.truthy()).unwrap_or(false),
            _ => false,
        }
    }
    fn as_f64(&self) -> f64 {
        match self {
            V::Bool(b) => *b as u8 as f64,
            V::Int(x) | V::Enum(x) => *x as f64,
            V::UInt(x) => *x as f64,
            V::Half(x) | V::Float(x) => *x as f64,
            V::Double(x) | V::LitF(x) => *x,
            V::LitI(x) => *x as f64,
            _ => 0.0,
        }
    }
    fn as_i128(&self) -> i128 {
        match self {
            V::Bool(b) => *b as i128,
            V::Int(x) | V::Enum(x) => *x as i128,
            V::UInt(x) => *x as i128,
            V::LitI(x) => *x,
            V::Half(x) | V::Float(x) => *x as i128,
            V::Double(x) | V::LitF(x) => *x as i128,
            _ => 0,
        }
    }
}

/// Convert a scalar to kind `k` (the one conversion function both evaluators use).
pub fn conv_scalar(v: &V, k: K) -> V {
    let from_float = matches!(v, V::Half(_) | V::Float(_) | V::Double(_) | V::LitF(_));
    match k {
        K::Bool => V::Bool(v.truthy()),
        K::Int | K::Enum => {
            let x = if from_float { v.as_f64() as i32 } else { v.as_i128() as i32 };
            if k == K::Int { V::Int(x) } else { V::Enum(x) }
        }
        K::UInt => V::UInt(if from_float { v.as_f64() as u32 } else { v.as_i128() as u32 }),
        K::Half => V::Half(conv_f32(v)),
        K::Float => V::Float(conv_f32(v)),
        K::Double => V::Double(match v {
            V::Half(x) | V::Float(x) => *x as f64,
            _ => v.as_f64(),
        }),
        K::LitI => V::LitI(if from_float { v.as_f64() as i128 } else { v.as_i128() }),
        K::LitF => V::LitF(v.as_f64()),
    }
}

fn conv_f32(v: &V) -> f32 {
    match v {
        V::Half(x) | V::Float(x) => *x,
        V::Int(x) | V::Enum(x) => *x as f32,
        V::UInt(x) => *x as f32,
        V::LitI(x) => *x as f32,
        V::Bool(b) => *b as u8 as f32,
        V::Double(x) | V::LitF(x) => *x as f32,
        _ => 0.0,
    }
}

/// Convert a value to (kind, dim): scalars splat, vectors truncate, component-wise conversion.
pub fn conv(v: &V, k: K, dim: usize) -> V {
    match v {
        V::Vec(c) => {
            if dim == 1 {
                conv_scalar(&c[0], k)
            } else if c.len() == 1 {
                V::Vec(vec![conv_scalar(&c[0], k); dim])
            } else {
                V::Vec((0..dim).map(|i| conv_scalar(c.get(i).unwrap_or(&c[c.len() - 1]), k)).collect())
            }
        }
        s if s.is_scalar() => {
            if dim == 1 {
                conv_scalar(s, k)
            } else {
                V::Vec(vec![conv_scalar(s, k); dim])
            }
        }
        other => other.clone(),
    }
}

fn map2(a: &V, b: &V, f: &dyn Fn(&V, &V) -> V) -> V {
    match (a, b) {
        (V::Vec(x), V::Vec(y)) => {
            let n = x.len().min(y.len()).max(1);
            V::Vec((0..n).map(|i| f(&x[i.min(x.len() - 1)], &y[i.min(y.len() - 1)])).collect())
        }
        (V::Vec(x), s) => V::Vec(x.iter().map(|c| f(c, s)).collect()),
        (s, V::Vec(y)) => V::Vec(y.iter().map(|c| f(s, c)).collect()),
        (x, y) => f(x, y),
    }
}

fn map1(a: &V, f: &dyn Fn(&V) -> V) -> V {
    match a {
        V::Vec(x) => V::Vec(x.iter().map(f).collect()),
        s => f(s),
    }
}

/// Binary arithmetic / bitwise / shift / comparison on operands of one scalar kind.
pub fn binop(op: &str, a: &V, b: &V) -> V {
    map2(a, b, &|x, y| binop_scalar(op, x, y))
}

fn cmp<T: PartialOrd>(op: &str, x: T, y: T) -> V {
    V::Bool(match op {
        "<" => x < y,
        "<=" => x <= y,
        ">" => x > y,
        ">=" => x >= y,
        "==" => x == y,
        _ => x != y,
    })
}

pub fn is_cmp(op: &str) -> bool {
    matches!(op, "<" | "<=" | ">" | ">=" | "==" | "!=")
}

fn binop_scalar(op: &str, a: &V, b: &V) -> V {
    match (a, b) {
        (V::Int(x), V::Int(y)) | (V::Enum(x), V::Enum(y)) | (V::Enum(x), V::Int(y)) | (V::Int(x), V::Enum(y)) => {
            if is_cmp(op) {
                return cmp(op, *x, *y);
            }
            let r = match op {
                "+" => x.wrapping_add(*y),
                "-" => x.wrapping_sub(*y),
                "*" => x.wrapping_mul(*y),
                "/" => {
                    if *y == 0 { 0 } else { x.wrapping_div(*y) }
                }
                "%" => {
                    if *y == 0 { 0 } else { x.wrapping_rem(*y) }
                }
                "<<" => x.wrapping_shl(*y as u32),
                ">>" => x.wrapping_shr(*y as u32),
                "&" => x & y,
                "|" => x | y,
                "^" => x ^ y,
                "&&" => (*x != 0 && *y != 0) as i32,
                "||" => (*x != 0 || *y != 0) as i32,
                _ => 0,
            };
            if matches!(a, V::Enum(_)) && matches!(b, V::Enum(_)) { V::Enum(r) } else { V::Int(r) }
        }
        (V::UInt(x), V::UInt(y)) => {
            if is_cmp(op) {
                return cmp(op, *x, *y);
            }
            V::UInt(match op {
                "+" => x.wrapping_add(*y),
                "-" => x.wrapping_sub(*y),
                "*" => x.wrapping_mul(*y),
                "/" => {
                    if *y == 0 { 0 } else { x / y }
                }
                "%" => {
                    if *y == 0 { 0 } else { x % y }
                }
                "<<" => x.wrapping_shl(*y),
                ">>" => x.wrapping_shr(*y),
                "&" => x & y,
                "|" => x | y,
                "^" => x ^ y,
                _ => 0,
            })
        }
        (V::LitI(x), V::LitI(y)) => {
            if is_cmp(op) {
                return cmp(op, *x, *y);
            }
            V::LitI(match op {
                "+" => x.wrapping_add(*y),
                "-" => x.wrapping_sub(*y),
                "*" => x.wrapping_mul(*y),
                "/" => {
                    if *y == 0 { 0 } else { x.wrapping_div(*y) }
                }
                "%" => {
                    if *y == 0 { 0 } else { x.wrapping_rem(*y) }
                }
                "<<" => x.wrapping_shl((*y as u32) & 127),
                ">>" => x.wrapping_shr((*y as u32) & 127),
                "&" => x & y,
                "|" => x | y,
                "^" => x ^ y,
                _ => 0,
            })
        }
        (V::Bool(x), V::Bool(y)) => match op {
            "&&" | "&" => V::Bool(*x && *y),
            "||" | "|" => V::Bool(*x || *y),
            "^" => V::Bool(*x != *y),
            _ if is_cmp(op) => cmp(op, *x, *y),
            _ => binop_scalar(op, &V::Int(*x as i32), &V::Int(*y as i32)),
        },
        (V::Half(x), V::Half(y)) => match fop32(op, *x, *y) {
            Ok(r) => V::Half(r),
            Err(b) => b,
        },
        (V::Float(x), V::Float(y)) => match fop32(op, *x, *y) {
            Ok(r) => V::Float(r),
            Err(b) => b,
        },
        (V::Double(x), V::Double(y)) => match fop64(op, *x, *y) {
            Ok(r) => V::Double(r),
            Err(b) => b,
        },
        (V::LitF(x), V::LitF(y)) => match fop64(op, *x, *y) {
            Ok(r) => V::LitF(r),
            Err(b) => b,
        },
        // mismatched kinds: the caller is responsible for conversions; be total anyway
        (x, y) => {
            let k = x.kind().max(y.kind()).unwrap_or(K::Int);
            let k = if k == K::Bool || k == K::Enum { K::Int } else { k };
            binop_scalar(op, &conv_scalar(x, k), &conv_scalar(y, k))
        }
    }
}

fn fop32(op: &str, x: f32, y: f32) -> Result<f32, V> {
    Ok(match op {
        "+" => x + y,
        "-" => x - y,
        "*" => x * y,
        "/" => x / y,
        "%" => x % y,
        _ if is_cmp(op) => return Err(cmp(op, x, y)),
        _ => 0.0,
    })
}

fn fop64(op: &str, x: f64, y: f64) -> Result<f64, V> {
    Ok(match op {
        "+" => x + y,
        "-" => x - y,
        "*" => x * y,
        "/" => x / y,
        "%" => x % y,
        _ if is_cmp(op) => return Err(cmp(op, x, y)),
        _ => 0.0,
    })
}

pub fn unop(op: &str, a: &V) -> V {
    map1(a, &|x| match (op, x) {
        ("+", v) => v.clone(),
        ("-", V::Int(v)) => V::Int(v.wrapping_neg()),
        ("-", V::Enum(v)) => V::Enum(v.wrapping_neg()),
        ("-", V::UInt(v)) => V::UInt(v.wrapping_neg()),
        ("-", V::LitI(v)) => V::LitI(v.wrapping_neg()),
        ("-", V::Half(v)) => V::Half(-v),
        ("-", V::Float(v)) => V::Float(-v),
        ("-", V::Double(v)) => V::Double(-v),
        ("-", V::LitF(v)) => V::LitF(-v),
        ("-", V::Bool(v)) => V::Bool(*v),
        ("!", v) => V::Bool(!v.truthy()),
        ("~", V::Int(v)) => V::Int(!v),
        ("~", V::Enum(v)) => V::Enum(!v),
        ("~", V::UInt(v)) => V::UInt(!v),
        ("~", V::LitI(v)) => V::LitI(!v),
        ("~", V::Bool(v)) => V::Int(!(*v as i32)),
        (_, v) => v.clone(),
    })
}

/// x + 1 / x - 1 in the kind of x
pub fn step_one(v: &V, delta: i32) -> V {
    map1(v, &|x| match x {
        V::Int(a) => V::Int(a.wrapping_add(delta)),
        V::UInt(a) => V::UInt(a.wrapping_add(delta as u32)),
        V::Half(a) => V::Half(a + delta as f32),
        V::Float(a) => V::Float(a + delta as f32),
        V::Double(a) => V::Double(a + delta as f64),
        V::Enum(a) => V::Enum(a.wrapping_add(delta)),
        other => other.clone(),
    })
}

fn f1(a: &V, f32f: fn(f32) -> f32, f64f: fn(f64) -> f64) -> V {
    map1(a, &|x| match x {
        V::Half(v) => V::Half(f32f(*v)),
        V::Float(v) => V::Float(f32f(*v)),
        V::Double(v) => V::Double(f64f(*v)),
        V::LitF(v) => V::LitF(f64f(*v)),
        other => V::Float(f32f(conv_f32(other))),
    })
}

fn round_even32(x: f32) -> f32 {
    let r = x.round();
    if (x - x.trunc()).abs() == 0.5 { 2.0 * (x / 2.0).round() } else { r }
}
fn round_even64(x: f64) -> f64 {
    let r = x.round();
    if (x - x.trunc()).abs() == 0.5 { 2.0 * (x / 2.0).round() } else { r }
}

fn comps(v: &V) -> Vec<V> {
    match v {
        V::Vec(c) => c.clone(),
        s => vec![s.clone()],
    }
}

fn dot(a: &V, b: &V) -> V {
    let (x, y) = (comps(a), comps(b));
    let mut acc: Option<V> = None;
    for (p, q) in x.iter().zip(y.iter()) {
        let m = binop("*", p, q);
        acc = Some(match acc {
            None => m,
            Some(s) => binop("+", &s, &m),
        });
    }
    acc.unwrap_or(V::Float(0.0))
}

/// Canonical intrinsics. `None` = not a canonical operation known to the library.
pub fn intrinsic(name: &str, args: &[V]) -> Option<V> {
    let a = |i: usize| -> &V { &args[i] };
    Some(match (name, args.len()) {
        ("abs", 1) => map1(a(0), &|x| match x {
            V::Int(v) => V::Int(v.wrapping_abs()),
            V::Half(v) => V::Half(v.abs()),
            V::Float(v) => V::Float(v.abs()),
            V::Double(v) => V::Double(v.abs()),
            o => o.clone(),
        }),
        ("floor", 1) => f1(a(0), f32::floor, f64::floor),
        ("ceil", 1) => f1(a(0), f32::ceil, f64::ceil),
        ("trunc", 1) => f1(a(0), f32::trunc, f64::trunc),
        ("round", 1) => f1(a(0), round_even32, round_even64),
        ("frac", 1) => f1(a(0), |x| x - x.floor(), |x| x - x.floor()),
        ("saturate", 1) => f1(a(0), |x| if x.is_nan() { 0.0 } else { x.clamp(0.0, 1.0) }, |x| if x.is_nan() { 0.0 } else { x.clamp(0.0, 1.0) }),
        ("sqrt", 1) => f1(a(0), f32::sqrt, f64::sqrt),
        ("rsqrt", 1) => f1(a(0), |x| 1.0 / x.sqrt(), |x| 1.0 / x.sqrt()),
        ("rcp", 1) => f1(a(0), |x| 1.0 / x, |x| 1.0 / x),
        ("exp2", 1) => f1(a(0), f32::exp2, f64::exp2),
        ("exp", 1) => f1(a(0), f32::exp, f64::exp),
        ("log2", 1) => f1(a(0), f32::log2, f64::log2),
        ("log", 1) => f1(a(0), f32::ln, f64::ln),
        ("sin", 1) => f1(a(0), f32::sin, f64::sin),
        ("cos", 1) => f1(a(0), f32::cos, f64::cos),
        ("min", 2) => map2(a(0), a(1), &|x, y| if binop_scalar("<", y, x).truthy() { y.clone() } else { x.clone() }),
        ("max", 2) => map2(a(0), a(1), &|x, y| if binop_scalar("<", x, y).truthy() { y.clone() } else { x.clone() }),
        ("clamp", 3) => {
            let lo = intrinsic("max", &[a(0).clone(), a(1).clone()])?;
            intrinsic("min", &[lo, a(2).clone()])?
        }
        ("step", 2) => map2(a(0), a(1), &|y, x| {
            let one = conv_scalar(&V::Int(1), x.kind().unwrap_or(K::Float));
            let zero = conv_scalar(&V::Int(0), x.kind().unwrap_or(K::Float));
            if binop_scalar(">=", x, y).truthy() { one } else { zero }
        }),
        ("pow", 2) => map2(a(0), a(1), &|x, y| match (x, y) {
            (V::Double(p), V::Double(q)) => V::Double(p.powf(*q)),
            (V::Half(p), V::Half(q)) => V::Half(p.powf(*q)),
            (p, q) => V::Float(conv_f32(p).powf(conv_f32(q))),
        }),
        ("fmod", 2) => binop("%", a(0), a(1)),
        ("lerp", 3) => {
            let d = binop("-", a(1), a(0));
            let m = binop("*", a(2), &d);
            binop("+", a(0), &m)
        }
        ("smoothstep", 3) => {
            // t = saturate((x - a) / (b - a)); t * t * (3 - 2 t)
            let num = binop("-", a(2), a(0));
            let den = binop("-", a(1), a(0));
            let t = intrinsic("saturate", &[binop("/", &num, &den)])?;
            let k = a(2).kind().unwrap_or(K::Float);
            let three = conv_scalar(&V::Int(3), k);
            let two = conv_scalar(&V::Int(2), k);
            let inner = binop("-", &three, &binop("*", &two, &t));
            binop("*", &binop("*", &t, &t), &inner)
        }
        ("dot", 2) => dot(a(0), a(1)),
        ("length", 1) => intrinsic("sqrt", &[dot(a(0), a(0))])?,
        ("distance", 2) => {
            let d = binop("-", a(0), a(1));
            intrinsic("sqrt", &[dot(&d, &d)])?
        }
        ("normalize", 1) => {
            let l = intrinsic("length", &[a(0).clone()])?;
            binop("/", a(0), &l)
        }
        ("cross", 2) => {
            let (x, y) = (comps(a(0)), comps(a(1)));
            if x.len() != 3 || y.len() != 3 {
                return None;
            }
            let c = |i: usize, j: usize| binop("-", &binop("*", &x[i], &y[j]), &binop("*", &x[j], &y[i]));
            V::Vec(vec![c(1, 2), c(2, 0), c(0, 1)])
        }
        ("asfloat", 1) => map1(a(0), &|x| match x {
            V::UInt(v) => V::Float(f32::from_bits(*v)),
            V::Int(v) => V::Float(f32::from_bits(*v as u32)),
            V::Float(v) => V::Float(*v),
            o => o.clone(),
        }),
        ("asint", 1) => map1(a(0), &|x| match x {
            V::UInt(v) => V::Int(*v as i32),
            V::Float(v) => V::Int(v.to_bits() as i32),
            V::Int(v) => V::Int(*v),
            o => o.clone(),
        }),
        ("asuint", 1) => map1(a(0), &|x| match x {
            V::Int(v) => V::UInt(*v as u32),
            V::Float(v) => V::UInt(v.to_bits()),
            V::UInt(v) => V::UInt(*v),
            o => o.clone(),
        }),
        ("sign", 1) => map1(a(0), &|x| match x {
            V::Int(v) => V::Int(v.signum()),
            V::Half(v) | V::Float(v) => V::Int(if *v > 0.0 { 1 } else if *v < 0.0 { -1 } else { 0 }),
            V::Double(v) => V::Int(if *v > 0.0 { 1 } else if *v < 0.0 { -1 } else { 0 }),
            o => o.clone(),
        }),
        ("select", 3) => match (a(0), a(1), a(2)) {
            (V::Vec(c), x, y) => {
                let (xc, yc) = (comps(x), comps(y));
                V::Vec((0..c.len()).map(|i| if c[i].truthy() { xc[i.min(xc.len() - 1)].clone() } else { yc[i.min(yc.len() - 1)].clone() }).collect())
            }
            (c, x, y) => {
                if c.truthy() { x.clone() } else { y.clone() }
            }
        },
        ("countbits", 1) => map1(a(0), &|x| match x {
            V::UInt(v) => V::UInt(v.count_ones()),
            V::Int(v) => V::Int(v.count_ones() as i32),
            o => o.clone(),
        }),
        ("reversebits", 1) => map1(a(0), &|x| match x {
            V::UInt(v) => V::UInt(v.reverse_bits()),
            V::Int(v) => V::Int(v.reverse_bits()),
            o => o.clone(),
        }),
        ("any", 1) => V::Bool(comps(a(0)).iter().any(|c| c.truthy())),
        ("all", 1) => V::Bool(comps(a(0)).iter().all(|c| c.truthy())),
        ("isnan", 1) => map1(a(0), &|x| V::Bool(x.as_f64().is_nan())),
        ("isinf", 1) => map1(a(0), &|x| V::Bool(x.as_f64().is_infinite())),
        ("isfinite", 1) => map1(a(0), &|x| V::Bool(x.as_f64().is_finite())),
        _ => return None,
    })
}

/// Render for messages.
pub fn show(v: &V) -> String {
    match v {
        V::Void => "void".into(),
        V::Bool(b) => b.to_string(),
        V::Int(x) => format!("{}", x),
        V::Enum(x) => format!("enum({})", x),
        V::UInt(x) => format!("{}u", x),
        V::Half(x) => format!("{:?}h[{:08x}]", x, x.to_bits()),
        V::Float(x) => format!("{:?}f[{:08x}]", x, x.to_bits()),
        V::Double(x) => format!("{:?}L[{:016x}]", x, x.to_bits()),
        V::LitI(x) => format!("lit({})", x),
        V::LitF(x) => format!("lit({:?})", x),
        V::Vec(c) => format!("<{}>", c.iter().map(show).collect::<Vec<_>>().join(", ")),
        V::Struct(c) => format!("{{{}}}", c.iter().map(show).collect::<Vec<_>>().join(", ")),
        V::Array(c) => format!("[{}]", c.iter().map(show).collect::<Vec<_>>().join(", ")),
    }
}
