//! C06 — binding slots are allocated completely, contiguously and without overlap.
//!
//! Oracle: a reference bump allocator written from the property statement, plus model-independent
//! range checks (pairwise disjoint, gap-free from zero, complete).

use crate::common::*;
use proptest::prelude::*;
use rssl::ApiLocation;
use serde_json::{Value, json};

#[derive(Clone, Copy, Debug, PartialEq, Eq)]
pub enum Kind {
    Texture2D,
    RwTexture2D,
    TexelBuffer,
    RawBuffer,
    RwRawBuffer,
    StructuredBuffer,
    RwStructuredBuffer,
    BufferAddress,
    RwBufferAddress,
    ConstantBufferT,
    CBuffer,
    Sampler,
    ComparisonSampler,
    StaticSampler,
    AccelerationStructure,
    NonResource,
}

const KINDS: [Kind; 16] = [
    Kind::Texture2D,
    Kind::RwTexture2D,
    Kind::TexelBuffer,
    Kind::RawBuffer,
    Kind::RwRawBuffer,
    Kind::StructuredBuffer,
    Kind::RwStructuredBuffer,
    Kind::BufferAddress,
    Kind::RwBufferAddress,
    Kind::ConstantBufferT,
    Kind::CBuffer,
    Kind::Sampler,
    Kind::ComparisonSampler,
    Kind::StaticSampler,
    Kind::AccelerationStructure,
    Kind::NonResource,
];

/// the 8 kind classes of the exhaustive part
const CLASSES: [Kind; 8] = [
    Kind::Texture2D,
    Kind::RawBuffer,
    Kind::RwStructuredBuffer,
    Kind::BufferAddress,
    Kind::ConstantBufferT,
    Kind::CBuffer,
    Kind::StaticSampler,
    Kind::NonResource,
];

impl Kind {
    fn can_be_array(self) -> bool {
        !matches!(self, Kind::CBuffer | Kind::StaticSampler | Kind::BufferAddress | Kind::RwBufferAddress)
    }
    fn is_address(self) -> bool {
        matches!(self, Kind::BufferAddress | Kind::RwBufferAddress)
    }
    fn metal_double(self) -> bool {
        matches!(self, Kind::RawBuffer | Kind::RwRawBuffer | Kind::StructuredBuffer | Kind::RwStructuredBuffer | Kind::BufferAddress | Kind::RwBufferAddress)
    }
    fn type_text(self) -> &'static str {
        match self {
            Kind::Texture2D => "Texture2D<float4>",
            Kind::RwTexture2D => "RWTexture2D<float4>",
            Kind::TexelBuffer => "Buffer<float4>",
            Kind::RawBuffer => "ByteAddressBuffer",
            Kind::RwRawBuffer => "RWByteAddressBuffer",
            Kind::StructuredBuffer => "StructuredBuffer<S>",
            Kind::RwStructuredBuffer => "RWStructuredBuffer<S>",
            Kind::BufferAddress => "BufferAddress",
            Kind::RwBufferAddress => "RWBufferAddress",
            Kind::ConstantBufferT => "ConstantBuffer<S>",
            Kind::CBuffer => "cbuffer",
            Kind::Sampler | Kind::StaticSampler => "SamplerState",
            Kind::ComparisonSampler => "SamplerComparisonState",
            Kind::AccelerationStructure => "RaytracingAccelerationStructure",
            Kind::NonResource => "static float4",
        }
    }
    fn register_letter(self) -> char {
        match self {
            Kind::RwTexture2D | Kind::RwRawBuffer | Kind::RwStructuredBuffer | Kind::RwBufferAddress => 'u',
            Kind::ConstantBufferT | Kind::CBuffer => 'b',
            Kind::Sampler | Kind::ComparisonSampler | Kind::StaticSampler => 's',
            _ => 't',
        }
    }
}

#[derive(Clone, Debug, PartialEq)]
pub struct Decl {
    kind: Kind,
    len: Option<u32>,
    group: Option<u32>,
    /// how an explicit group is spelled: 0 [[rssl::bind_group]], 1 register(space), 2 register(xN, space), 3 [[vk::binding(i, g)]]
    syntax: u8,
}

#[derive(Clone, Debug)]
pub struct Case {
    decls: Vec<Decl>,
    tgt: Tgt,
    /// None = no-pipeline mode, Some(g) = pipeline with DefaultBindGroup = g
    default_group: Option<u32>,
}

fn render(c: &Case) -> String {
    let mut s = String::from("struct S { float4 v; };\n");
    for (i, d) in c.decls.iter().enumerate() {
        let name = format!("r{}", i);
        let len = if d.kind.can_be_array() { d.len } else { None };
        let arr = len.map(|n| format!("[{}]", n)).unwrap_or_default();
        let mut prefix = String::new();
        let mut suffix = String::new();
        if d.kind != Kind::NonResource {
            if let Some(g) = d.group {
                match d.syntax % 4 {
                    0 => prefix = format!("[[rssl::bind_group({})]] ", g),
                    1 => suffix = format!(" : register(space{})", g),
                    2 => suffix = format!(" : register({}{}, space{})", d.kind.register_letter(), 40 - i, g),
                    _ => prefix = format!("[[vk::binding({}, {})]] ", 30 - i, g),
                }
                if d.kind == Kind::StaticSampler && d.syntax % 4 >= 2 {
                    // a static sampler may not carry a binding index
                    prefix = format!("[[rssl::bind_group({})]] ", g);
                    suffix.clear();
                }
            }
        }
        match d.kind {
            Kind::CBuffer => s.push_str(&format!("{}cbuffer {}{} {{ float4 m{}; }}\n", prefix, name, suffix, i)),
            Kind::StaticSampler => s.push_str(&format!("{}SamplerState {}{} = StaticSampler {{ Filter = MIN_MAG_MIP_LINEAR; }};\n", prefix, name, suffix)),
            // the array comes from a typedef of the array type, or the element type comes from a typedef (the front end
            // rejects a register() suffix on a declaration through an array typedef: those keep the plain spelling)
            k if !arr.is_empty() && d.syntax / 4 == 1 && suffix.is_empty() && k != Kind::NonResource => s.push_str(&format!("typedef {} TA{}{};\n{}TA{} {};\n", k.type_text(), i, arr, prefix, i, name)),
            k if d.syntax / 4 == 2 && k != Kind::NonResource => s.push_str(&format!("typedef {} TE{};\n{}TE{} {}{}{};\n", k.type_text(), i, prefix, i, name, arr, suffix)),
            k => s.push_str(&format!("{}{} {}{}{};\n", prefix, k.type_text(), name, arr, suffix)),
        }
    }
    if let Some(g) = c.default_group {
        s.push_str(&format!("[numthreads(1, 1, 1)] void cs() {{}}\nPipeline P {{ ComputeShader = cs; DefaultBindGroup = {}; }}\n", g));
    }
    s
}

#[derive(Debug, PartialEq, Clone)]
pub struct Slot {
    name: String,
    group: u32,
    /// Ok(index) or Err(inline offset)
    loc: Result<u32, u32>,
    count: u32,
    width: u32,
}

/// The reference allocator: (bindings, inline blocks (group, slot, size))
fn model(c: &Case) -> (Vec<Slot>, Vec<(u32, u32, u32)>) {
    let metal = c.tgt == Tgt::Msl;
    let ba = c.tgt == Tgt::VkBa;
    let default = c.default_group.unwrap_or(0);
    let mut counter: std::collections::BTreeMap<u32, u32> = Default::default();
    let mut inline: std::collections::BTreeMap<u32, u32> = Default::default();
    let mut out = Vec::new();
    for (i, d) in c.decls.iter().enumerate() {
        if d.kind == Kind::NonResource {
            continue;
        }
        if d.kind == Kind::StaticSampler && metal {
            continue;
        }
        let group = d.group.unwrap_or(default);
        let count = if d.kind.can_be_array() { d.len.unwrap_or(1) } else { 1 };
        let name = format!("r{}", i);
        if ba && d.kind.is_address() {
            let off = inline.entry(group).or_insert(0);
            out.push(Slot { name, group, loc: Err(*off), count, width: 8 * count });
            *off += 8 * count;
        } else {
            let width = count * if metal && d.kind.metal_double() { 2 } else { 1 };
            let ctr = counter.entry(group).or_insert(0);
            out.push(Slot { name, group, loc: Ok(*ctr), count, width });
            *ctr += width;
        }
    }
    let blocks = inline.iter().map(|(g, size)| (*g, counter.get(g).copied().unwrap_or(0), *size)).collect();
    (out, blocks)
}

fn judge(c: &Case) -> Verdict {
    let src = render(c);
    let files = vec![("main.rssl".to_string(), src.clone())];
    let mode = if c.default_group.is_some() { Mode::All } else { Mode::NoPipeline };
    let r = compile(&CompileReq { files: &files, entry: "main.rssl", defines: &[], tgt: c.tgt, mode, validate_layout: false });
    let pipelines = match r {
        Err(p) => return Verdict::fail(format!("panic:{}", p), format!("target {}\n{}", c.tgt.name(), src)),
        Ok(Err(e)) => return Verdict::Skip(format!("rejected: {}", normalise_panic(e.lines().next().unwrap_or("")))),
        Ok(Ok(p)) => p,
    };
    let meta = &pipelines[0].metadata;
    let (want, want_blocks) = model(c);
    // observed
    let mut got = Vec::new();
    let mut got_blocks = Vec::new();
    for (g, bg) in meta.bind_groups.iter().enumerate() {
        for b in &bg.bindings {
            let Some(count) = b.descriptor_count else {
                return Verdict::fail("unbounded-count-for-bounded-resource", format!("{:?}\n{}", b, src));
            };
            got.push((b.name.clone(), g as u32, match b.api_binding {
                ApiLocation::Index(i) => Ok(i),
                ApiLocation::InlineConstant(o) => Err(o),
            }, count));
        }
        if let Some(ic) = &bg.inline_constants {
            got_blocks.push((g as u32, ic.api_location, ic.size_in_bytes));
        }
    }
    let detail = |what: &str| format!("{}\ntarget {} default group {:?}\nmodel bindings: {:?}\nmodel inline blocks: {:?}\nobserved bindings: {:?}\nobserved inline blocks: {:?}\n{}", what, c.tgt.name(), c.default_group, want, want_blocks, got, got_blocks, src);

    // model-independent: ranges per group are disjoint, gap-free from zero and complete
    let metal = c.tgt == Tgt::Msl;
    let mut groups: std::collections::BTreeMap<u32, Vec<(u32, u32, String)>> = Default::default();
    for (name, g, loc, count) in &got {
        if let Ok(i) = loc {
            // width by declared kind (from the name index)
            let idx: usize = name[1..].parse().unwrap_or(0);
            let k = c.decls.get(idx).map(|d| d.kind).unwrap_or(Kind::Texture2D);
            let w = count * if metal && k.metal_double() { 2 } else { 1 };
            groups.entry(*g).or_default().push((*i, w, name.clone()));
        }
    }
    for (g, blocks) in got_blocks.iter().map(|b| (b.0, b)) {
        groups.entry(g).or_default().push((blocks.1, 1, "<inline block>".into()));
    }
    for (g, ranges) in groups.iter_mut() {
        ranges.sort();
        let mut next = 0;
        for (start, w, name) in ranges.iter() {
            if *start < next {
                return Verdict::fail("ranges:overlap", detail(&format!("group {}: {} starts at {} but {} slots are already taken", g, name, start, next)));
            }
            if *start > next {
                return Verdict::fail("ranges:gap", detail(&format!("group {}: {} starts at {} leaving a gap from {}", g, name, start, next)));
            }
            next = start + w;
        }
    }
    // model comparison (names, groups, slots, counts)
    let want_flat: Vec<(String, u32, Result<u32, u32>, u32)> = want.iter().map(|s| (s.name.clone(), s.group, s.loc, s.count)).collect();
    let mut a = want_flat.clone();
    let mut b = got.clone();
    a.sort();
    b.sort();
    if a != b {
        let missing: Vec<&String> = a.iter().filter(|x| !b.iter().any(|y| y.0 == x.0)).map(|x| &x.0).collect();
        let sig = if !missing.is_empty() {
            "model:binding-missing"
        } else if b.len() > a.len() {
            "model:extra-binding"
        } else {
            "model:slot-differs"
        };
        return Verdict::fail(sig, detail("metadata differs from the reference allocator"));
    }
    let mut wb = want_blocks.clone();
    let mut gb = got_blocks.clone();
    wb.sort();
    gb.sort();
    if wb != gb {
        return Verdict::fail("model:inline-block-differs", detail("inline constant block differs from the reference allocator"));
    }
    // non-trivial: an array followed by another resource in the same group, or >= 2 groups populated
    let mut nontrivial = groups.len() >= 2;
    for (i, s) in want.iter().enumerate() {
        if s.count > 1 && want[i + 1..].iter().any(|t| t.group == s.group) {
            nontrivial = true;
        }
    }
    let mut labels = vec![format!("tgt_{}", c.tgt.name())];
    if !got_blocks.is_empty() {
        labels.push("has_inline_block".into());
    }
    if c.default_group.map(|g| g > 0).unwrap_or(false) && c.decls.iter().any(|d| d.group.is_none() && d.kind != Kind::NonResource) {
        labels.push("uses_nonzero_default_group".into());
    }
    Verdict::pass(if nontrivial { Some(hash_of(&(src, c.tgt.name()))) } else { None }, labels)
}

// ---------------------------------------------------------------------------------------------

fn case_json(c: &Case) -> Value {
    json!({
        "decls": c.decls.iter().map(|d| json!([KINDS.iter().position(|k| *k == d.kind).unwrap(), d.len, d.group, d.syntax])).collect::<Vec<_>>(),
        "tgt": c.tgt.name(),
        "default_group": c.default_group,
        "source": render(c),
    })
}

fn case_from(v: &Value) -> Case {
    Case {
        decls: v["decls"]
            .as_array()
            .map(|a| {
                a.iter()
                    .map(|d| Decl {
                        kind: KINDS[(d[0].as_u64().unwrap_or(0) as usize).min(15)],
                        len: d[1].as_u64().map(|x| x as u32),
                        group: d[2].as_u64().map(|x| x as u32),
                        syntax: d[3].as_u64().unwrap_or(0) as u8,
                    })
                    .collect()
            })
            .unwrap_or_default(),
        tgt: Tgt::from_name(v["tgt"].as_str().unwrap_or("dx")),
        default_group: v["default_group"].as_u64().map(|x| x as u32),
    }
}

pub fn check_record(rec: &Value) -> Verdict {
    judge(&case_from(rec))
}

/// exhaustive enumeration: sequences over 32 symbols (8 classes x array {none,2} x group {none,1}),
/// shortest first, each under 4 targets x default group choice
fn exhaustive_case(mut i: u64, max_default_variants: u64) -> Case {
    let cfg = i % (4 * max_default_variants);
    i /= 4 * max_default_variants;
    let tgt = Tgt::ALL4[(cfg % 4) as usize];
    let default_group = match cfg / 4 {
        0 => None,
        n => Some(n as u32 - 1),
    };
    let mut len = 0u32;
    loop {
        let c = 32u64.pow(len);
        if i < c {
            break;
        }
        i -= c;
        len += 1;
    }
    let mut decls = Vec::new();
    for _ in 0..len {
        let sym = i % 32;
        i /= 32;
        decls.push(Decl {
            kind: CLASSES[(sym % 8) as usize],
            len: if (sym / 8) % 2 == 1 { Some(2) } else { None },
            group: if sym / 16 == 1 { Some(1) } else { None },
            syntax: 0,
        });
    }
    Case { decls, tgt, default_group }
}

fn decl_strategy() -> impl Strategy<Value = Decl> {
    (
        any::<u16>(),
        prop_oneof![3 => Just(None), 1 => Just(Some(1u32)), 2 => Just(Some(2u32)), 2 => Just(Some(3u32))],
        prop_oneof![3 => Just(None), 1 => Just(Some(0u32)), 1 => Just(Some(1u32)), 1 => Just(Some(2u32))],
        0u8..12,
    )
        .prop_map(|(k, len, group, syntax)| Decl { kind: *pick(&KINDS, k), len, group, syntax })
}

fn case_strategy() -> impl Strategy<Value = Case> {
    (proptest::collection::vec(decl_strategy(), 1..=24), 0usize..4, prop_oneof![Just(None), Just(Some(0u32)), Just(Some(1u32)), Just(Some(2u32))])
        .prop_map(|(decls, t, default_group)| Case { decls, tgt: Tgt::ALL4[t], default_group })
}

pub fn run(ctx: &mut Ctx) {
    ctx.rule = "Sequences of global declarations over {texture, RW texture, texel buffer, raw / RW raw buffer, structured / RW structured buffer, buffer address / RW buffer address, ConstantBuffer<T>, cbuffer, sampler, comparison sampler, static sampler, acceleration structure, non-resource global} x array length {none,1,2,3} x explicit group {none,0,1,2} (spelled as [[rssl::bind_group]], register(spaceN), register(xK, spaceN) or [[vk::binding(K, N)]]), under {DirectX, Vulkan, Vulkan+buffer addresses, Metal} x {no-pipeline mode, DefaultBindGroup 0..2}. Exhaustive over the reduced 32-symbol alphabet (8 kind classes x {none,[2]} x {none, group 1}) up to the stated length, random lengths 1-24 over the full alphabet. Oracle: metadata equals the reference bump allocator (name, group, slot or inline offset, count; inline block slot and size) and, independently, the slot ranges of every group are pairwise disjoint and gap-free from 0. Non-trivial = an array followed by another resource in its group, or >= 2 groups populated. Arrays of buffer addresses and unbounded arrays are not generated.".into();
    ctx.assumptions.push("trusted: the reference allocator in harness/src/c06.rs (declaration order, explicit-or-default group, N slots per array of N, doubled for raw/structured/address buffers on Metal, static samplers without slots on Metal, 8 bytes per buffer address in one inline block per group placed after the group's last slot)".into());
    if !ctx.replay_tier(&check_record) {
        return;
    }
    let max_len: u32 = ctx.tier.pick(3, 4);
    let variants = 3u64; // no-pipeline, default group 0, default group 1
    let seqs: u64 = (0..=max_len).map(|l| 32u64.pow(l)).sum();
    let count = seqs * 4 * variants;
    ctx.run_enum(
        &format!("exhaustive_len_le_{}", max_len),
        count,
        true,
        |i| case_json(&exhaustive_case(i, variants)),
        |i| judge(&exhaustive_case(i, variants)),
    );
    ctx.extra.insert("exhaustive".into(), json!(true));
    ctx.extra.insert("exhaustive_max_length".into(), json!(max_len));
    ctx.extra.insert("exhaustive_sequences".into(), json!(seqs));
    ctx.run_prop("random_declaration_sequences", ctx.tier.pick(12_000, 300_000), case_strategy, case_json, check_record);
    for l in ["tgt_dx", "tgt_vk", "tgt_vkba", "tgt_msl", "has_inline_block", "uses_nonzero_default_group"] {
        ctx.require_label(l, 50);
    }
}
