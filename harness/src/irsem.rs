//! E2 — interpreter for `ir::Module`: "RSSL's typed semantics". It walks the IR exactly as the
//! type checker produced it (explicit casts, resolved calls, constructor slots, swizzles, struct
//! members, intrinsic operators, sequences, out/inout copy-in/copy-out, statics with their
//! initialisers, default arguments converted to the parameter type).

use crate::vals::*;
use rssl::ir;
use std::collections::HashMap;

#[derive(Debug)]
pub enum Stop {
    /// outside what the interpreter models (counted as unsupported, never a violation)
    Unsupported(String),
    /// step budget exhausted
    Fuel,
}

type R<T> = Result<T, Stop>;

fn unsupported<T>(what: impl Into<String>) -> R<T> {
    Err(Stop::Unsupported(what.into()))
}

#[derive(Clone, Debug)]
enum Root {
    Local(usize, ir::VariableId),
    Global(ir::GlobalId),
    This,
    /// a temporary (rvalue used where a place is needed)
    Temp(V),
}

#[derive(Clone, Debug)]
enum Step {
    Field(usize),
    Index(usize),
    Swizzle(Vec<usize>),
}

#[derive(Clone, Debug)]
struct Place {
    root: Root,
    path: Vec<Step>,
}

enum Flow {
    Normal,
    Break,
    Continue,
    Return(V),
}

pub struct Interp<'m> {
    pub m: &'m ir::Module,
    pub globals: HashMap<u32, V>,
    frames: Vec<HashMap<u32, V>>,
    this_stack: Vec<Place>,
    pub fuel: u64,
}

fn get_path(v: &V, path: &[Step]) -> R<V> {
    let Some((first, rest)) = path.split_first() else { return Ok(v.clone()) };
    match (first, v) {
        (Step::Field(i), V::Struct(f)) => get_path(f.get(*i).ok_or(Stop::Unsupported("field out of range".into()))?, rest),
        (Step::Index(i), V::Array(a)) | (Step::Index(i), V::Vec(a)) => {
            // out-of-range reads are excluded by the generator; be total anyway
            let idx = (*i).min(a.len().saturating_sub(1));
            get_path(&a[idx], rest)
        }
        (Step::Swizzle(s), V::Vec(c)) => {
            let r = if s.len() == 1 { c.get(s[0]).cloned().ok_or(Stop::Unsupported("swizzle out of range".into()))? } else { V::Vec(s.iter().map(|i| c[(*i).min(c.len() - 1)].clone()).collect()) };
            get_path(&r, rest)
        }
        (Step::Swizzle(s), scalar) if scalar.is_scalar() => {
            let r = if s.len() == 1 { scalar.clone() } else { V::Vec(vec![scalar.clone(); s.len()]) };
            get_path(&r, rest)
        }
        (s, v) => unsupported(format!("path step {:?} on {}", s, show(v))),
    }
}

fn set_path(v: &mut V, path: &[Step], new: V) -> R<()> {
    let Some((first, rest)) = path.split_first() else {
        *v = new;
        return Ok(());
    };
    match (first, v) {
        (Step::Field(i), V::Struct(f)) => set_path(f.get_mut(*i).ok_or(Stop::Unsupported("field out of range".into()))?, rest, new),
        (Step::Index(i), V::Array(a)) | (Step::Index(i), V::Vec(a)) => {
            let idx = (*i).min(a.len().saturating_sub(1));
            set_path(&mut a[idx], rest, new)
        }
        (Step::Swizzle(s), V::Vec(c)) => {
            if !rest.is_empty() {
                return unsupported("nested path below a swizzle store");
            }
            if s.len() == 1 {
                c[s[0]] = new;
            } else if let V::Vec(n) = new {
                for (k, i) in s.iter().enumerate() {
                    c[*i] = n[k.min(n.len() - 1)].clone();
                }
            } else {
                for i in s {
                    c[*i] = new.clone();
                }
            }
            Ok(())
        }
        (Step::Swizzle(s), scalar) if scalar.is_scalar() && s.len() == 1 && rest.is_empty() => {
            *scalar = new;
            Ok(())
        }
        (s, v) => unsupported(format!("store path step {:?} on {}", s, show(v))),
    }
}

pub fn scalar_kind(s: ir::ScalarType) -> K {
    match s {
        ir::ScalarType::Bool => K::Bool,
        ir::ScalarType::IntLiteral => K::LitI,
        ir::ScalarType::Int32 => K::Int,
        ir::ScalarType::UInt32 => K::UInt,
        ir::ScalarType::FloatLiteral => K::LitF,
        ir::ScalarType::Float16 => K::Half,
        ir::ScalarType::Float32 => K::Float,
        ir::ScalarType::Float64 => K::Double,
    }
}

impl<'m> Interp<'m> {
    pub fn new(m: &'m ir::Module) -> Interp<'m> {
        Interp { m, globals: HashMap::new(), frames: Vec::new(), this_stack: Vec::new(), fuel: 200_000 }
    }

    fn layer(&self, ty: ir::TypeId) -> ir::TypeLayer {
        let t = self.m.type_registry.remove_modifier(ty);
        self.m.type_registry.get_type_layer(t)
    }

    /// zero value of a type
    pub fn zero(&self, ty: ir::TypeId) -> R<V> {
        Ok(match self.layer(ty) {
            ir::TypeLayer::Void => V::Void,
            ir::TypeLayer::Scalar(s) => V::zero(scalar_kind(s)),
            ir::TypeLayer::Vector(inner, n) => {
                let z = self.zero(inner)?;
                V::Vec(vec![z; n as usize])
            }
            ir::TypeLayer::Struct(id) => {
                let def = &self.m.struct_registry[id.0 as usize];
                V::Struct(def.members.iter().map(|mm| self.zero(mm.type_id)).collect::<R<Vec<_>>>()?)
            }
            ir::TypeLayer::Enum(_) => V::Enum(0),
            ir::TypeLayer::Array(inner, Some(n)) => {
                let z = self.zero(inner)?;
                V::Array(vec![z; n as usize])
            }
            other => return unsupported(format!("zero value of {:?}", other)),
        })
    }

    /// a value of type `ty` whose scalars all are the conversion of `x`
    fn fill(&self, ty: ir::TypeId, x: &V) -> R<V> {
        if let Some((k, dim)) = self.numeric(ty) {
            let r = conv(x, k, dim);
            return Ok(if dim == 1 && self.is_vector_type(ty) { V::Vec(vec![r]) } else { r });
        }
        Ok(match self.layer(ty) {
            ir::TypeLayer::Struct(id) => {
                let def = &self.m.struct_registry[id.0 as usize];
                V::Struct(def.members.iter().map(|mm| self.fill(mm.type_id, x)).collect::<R<Vec<_>>>()?)
            }
            ir::TypeLayer::Array(inner, Some(n)) => {
                let z = self.fill(inner, x)?;
                V::Array(vec![z; n as usize])
            }
            other => return unsupported(format!("scalar converted to {:?}", other)),
        })
    }

    /// (kind, dim) of a numeric / enum type
    fn numeric(&self, ty: ir::TypeId) -> Option<(K, usize)> {
        match self.layer(ty) {
            ir::TypeLayer::Scalar(s) => Some((scalar_kind(s), 1)),
            ir::TypeLayer::Vector(inner, n) => match self.layer(inner) {
                ir::TypeLayer::Scalar(s) => Some((scalar_kind(s), n as usize)),
                _ => None,
            },
            ir::TypeLayer::Enum(_) => Some((K::Enum, 1)),
            _ => None,
        }
    }

    fn is_vector_type(&self, ty: ir::TypeId) -> bool {
        matches!(self.layer(ty), ir::TypeLayer::Vector(..))
    }

    /// conversion to a declared type (Cast nodes, initialisers of default arguments)
    pub fn convert_to(&self, v: &V, ty: ir::TypeId) -> R<V> {
        match self.numeric(ty) {
            Some((k, dim)) => {
                // a cast that adds vector components (`(float3)v2`) is accepted by the front end but has no meaning in HLSL
                if let V::Vec(c) = v {
                    if c.len() > 1 && dim > c.len() {
                        return unsupported("cast that adds vector components");
                    }
                }
                // an array or struct cast to a scalar: the first element of the flattened operand
                fn first_leaf(v: &V) -> Option<V> {
                    match v {
                        V::Array(items) | V::Struct(items) => items.iter().find_map(first_leaf),
                        V::Vec(items) => items.first().cloned(),
                        V::Void => None,
                        other => Some(other.clone()),
                    }
                }
                let leaf;
                let v = if matches!(v, V::Array(_) | V::Struct(_)) {
                    if dim != 1 {
                        return unsupported("cast of an array or struct to a vector");
                    }
                    leaf = match first_leaf(v) {
                        Some(l) => l,
                        None => return unsupported("cast of an array or struct without elements"),
                    };
                    &leaf
                } else {
                    v
                };
                let r = conv(v, k, dim);
                // a one-element vector type keeps its vector shape
                Ok(if dim == 1 && self.is_vector_type(ty) { V::Vec(vec![r]) } else { r })
            }
            None => match (self.layer(ty), v) {
                // (S)x : every scalar inside the struct receives the converted scalar
                (ir::TypeLayer::Struct(_), x) if x.is_scalar() => self.fill(ty, x),
                // a struct converted to its base keeps the leading members (members of a base come first)
                (ir::TypeLayer::Struct(id), V::Struct(fields)) if fields.len() > self.m.struct_registry[id.0 as usize].members.len() => {
                    Ok(V::Struct(fields[..self.m.struct_registry[id.0 as usize].members.len()].to_vec()))
                }
                (ir::TypeLayer::Struct(_), V::Struct(_)) | (ir::TypeLayer::Array(..), V::Array(_)) => Ok(v.clone()),
                (l, x) => unsupported(format!("cast of {} to {:?}", show(x), l)),
            },
        }
    }

    fn constant(&self, c: &ir::Constant) -> R<V> {
        Ok(match c {
            ir::Constant::Bool(b) => V::Bool(*b),
            ir::Constant::IntLiteral(v) => V::LitI(*v),
            ir::Constant::Int32(v) => V::Int(*v),
            ir::Constant::UInt32(v) => V::UInt(*v),
            ir::Constant::FloatLiteral(v) => V::LitF(*v),
            ir::Constant::Float16(v) => V::Half(*v),
            ir::Constant::Float32(v) => V::Float(*v),
            ir::Constant::Float64(v) => V::Double(*v),
            ir::Constant::Enum(_, inner) => match self.constant(inner)? {
                V::Int(x) => V::Enum(x),
                V::UInt(x) => V::Enum(x as i32),
                V::LitI(x) => V::Enum(x as i32),
                o => o,
            },
            other => return unsupported(format!("constant {:?}", other)),
        })
    }

    // ---- places

    fn read_root(&self, root: &Root) -> R<V> {
        match root {
            Root::Local(frame, id) => self.frames[*frame].get(&id.0).cloned().ok_or_else(|| Stop::Unsupported(format!("read of undeclared local {}", id.0))),
            Root::Global(id) => self.globals.get(&id.0).cloned().ok_or_else(|| Stop::Unsupported(format!("read of global {} without a value", id.0))),
            Root::This => {
                let p = self.this_stack.last().cloned().ok_or(Stop::Unsupported("member access without an object".into()))?;
                self.read(&p)
            }
            Root::Temp(v) => Ok(v.clone()),
        }
    }

    fn read(&self, p: &Place) -> R<V> {
        let base = self.read_root(&p.root)?;
        get_path(&base, &p.path)
    }

    fn write(&mut self, p: &Place, v: V) -> R<()> {
        match &p.root {
            Root::Local(frame, id) => {
                let slot = self.frames[*frame].get_mut(&id.0).ok_or_else(|| Stop::Unsupported("store to undeclared local".into()))?;
                set_path(slot, &p.path, v)
            }
            Root::Global(id) => {
                let slot = self.globals.get_mut(&id.0).ok_or_else(|| Stop::Unsupported("store to a global without a value".into()))?;
                set_path(slot, &p.path, v)
            }
            Root::This => {
                let base = self.this_stack.last().cloned().ok_or(Stop::Unsupported("member store without an object".into()))?;
                let mut full = base.clone();
                full.path.extend(p.path.iter().cloned());
                self.write(&full, v)
            }
            Root::Temp(_) => Ok(()),
        }
    }

    fn swizzle_indices(s: &[ir::SwizzleSlot]) -> Vec<usize> {
        s.iter()
            .map(|x| match x {
                ir::SwizzleSlot::X => 0,
                ir::SwizzleSlot::Y => 1,
                ir::SwizzleSlot::Z => 2,
                ir::SwizzleSlot::W => 3,
            })
            .collect()
    }

    fn place(&mut self, e: &ir::Expression) -> R<Place> {
        Ok(match e {
            ir::Expression::Variable(id) => Place { root: Root::Local(self.frames.len() - 1, *id), path: Vec::new() },
            ir::Expression::Global(id) => {
                self.ensure_global(*id)?;
                Place { root: Root::Global(*id), path: Vec::new() }
            }
            ir::Expression::MemberVariable(_, idx) => Place { root: Root::This, path: vec![Step::Field(*idx as usize)] },
            ir::Expression::StructMember(inner, _, idx) => {
                let mut p = self.place(inner)?;
                p.path.push(Step::Field(*idx as usize));
                p
            }
            ir::Expression::ArraySubscript(inner, index) => {
                let mut p = self.place(inner)?;
                let i = self.eval(index)?;
                let i = match conv_scalar(&i, K::LitI) {
                    V::LitI(x) => x.max(0) as usize,
                    _ => 0,
                };
                p.path.push(Step::Index(i));
                p
            }
            ir::Expression::Swizzle(inner, s) => {
                let mut p = self.place(inner)?;
                p.path.push(Step::Swizzle(Self::swizzle_indices(s)));
                p
            }
            ir::Expression::Cast(_, _) | ir::Expression::Call(..) | ir::Expression::Literal(_) | ir::Expression::Constructor(..) | ir::Expression::TernaryConditional(..) | ir::Expression::IntrinsicOp(..) | ir::Expression::Sequence(_) | ir::Expression::EnumValue(_) => {
                // assignment-like operators return lvalues; anything else is a temporary
                match e {
                    ir::Expression::IntrinsicOp(op, args) if is_assignment(op) || matches!(op, ir::IntrinsicOp::PrefixIncrement | ir::IntrinsicOp::PrefixDecrement) => {
                        // the operand's own effects happen exactly once
                        self.apply_lvalue_op(op, args)?.0
                    }
                    ir::Expression::Sequence(chain) => {
                        for x in &chain[..chain.len() - 1] {
                            self.eval(x)?;
                        }
                        self.place(chain.last().unwrap())?
                    }
                    _ => Place { root: Root::Temp(self.eval(e)?), path: Vec::new() },
                }
            }
            other => return unsupported(format!("place of {:?}", std::mem::discriminant(other))),
        })
    }

    fn ensure_global(&mut self, id: ir::GlobalId) -> R<()> {
        if self.globals.contains_key(&id.0) {
            return Ok(());
        }
        let g = &self.m.global_registry[id.0 as usize];
        let v = match &g.init {
            Some(init) => self.initializer(init, g.type_id)?,
            None => self.zero(g.type_id)?,
        };
        self.globals.insert(id.0, v);
        Ok(())
    }

    /// Evaluate every static global's initialiser (the initial state of a call)
    pub fn init_globals(&mut self) -> R<()> {
        self.frames.push(HashMap::new());
        for i in 0..self.m.global_registry.len() {
            let g = &self.m.global_registry[i];
            if g.is_intrinsic {
                continue;
            }
            if matches!(self.layer(g.type_id), ir::TypeLayer::Object(_)) {
                continue;
            }
            self.ensure_global(ir::GlobalId(i as u32))?;
        }
        self.frames.pop();
        Ok(())
    }

    fn initializer(&mut self, init: &ir::Initializer, ty: ir::TypeId) -> R<V> {
        match init {
            ir::Initializer::Expression(e) => {
                let v = self.eval(e)?;
                // initialisers already have the variable's type; literal-typed leftovers are pinned here
                if matches!(v.kind(), Some(K::LitI | K::LitF)) { self.convert_to(&v, ty) } else { Ok(v) }
            }
            ir::Initializer::Aggregate(items) => match self.layer(ty) {
                ir::TypeLayer::Array(inner, _) => Ok(V::Array(items.iter().map(|i| self.initializer(i, inner)).collect::<R<Vec<_>>>()?)),
                ir::TypeLayer::Struct(id) => {
                    let def = self.m.struct_registry[id.0 as usize].clone();
                    Ok(V::Struct(items.iter().zip(def.members.iter()).map(|(i, mm)| self.initializer(i, mm.type_id)).collect::<R<Vec<_>>>()?))
                }
                ir::TypeLayer::Vector(inner, _) => Ok(V::Vec(items.iter().map(|i| self.initializer(i, inner)).collect::<R<Vec<_>>>()?)),
                other => unsupported(format!("aggregate initialiser for {:?}", other)),
            },
        }
    }

    // ---- expressions

    fn tick(&mut self) -> R<()> {
        if self.fuel == 0 {
            return Err(Stop::Fuel);
        }
        self.fuel -= 1;
        Ok(())
    }

    pub fn eval(&mut self, e: &ir::Expression) -> R<V> {
        self.tick()?;
        Ok(match e {
            ir::Expression::Literal(c) => self.constant(c)?,
            ir::Expression::Variable(_) | ir::Expression::Global(_) | ir::Expression::MemberVariable(..) | ir::Expression::StructMember(..) | ir::Expression::ArraySubscript(..) | ir::Expression::Swizzle(..) => {
                let p = self.place(e)?;
                self.read(&p)?
            }
            ir::Expression::EnumValue(id) => {
                let ev = self.m.enum_registry.get_enum_value(*id);
                match self.constant(&ev.value)? {
                    V::Int(x) => V::Enum(x),
                    V::UInt(x) => V::Enum(x as i32),
                    V::LitI(x) => V::Enum(x as i32),
                    V::Enum(x) => V::Enum(x),
                    o => o,
                }
            }
            ir::Expression::TernaryConditional(c, a, b) => {
                if self.eval(c)?.truthy() { self.eval(a)? } else { self.eval(b)? }
            }
            ir::Expression::Sequence(chain) => {
                let mut last = V::Void;
                for x in chain {
                    last = self.eval(x)?;
                }
                last
            }
            ir::Expression::Cast(ty, inner) => {
                let v = self.eval(inner)?;
                self.convert_to(&v, *ty)?
            }
            ir::Expression::SizeOf(ty) => match self.numeric(*ty) {
                Some((K::Half, n)) => V::UInt(2 * n as u32),
                Some((K::Double, n)) => V::UInt(8 * n as u32),
                Some((_, n)) => V::UInt(4 * n as u32),
                None => return unsupported("sizeof of a non-numeric type"),
            },
            ir::Expression::Constructor(ty, slots) => {
                let (k, dim) = self.numeric(*ty).ok_or(Stop::Unsupported("constructor of a non-numeric type".into()))?;
                let mut comps = Vec::new();
                for s in slots {
                    let v = self.eval(&s.expr)?;
                    match v {
                        V::Vec(c) => comps.extend(c.iter().map(|x| conv_scalar(x, k))),
                        x => comps.push(conv_scalar(&x, k)),
                    }
                }
                if comps.len() != dim {
                    return unsupported(format!("constructor with {} components for dimension {}", comps.len(), dim));
                }
                if dim == 1 && !self.is_vector_type(*ty) { comps.remove(0) } else { V::Vec(comps) }
            }
            ir::Expression::Call(id, call_type, args) => self.call(*id, call_type, args)?,
            ir::Expression::IntrinsicOp(op, args) => self.intrinsic_op(op, args)?,
            other => return unsupported(format!("expression {:?}", std::mem::discriminant(other))),
        })
    }

    fn intrinsic_op(&mut self, op: &ir::IntrinsicOp, args: &[ir::Expression]) -> R<V> {
        use ir::IntrinsicOp::*;
        let bin = |name: &'static str| name;
        Ok(match op {
            PrefixIncrement | PrefixDecrement => self.apply_lvalue_op(op, args)?.1,
            PostfixIncrement | PostfixDecrement => {
                let p = self.place(&args[0])?;
                let old = self.read(&p)?;
                let new = step_one(&old, if matches!(op, PostfixIncrement) { 1 } else { -1 });
                self.write(&p, new)?;
                old
            }
            Plus => self.eval(&args[0])?,
            Minus => unop("-", &self.eval(&args[0])?),
            LogicalNot => unop("!", &self.eval(&args[0])?),
            BitwiseNot => unop("~", &self.eval(&args[0])?),
            BooleanAnd => {
                let a = self.eval(&args[0])?;
                if !a.truthy() { V::Bool(false) } else { V::Bool(self.eval(&args[1])?.truthy()) }
            }
            BooleanOr => {
                let a = self.eval(&args[0])?;
                if a.truthy() { V::Bool(true) } else { V::Bool(self.eval(&args[1])?.truthy()) }
            }
            Add | Subtract | Multiply | Divide | Modulus | LeftShift | RightShift | BitwiseAnd | BitwiseOr | BitwiseXor | LessThan | LessEqual | GreaterThan | GreaterEqual | Equality | Inequality => {
                let name = bin(match op {
                    Add => "+",
                    Subtract => "-",
                    Multiply => "*",
                    Divide => "/",
                    Modulus => "%",
                    LeftShift => "<<",
                    RightShift => ">>",
                    BitwiseAnd => "&",
                    BitwiseOr => "|",
                    BitwiseXor => "^",
                    LessThan => "<",
                    LessEqual => "<=",
                    GreaterThan => ">",
                    GreaterEqual => ">=",
                    Equality => "==",
                    _ => "!=",
                });
                let a = self.eval(&args[0])?;
                let b = self.eval(&args[1])?;
                binop(name, &a, &b)
            }
            op if is_assignment(op) => self.apply_lvalue_op(op, args)?.1,
            other => return unsupported(format!("intrinsic operator {:?}", other)),
        })
    }

    /// prefix increment / decrement and the assignment operators: returns the place written and its new value
    fn apply_lvalue_op(&mut self, op: &ir::IntrinsicOp, args: &[ir::Expression]) -> R<(Place, V)> {
        use ir::IntrinsicOp::*;
        Ok(match op {
            PrefixIncrement | PrefixDecrement => {
                let p = self.place(&args[0])?;
                let old = self.read(&p)?;
                let new = step_one(&old, if matches!(op, PrefixIncrement) { 1 } else { -1 });
                self.write(&p, new.clone())?;
                (p, new)
            }
            Assignment => {
                let p = self.place(&args[0])?;
                let v = self.eval(&args[1])?;
                self.write(&p, v.clone())?;
                (p, v)
            }
            _ => {
                let name = match op {
                    SumAssignment => "+",
                    DifferenceAssignment => "-",
                    ProductAssignment => "*",
                    QuotientAssignment => "/",
                    RemainderAssignment => "%",
                    LeftShiftAssignment => "<<",
                    RightShiftAssignment => ">>",
                    BitwiseAndAssignment => "&",
                    BitwiseOrAssignment => "|",
                    BitwiseXorAssignment => "^",
                    other => return unsupported(format!("lvalue operator {:?}", other)),
                };
                let p = self.place(&args[0])?;
                let rhs = self.eval(&args[1])?;
                let old = self.read(&p)?;
                let new = binop(name, &old, &rhs);
                // the result is stored in (and has) the type of the left side
                let new = match old.kind() {
                    Some(k) if new.kind() != Some(k) => conv(&new, k, old.dim()),
                    _ => new,
                };
                self.write(&p, new.clone())?;
                (p, new)
            }
        })
    }

    fn call(&mut self, id: ir::FunctionId, call_type: &ir::CallType, args: &[ir::Expression]) -> R<V> {
        let reg = &self.m.function_registry;
        if let Some(intr) = reg.get_intrinsic_data(id) {
            let name = canonical_intrinsic(intr).ok_or_else(|| Stop::Unsupported(format!("intrinsic {:?}", intr)))?;
            let mut vals = Vec::new();
            for a in args {
                vals.push(self.eval(a)?);
            }
            return intrinsic(name, &vals).ok_or_else(|| Stop::Unsupported(format!("intrinsic {} with {} arguments", name, vals.len())));
        }
        let Some(imp) = reg.get_function_implementation(id).clone() else { return unsupported("call of a function without a body") };
        let sig = reg.get_function_signature(id).clone();
        // the object of a method call is the first argument
        let (this_place, args) = match call_type {
            ir::CallType::FreeFunction => (None, args),
            ir::CallType::MethodExternal => (Some(self.place(&args[0])?), &args[1..]),
            ir::CallType::MethodInternal => (self.this_stack.last().cloned(), args),
        };
        // evaluate arguments in the caller's frame
        let mut frame: HashMap<u32, V> = HashMap::new();
        let mut copy_back: Vec<(Place, u32)> = Vec::new();
        for (i, p) in imp.params.iter().enumerate() {
            let ty = p.param_type.type_id;
            let v = match (args.get(i), &p.param_type.input_modifier) {
                (Some(a), ir::InputModifier::In) => self.eval(a)?,
                (Some(a), ir::InputModifier::Out) => {
                    let pl = self.place(a)?;
                    copy_back.push((pl, p.id.0));
                    self.zero(ty)?
                }
                (Some(a), ir::InputModifier::InOut) => {
                    let pl = self.place(a)?;
                    let cur = self.read(&pl)?;
                    copy_back.push((pl, p.id.0));
                    cur
                }
                (None, _) => match &p.default_expr {
                    // default arguments are stored unconverted: convert to the parameter type
                    Some(d) => {
                        let v = self.eval(d)?;
                        self.convert_to(&v, ty)?
                    }
                    None => return unsupported("missing argument without a default"),
                },
            };
            frame.insert(p.id.0, v);
        }
        let _ = sig;
        if self.frames.len() > 64 {
            return unsupported("call depth");
        }
        self.frames.push(frame);
        if let Some(tp) = this_place.clone() {
            self.this_stack.push(tp);
        }
        let flow = self.block(&imp.scope_block);
        if this_place.is_some() {
            self.this_stack.pop();
        }
        let frame = self.frames.pop().unwrap();
        let flow = flow?;
        for (pl, id) in copy_back {
            let v = frame.get(&id).cloned().unwrap_or(V::Void);
            self.write(&pl, v)?;
        }
        Ok(match flow {
            Flow::Return(v) => v,
            // the source's own meaning is undefined when a function with a result ends without one
            _ if !self.m.type_registry.is_void(self.m.function_registry.get_function_signature(id).return_type.return_type) => return unsupported("a function with a result ends without returning a value"),
            _ => V::Void,
        })
    }

    // ---- statements

    fn block(&mut self, b: &ir::ScopeBlock) -> R<Flow> {
        self.stmts(&b.0)
    }

    fn stmts(&mut self, ss: &[ir::Statement]) -> R<Flow> {
        for s in ss {
            match self.stmt(s)? {
                Flow::Normal => {}
                other => return Ok(other),
            }
        }
        Ok(Flow::Normal)
    }

    fn declare(&mut self, def: &ir::VarDef) -> R<()> {
        let ty = self.m.variable_registry.get_local_variable(def.id).type_id;
        let is_static = matches!(self.m.variable_registry.get_local_variable(def.id).storage_class, ir::LocalStorage::Static);
        if is_static {
            return unsupported("static local");
        }
        let v = match &def.init {
            Some(i) => self.initializer(i, ty)?,
            None => self.zero(ty)?,
        };
        self.frames.last_mut().unwrap().insert(def.id.0, v);
        Ok(())
    }

    fn stmt(&mut self, s: &ir::Statement) -> R<Flow> {
        self.tick()?;
        use ir::StatementKind::*;
        Ok(match &s.kind {
            Expression(e) => {
                self.eval(e)?;
                Flow::Normal
            }
            Var(def) => {
                self.declare(def)?;
                Flow::Normal
            }
            Block(b) => self.block(b)?,
            If(c, b) => {
                if self.eval(c)?.truthy() { self.block(b)? } else { Flow::Normal }
            }
            IfElse(c, a, b) => {
                if self.eval(c)?.truthy() { self.block(a)? } else { self.block(b)? }
            }
            For(init, cond, inc, body) => {
                match init {
                    ir::ForInit::Empty => {}
                    ir::ForInit::Expression(e) => {
                        self.eval(e)?;
                    }
                    ir::ForInit::Definitions(defs) => {
                        for d in defs {
                            self.declare(d)?;
                        }
                    }
                }
                loop {
                    self.tick()?;
                    if let Some(c) = cond {
                        if !self.eval(c)?.truthy() {
                            break;
                        }
                    }
                    match self.block(body)? {
                        Flow::Break => break,
                        Flow::Return(v) => return Ok(Flow::Return(v)),
                        _ => {}
                    }
                    if let Some(i) = inc {
                        self.eval(i)?;
                    }
                }
                Flow::Normal
            }
            While(c, body) => {
                loop {
                    self.tick()?;
                    if !self.eval(c)?.truthy() {
                        break;
                    }
                    match self.block(body)? {
                        Flow::Break => break,
                        Flow::Return(v) => return Ok(Flow::Return(v)),
                        _ => {}
                    }
                }
                Flow::Normal
            }
            DoWhile(body, c) => {
                loop {
                    self.tick()?;
                    match self.block(body)? {
                        Flow::Break => break,
                        Flow::Return(v) => return Ok(Flow::Return(v)),
                        _ => {}
                    }
                    if !self.eval(c)?.truthy() {
                        break;
                    }
                }
                Flow::Normal
            }
            Switch(e, body) => {
                let v = self.eval(e)?;
                let key = conv_scalar(&v, K::LitI);
                // find the matching label, else default
                let mut start = None;
                let mut default = None;
                for (i, st) in body.0.iter().enumerate() {
                    match &st.kind {
                        CaseLabel(c) => {
                            let cv = conv_scalar(&self.constant(c)?, K::LitI);
                            if same(&cv, &key) && start.is_none() {
                                start = Some(i);
                            }
                        }
                        DefaultLabel => default = Some(i),
                        _ => {}
                    }
                }
                let Some(begin) = start.or(default) else { return Ok(Flow::Normal) };
                match self.stmts(&body.0[begin..])? {
                    Flow::Break | Flow::Normal => Flow::Normal,
                    other => other,
                }
            }
            Break => Flow::Break,
            Continue => Flow::Continue,
            Discard => return unsupported("discard"),
            Return(e) => Flow::Return(match e {
                Some(e) => self.eval(e)?,
                None => V::Void,
            }),
            CaseLabel(_) | DefaultLabel => Flow::Normal,
        })
    }

    /// Call a function by id with argument values. Returns (return value, values of out/inout parameters in order).
    pub fn run_function(&mut self, id: ir::FunctionId, args: &[V]) -> R<(V, Vec<V>)> {
        let Some(imp) = self.m.function_registry.get_function_implementation(id).clone() else { return unsupported("function without a body") };
        let mut frame = HashMap::new();
        for (i, p) in imp.params.iter().enumerate() {
            let v = match p.param_type.input_modifier {
                ir::InputModifier::Out => self.zero(p.param_type.type_id)?,
                _ => args.get(i).cloned().ok_or(Stop::Unsupported("too few arguments".into()))?,
            };
            frame.insert(p.id.0, v);
        }
        self.frames.push(frame);
        let flow = self.block(&imp.scope_block);
        let frame = self.frames.pop().unwrap();
        let ret = match flow? {
            Flow::Return(v) => v,
            _ if !self.m.type_registry.is_void(self.m.function_registry.get_function_signature(id).return_type.return_type) => return unsupported("a function with a result ends without returning a value"),
            _ => V::Void,
        };
        let outs = imp.params.iter().filter(|p| !matches!(p.param_type.input_modifier, ir::InputModifier::In)).map(|p| frame.get(&p.id.0).cloned().unwrap_or(V::Void)).collect();
        Ok((ret, outs))
    }
}

impl<'m> Interp<'m> {
    /// Call a method on an object value. Returns (return value, out/inout parameter values, final object).
    pub fn run_method(&mut self, id: ir::FunctionId, this: V, args: &[V]) -> R<(V, Vec<V>, V)> {
        // the object lives in a reserved slot of a dedicated frame
        const THIS_SLOT: u32 = u32::MAX;
        let mut holder = HashMap::new();
        holder.insert(THIS_SLOT, this);
        self.frames.push(holder);
        let frame_index = self.frames.len() - 1;
        self.this_stack.push(Place { root: Root::Local(frame_index, ir::VariableId(THIS_SLOT)), path: Vec::new() });
        let r = self.run_function(id, args);
        self.this_stack.pop();
        let holder = self.frames.pop().unwrap();
        let (ret, outs) = r?;
        Ok((ret, outs, holder.get(&THIS_SLOT).cloned().unwrap_or(V::Void)))
    }
}

fn is_assignment(op: &ir::IntrinsicOp) -> bool {
    use ir::IntrinsicOp::*;
    matches!(
        op,
        Assignment | SumAssignment | DifferenceAssignment | ProductAssignment | QuotientAssignment | RemainderAssignment | LeftShiftAssignment | RightShiftAssignment | BitwiseAndAssignment | BitwiseOrAssignment | BitwiseXorAssignment
    )
}

pub fn canonical_intrinsic(i: &ir::Intrinsic) -> Option<&'static str> {
    use ir::Intrinsic::*;
    Some(match i {
        Abs => "abs",
        Floor => "floor",
        Ceil => "ceil",
        Trunc => "trunc",
        Round => "round",
        Frac => "frac",
        Saturate => "saturate",
        Sqrt => "sqrt",
        RcpSqrt => "rsqrt",
        Rcp => "rcp",
        Exp2 => "exp2",
        Exp => "exp",
        Log2 => "log2",
        Log => "log",
        Sin => "sin",
        Cos => "cos",
        Min => "min",
        Max => "max",
        Clamp => "clamp",
        Step => "step",
        Pow => "pow",
        Fmod => "fmod",
        Lerp => "lerp",
        SmoothStep => "smoothstep",
        Dot => "dot",
        Length => "length",
        Distance => "distance",
        Normalize => "normalize",
        Cross => "cross",
        AsFloat => "asfloat",
        AsInt => "asint",
        AsUInt => "asuint",
        Sign => "sign",
        Select => "select",
        CountBits => "countbits",
        ReverseBits => "reversebits",
        Any => "any",
        All => "all",
        IsNaN => "isnan",
        IsInfinite => "isinf",
        IsFinite => "isfinite",
        _ => return None,
    })
}
