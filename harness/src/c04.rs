//! C04 — emitted DirectX HLSL is accepted by the front end and is a fixpoint.

use crate::common::*;
use crate::progen;
use serde_json::{Value, json};

/// The third-party corpus under /repo/tests, with the include resolution of tests/external.rs.
pub struct Corpus {
    pub suite: &'static str,
    pub files: Vec<(String, String)>,
    pub entries: Vec<String>,
}

fn walk(dir: &std::path::Path, base: &std::path::Path, out: &mut Vec<(String, String)>) {
    let Ok(rd) = std::fs::read_dir(dir) else { return };
    let mut entries: Vec<_> = rd.filter_map(|e| e.ok()).collect();
    entries.sort_by_key(|e| e.path());
    for e in entries {
        let p = e.path();
        if p.is_dir() {
            walk(&p, base, out);
        } else if let Ok(text) = std::fs::read_to_string(&p) {
            let rel = p.strip_prefix(base).unwrap().to_string_lossy().to_string();
            if rel != "mod.rs" {
                out.push((rel, text));
            }
        }
    }
}

pub fn load_corpus() -> Vec<Corpus> {
    let mut out = Vec::new();
    for suite in ["ffx_fsr2", "capsaicin"] {
        let base = std::path::PathBuf::from(format!("/repo/tests/{}", suite));
        let mut files = Vec::new();
        walk(&base, &base, &mut files);
        let modrs = std::fs::read_to_string(base.join("mod.rs")).unwrap_or_default();
        let mut entries = Vec::new();
        let mut rest = modrs.as_str();
        while let Some(i) = rest.find("compile_file(") {
            rest = &rest[i + 13..];
            if let Some(q) = rest.find('"') {
                let r2 = &rest[q + 1..];
                if let Some(q2) = r2.find('"') {
                    entries.push(r2[..q2].to_string());
                }
            }
        }
        out.push(Corpus { suite, files, entries });
    }
    out
}

/// include handler with the relative-then-absolute lookup of tests/external.rs
pub struct PathFiles(pub Vec<(String, String)>);

fn norm(parts: Vec<&str>) -> String {
    let mut v: Vec<&str> = Vec::new();
    for p in parts {
        if p == ".." {
            v.pop();
        } else {
            v.push(p);
        }
    }
    v.join("/")
}

impl rssl::text::IncludeHandler for PathFiles {
    fn load(&mut self, file_name: &str, parent_name: &str) -> Result<rssl::text::FileData, rssl::text::IncludeError> {
        let mut parent: Vec<&str> = parent_name.split('/').collect();
        parent.pop();
        let mut rel = parent.clone();
        rel.extend(file_name.split('/'));
        let relative = norm(rel);
        let absolute = norm(file_name.split('/').collect());
        for cand in [relative, absolute] {
            for (n, c) in &self.0 {
                if *n == cand {
                    return Ok(rssl::text::FileData { real_name: n.clone(), contents: c.clone() });
                }
            }
        }
        Err(rssl::text::IncludeError::FileNotFound)
    }
}

pub fn compile_corpus(files: &[(String, String)], entry: &str) -> Result<Result<rssl::CompiledPipeline, String>, String> {
    let mut h = PathFiles(files.to_vec());
    guard(|| {
        let args = rssl::CompileArgs::new(entry, &mut h, rssl::Target::HlslForDirectX)
            .defines(&[("FFX_GPU", "1"), ("FFX_HLSL", "1"), ("globallycoherent", "")])
            .no_pipeline_mode();
        match rssl::compile(args) {
            Ok(mut p) => Ok(p.remove(0)),
            Err(e) => Err(e.to_string()),
        }
    })
}

fn bindings_of(p: &rssl::CompiledPipeline) -> Vec<String> {
    let mut v = Vec::new();
    for (g, bg) in p.metadata.bind_groups.iter().enumerate() {
        for b in &bg.bindings {
            v.push(format!("{} group {} {:?} {:?} x{:?}", b.name, g, b.api_binding, b.descriptor_type, b.descriptor_count));
        }
        if let Some(ic) = &bg.inline_constants {
            v.push(format!("inline group {} {:?}", g, ic));
        }
    }
    v.sort();
    v
}

fn first_diff(a: &str, b: &str) -> String {
    for (i, (x, y)) in a.lines().zip(b.lines()).enumerate() {
        if x != y {
            return format!("line {}:\n  first : {}\n  second: {}", i + 1, x, y);
        }
    }
    format!("lengths differ: {} vs {} lines", a.lines().count(), b.lines().count())
}

/// classify the first differing line so that one root cause has one signature
fn classify_diff(a: &str, b: &str) -> &'static str {
    for (x, y) in a.lines().zip(b.lines()) {
        if x != y {
            let digits = |s: &str| s.chars().filter(|c| !c.is_ascii_digit() && *c != '.' && *c != 'e' && *c != '-').collect::<String>();
            if digits(x) == digits(y) {
                return "literal-value";
            }
            return "text";
        }
    }
    "length"
}

/// Does the line contain `name < ... > (` at one parenthesis depth (the shape the parser reads as `name<args>(call)`)?
pub fn template_call_shape(line: &str) -> bool {
    let b = line.as_bytes();
    for i in 0..b.len() {
        if b[i] == b'<' && i >= 2 && b[i - 1] == b' ' && b.get(i + 1) == Some(&b' ') {
            let prev = b[i - 2];
            if !(prev.is_ascii_alphanumeric() || prev == b'_') {
                continue;
            }
            // the word before must be a name, not a literal
            let mut k = i - 2;
            while k > 0 && (b[k - 1].is_ascii_alphanumeric() || b[k - 1] == b'_') {
                k -= 1;
            }
            if b[k].is_ascii_digit() {
                continue;
            }
            let mut depth = 0i32;
            let mut j = i + 1;
            while j + 2 < b.len() {
                match b[j] {
                    b'(' | b'[' => depth += 1,
                    b')' | b']' => {
                        depth -= 1;
                        if depth < 0 {
                            break;
                        }
                    }
                    b';' => break,
                    b'>' if depth == 0 && b[j - 1] == b' ' && b[j + 1] == b' ' && b[j + 2] == b'(' => return true,
                    _ => {}
                }
                j += 1;
            }
        }
    }
    false
}

/// byte positions (`<`, `>`) of every `name < ... > (` shape of a line
pub fn template_call_spans(line: &str) -> Vec<(usize, usize)> {
    let b = line.as_bytes();
    let mut out = Vec::new();
    for i in 0..b.len() {
        if b[i] == b'<' && i >= 2 && b[i - 1] == b' ' && b.get(i + 1) == Some(&b' ') {
            let prev = b[i - 2];
            if !(prev.is_ascii_alphanumeric() || prev == b'_' || prev == b')' || prev == b']') {
                continue;
            }
            let mut depth = 0i32;
            let mut j = i + 1;
            while j + 2 < b.len() {
                match b[j] {
                    b'(' | b'[' => depth += 1,
                    b')' | b']' => {
                        depth -= 1;
                        if depth < 0 {
                            break;
                        }
                    }
                    b';' => break,
                    b'>' if depth == 0 && b[j - 1] == b' ' && b[j + 1] == b' ' && b[j + 2] == b'(' => {
                        out.push((i, j));
                    }
                    _ => {}
                }
                j += 1;
            }
        }
    }
    out
}

fn fixpoint(g1: &rssl::CompiledPipeline, label: &str, nontrivial: bool, key: u64) -> Verdict {
    let t1 = pipeline_text(g1);
    let r2 = match compile_text(&t1, Tgt::Dx) {
        Err(p) => return Verdict::fail(format!("panic:{}", p), format!("while compiling the emitted text again\n{}", t1)),
        Ok(r) => r,
    };
    let g2 = match r2 {
        Err(e) => {
            let first = e.lines().next().unwrap_or("");
            let msg = first.split("error:").nth(1).unwrap_or(first).trim();
            // one root cause, one signature: `name < ... > (` is read as a template call by the RSSL parser
            let line = e.lines().nth(1).unwrap_or("");
            // (the constant-expression diagnostic carries no location: any line of that shape explains it)
            let unlocated_shape = msg.contains("could not be evaluated as a constant expression") && !e.contains("main.rssl:") && t1.lines().any(template_call_shape);
            if unlocated_shape || template_call_shape(line) && (msg.contains("non-function") || msg.contains("constant expression") || msg.contains("failed to parse") || msg.contains("not declared") || msg.contains("aggregate initializer has incorrect number of elements")) {
                return Verdict::fail("emitted-text-rejected:template-call-ambiguity", format!("{}\n--- emitted text\n{}", e, t1));
            }
            // whatever the message: a diagnostic that points between the `<` and the `> (` of such a shape comes from reading
            // the text in between as template arguments
            let column = first.split(':').nth(2).and_then(|c| c.trim().parse::<usize>().ok());
            if let Some(col) = column {
                if template_call_spans(line).iter().any(|(lt, gt)| *lt < col - 1 && col - 1 <= *gt) {
                    return Verdict::fail("emitted-text-rejected:template-call-ambiguity", format!("{}\n(the diagnostic points into the text between `<` and `> (`)\n--- emitted text\n{}", e, t1));
                }
            }
            return Verdict::fail(format!("emitted-text-rejected:{}", normalise_panic(msg)), format!("{}\n--- emitted text\n{}", e, t1));
        }
        Ok(mut p) => p.remove(0),
    };
    let t2 = pipeline_text(&g2);
    if t1 != t2 {
        // does it settle after one more pass?
        let settles = match compile_text(&t2, Tgt::Dx) {
            Ok(Ok(p3)) => pipeline_text(&p3[0]) == t2,
            _ => false,
        };
        return Verdict::fail(
            format!("not-a-fixpoint:{}", classify_diff(&t1, &t2)),
            format!("{}\n(settles after one more pass: {})\n--- first generation\n{}", first_diff(&t1, &t2), settles, t1),
        );
    }
    let (b1, b2) = (bindings_of(g1), bindings_of(&g2));
    if b1 != b2 {
        return Verdict::fail("bindings-moved", format!("first: {:?}\nsecond: {:?}\n{}", b1, b2, t1));
    }
    Verdict::pass(if nontrivial { Some(key) } else { None }, vec![label.to_string()])
}

pub fn check_record(rec: &Value) -> Verdict {
    match rec["kind"].as_str() {
        Some("corpus") => {
            let suite = rec["suite"].as_str().unwrap_or("");
            let entry = rec["entry"].as_str().unwrap_or("");
            let Some(c) = load_corpus().into_iter().find(|c| c.suite == suite) else {
                return Verdict::Skip("corpus suite not found".into());
            };
            let g1 = match compile_corpus(&c.files, entry) {
                // a source the front end does not get through is outside of this property (totality is C08's)
                Err(p) => return Verdict::Skip(format!("corpus entry not compiled: panic {}", normalise_panic(&p))),
                Ok(Err(e)) => return Verdict::Skip(format!("corpus entry rejected: {}", normalise_panic(e.lines().next().unwrap_or("")))),
                Ok(Ok(p)) => p,
            };
            fixpoint(&g1, "corpus", true, hash_of(&(suite, entry)))
        }
        _ => {
            let src = rec["source"].as_str().unwrap_or("");
            let g1 = match compile_text(src, Tgt::Dx) {
                // the property speaks about accepted programs: a source the front end does not get through (a panic on a
                // text mutated by the fuzzing stage, e.g. the todo!() behind KF-C08-5) is C08's business, not a
                // violation of the fixpoint property; a panic while reading the EMITTED text stays a violation
                Err(p) => return Verdict::Skip(format!("source not compiled: panic {}", normalise_panic(&p))),
                Ok(Err(e)) => return Verdict::Skip(format!("rejected: {}", normalise_panic(e.lines().next().unwrap_or("")))),
                Ok(Ok(mut p)) => p.remove(0),
            };
            let t1 = pipeline_text(&g1);
            let nontrivial = t1.len() >= 400 && t1.contains('(') && t1.chars().any(|c| c == '.');
            fixpoint(&g1, "generated", nontrivial, hash_of(src))
        }
    }
}

pub fn run(ctx: &mut Ctx) {
    ctx.rule = "g1 = compile(P, DirectX, no-pipeline); g2 = compile(text(g1)) must succeed, g2.data == g1.data byte for byte and every binding keeps its group/slot/type/count. P ranges over the generated programs of harness/src/progen.rs (structs, enums, templates, overloads, statics, arrays, every statement and operator form; resource declarations of every object kind with register/space annotations in the resource profile) over the same programs with identifiers renamed onto reserved words, builtin function names and name_N forms (the renamings of C15), and over the third-party corpus entry points under /repo/tests (read from disk with the include resolution of tests/external.rs). Non-trivial = emitted text >= 400 bytes with calls and non-integer literals, or any corpus entry. Distinct = hash of the source.".into();
    ctx.assumptions.push("programs the front end rejects are skipped and counted (the generator's acceptance rate is reported)".into());
    if !ctx.replay_tier(&check_record) {
        return;
    }
    // corpus
    let corpus = load_corpus();
    let entries: Vec<(String, String)> = corpus.iter().flat_map(|c| c.entries.iter().map(move |e| (c.suite.to_string(), e.clone()))).collect();
    ctx.extra.insert("corpus_entries".into(), json!(entries.len()));
    ctx.run_enum(
        "third_party_corpus",
        entries.len() as u64,
        false,
        |i| json!({"kind": "corpus", "suite": entries[i as usize].0, "entry": entries[i as usize].1}),
        |i| check_record(&json!({"kind": "corpus", "suite": entries[i as usize].0, "entry": entries[i as usize].1})),
    );
    // generated
    ctx.run_prop(
        "generated_programs",
        ctx.tier.pick(4_000, 100_000),
        || progen::choices_strategy(700),
        |ch: &Vec<u32>| {
            let (_p, text, _) = progen::generate(ch, progen::Profile::exec_hlsl());
            json!({"kind": "text", "source": text})
        },
        check_record,
    );
    // programs whose identifiers were renamed onto reserved words, builtin names and name_N forms: the exporter's own
    // renaming has to keep the emitted text acceptable and stable
    ctx.run_prop(
        "renamed_programs",
        ctx.tier.pick(3_000, 60_000),
        || (progen::choices_strategy(500), 1u8..5, proptest::prelude::any::<u64>()),
        |(ch, class, seed): &(Vec<u32>, u8, u64)| {
            let r = crate::c15::make_case_with(ch, if *class == 3 { 4 } else { *class }, 0, *seed, true);
            json!({"kind": "text", "source": r["renamed"]})
        },
        check_record,
    );
    // ---- every kind of entity declared inside a namespace (one or two levels) x every place it is named from
    {
        // (declaration inside the namespace, use as an expression of type int or float)
        const ENTITIES: &[(&str, &str)] = &[
            ("cbuffer ZCB { float4 zx; int zy; }\n", "(int)@zx.y + @zy"),
            ("static const int zk = 3;\n", "@zk"),
            ("static int zv = 4;\n", "@zv"),
            ("struct ZS { int m; };\nZS zmake(int k) { ZS s; s.m = k; return s; }\n", "@zmake(2).m"),
            ("enum ZE { ZA = 5, ZB };\n", "(int)@ZB + (int)@ZE::ZA"),
            ("int zf(int k) { return k + 1; }\nint zf(float k) { return 2; }\n", "@zf(1) + @zf(1.0)"),
            ("template<typename T> T zt(T k) { return k; }\n", "@zt<int>(3) + (int)@zt(2.0)"),
            ("Texture2D<float4> ztex;\n", "(int)@ztex.Load(int3(0, 0, 0)).x"),
            ("ConstantBuffer<float4> zcb2;\n", "(int)@zcb2.x"),
            ("typedef int ZT;\nstatic const ZT zq = 7;\n", "(int)(@ZT)@zq"),
        ];
        const SITES: usize = 5;
        let n = ENTITIES.len() as u64;
        let make = |i: u64| {
            let (decl, usage) = ENTITIES[(i % n) as usize];
            let deep = (i / n) % 2 == 1;
            let site = ((i / (2 * n)) as usize) % SITES;
            let path = if deep { "ZN::ZM::" } else { "ZN::" };
            let open = if deep { "namespace ZN {\nnamespace ZM {\n" } else { "namespace ZN {\n" };
            let close = if deep { "}\n}\n" } else { "}\n" };
            let full = usage.replace('@', path);
            let bare = usage.replace('@', "");
            let text = match site {
                // from the root scope
                0 => format!("{}{}{}int zuse() {{ return {}; }}\n", open, decl, close, full),
                // from the namespace itself: unqualified and qualified
                1 => format!("{}{}int zin() {{ return {} + {}; }}\n{}int zuse() {{ return {}zin(); }}\n", open, decl, bare, full, close, path),
                // from another namespace
                2 => format!("{}{}{}namespace ZP {{\nint zin() {{ return {}; }}\n}}\nint zuse() {{ return ZP::zin(); }}\n", open, decl, close, full),
                // from a nested namespace of it
                3 => format!("{}{}namespace ZI {{\nint zin() {{ return {} + {}; }}\n}}\n{}int zuse() {{ return {}ZI::zin(); }}\n", open, decl, bare, full, close, path),
                // from a method of a struct of the root scope
                _ => format!("{}{}{}struct ZW {{ int a; int zin() {{ return a + {}; }} }};\nint zuse() {{ ZW w; w.a = 1; return w.zin(); }}\n", open, decl, close, full),
            };
            json!({"kind": "text", "source": text})
        };
        ctx.run_enum("namespaced_entities", n * 2 * SITES as u64, true, make, |i| match check_record(&make(i)) {
            Verdict::Pass { nontrivial, mut labels } => {
                labels.push("namespaced_entity".into());
                Verdict::Pass { nontrivial, labels }
            }
            other => other,
        });
        ctx.require_label("namespaced_entity", 60);
    }
    ctx.require_label("corpus", 20);
    ctx.require_label("generated", 100);
    if ctx.tier == Tier::Thorough && ctx.failures.is_empty() {
        // coverage-guided stage: the fuzzer mutates generated programs (and the repository's inputs); the oracle in the
        // target is this check's check_record
        let mut seeds: Vec<Vec<u8>> = sample_strategy(&progen::choices_strategy(400), ctx.seed ^ 0xf04, 300)
            .iter()
            .enumerate()
            .map(|(i, ch)| progen::generate(ch, if i % 3 == 0 { progen::Profile { pipelines: false, ..progen::Profile::full() } } else { progen::Profile::exec_hlsl() }).1.into_bytes())
            .collect();
        
        crate::fuzz::campaign(ctx, "text_property", Some("C04"), seeds, 300, &|bytes: &[u8]| json!({"kind": "text", "source": String::from_utf8_lossy(bytes).to_string()}), &check_record);
    }
}
