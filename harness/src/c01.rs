//! C01 — HLSL export preserves the meaning of every accepted program.
//!
//! Differential execution: the typed IR (`irsem`, RSSL's semantics) against the emitted HLSL text
//! parsed and run by an independent C-like evaluator (`ctext` + `csem`) under HLSL's rules.

use crate::common::*;
use crate::exec;
use serde_json::Value;

const TARGETS: &[Tgt] = &[Tgt::Dx, Tgt::Vk];

pub fn check_record(r: &Value) -> Verdict {
    exec::check_record_with(r, TARGETS, 3)
}

pub fn run(ctx: &mut Ctx) {
    ctx.level = "translation_validation".into();
    ctx.rule = "Programs: (a) every expression tree with 1-2 (quick) or 1-3 (thorough) operator nodes over the full operator table (4 unary, pre/post increment and decrement, 18 binary, 11 assignments, comma, ternary) on int and on float operands, plus every 2-operator tree over mixed int/float/uint/bool operands in 4 rotations, each as a one-function program with inout parameters and run on 11 argument vectors (3 sampled + 8 crafted operand rows: cancellation, absorption, overflow to infinity, INT_MIN / -1, shift counts of 32); (a2) the exhaustive aliasing table: callee(mode1 int a, mode2 int b) with modes from {in, out, inout}, every two-statement body over 10 statements that read and write a, b and a static g, called with every pair of arguments from {x, y, g} (8 100 programs); (b) generated programs of the executable resource-free subset (scalars, vectors, structs, arrays, enums, static and static const globals, all statement forms, functions with in/out/inout/default parameters incl. aliased out arguments, overloads, function templates, struct methods, nested and reopened namespaces with shared function names, implicit conversions at initialisers / assignments / arguments / returns, casts, swizzles, intrinsics), for DirectX and Vulkan HLSL. Each function is run on 3 argument vectors (one tame, two from boundary pools incl. INT_MIN, 2^31, NaN, infinities, -0.0) by both evaluators; return value, out/inout parameters and all static globals must be bit-identical. Non-trivial = at least one function was executed to completion by both evaluators and compared; distinct = hash of (source, argument seed); exhaustive shape parts are distinct by construction. Front-end rejections of enumerated shapes (e.g. assignment to an rvalue) are skipped and counted.".into();
    ctx.assumptions.push("operations whose result HLSL leaves undefined (division by zero, out-of-range shifts, out-of-range float-to-int, reads of unwritten out parameters) are given one fixed meaning in the shared value library, identical on both sides".into());
    ctx.assumptions.push("unsuffixed literals are literal-typed on both sides (LitI/LitF) until a conversion pins them".into());
    ctx.assumptions.push("evaluation order is left to right in both evaluators (RSSL's IR order); HLSL leaves it unspecified".into());
    if !ctx.replay_tier(&check_record) {
        return;
    }
    exec::run_common(ctx, TARGETS, check_record);
}
