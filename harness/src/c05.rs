//! C05 — reflection metadata agrees with the emitted source.
//!
//! The emitted text is scanned for binding annotations (`: register(t3, space1)`,
//! `[[vk::binding(b, s)]]`, `[[vk::offset(n)]]` members of `InlineDescriptorN`, `[[id(n)]]`
//! members of `ArgumentBufferN`), entry points and thread-group attributes; the result is compared
//! with the returned metadata in both directions. `is_used` is checked against reachability
//! computed by the generator over the *source* call graph.

use crate::common::*;
use crate::progen;
use proptest::prelude::*;
use rssl::{ApiLocation, DescriptorType};
use serde_json::{Value, json};

/// What the check needs to know about the source program (self-contained in the replay record).
#[derive(Debug, Clone)]
struct SpecRes {
    name: String,
    kind: String,
    bindless: bool,
    static_sampler: bool,
    has_array: bool,
}

#[derive(Debug, Clone)]
struct SpecPipe {
    name: String,
    kind: String,
    nstages: usize,
    /// (stage property of the Pipeline block, source name of the entry point), in declaration order
    stages: Vec<(String, String)>,
    numthreads: Option<(u32, u32, u32)>,
    reachable: Vec<String>,
}

#[derive(Debug, Clone)]
struct Spec {
    resources: Vec<SpecRes>,
    pipelines: Vec<SpecPipe>,
}

fn spec_json(s: &Spec) -> Value {
    json!({
        "resources": s.resources.iter().map(|r| json!([r.name, r.kind, r.bindless, r.static_sampler, r.has_array])).collect::<Vec<_>>(),
        "pipelines": s.pipelines.iter().map(|p| json!({"name": p.name, "kind": p.kind, "nstages": p.nstages, "stages": p.stages,
            "numthreads": p.numthreads.map(|t| vec![t.0, t.1, t.2]), "reachable": p.reachable})).collect::<Vec<_>>(),
    })
}

fn spec_from(v: &Value) -> Spec {
    Spec {
        resources: v["resources"].as_array().map(|a| a.iter().map(|r| SpecRes {
            name: r[0].as_str().unwrap_or("").to_string(),
            kind: r[1].as_str().unwrap_or("").to_string(),
            bindless: r[2].as_bool().unwrap_or(false),
            static_sampler: r[3].as_bool().unwrap_or(false),
            has_array: r[4].as_bool().unwrap_or(false),
        }).collect()).unwrap_or_default(),
        pipelines: v["pipelines"].as_array().map(|a| a.iter().map(|p| SpecPipe {
            name: p["name"].as_str().unwrap_or("").to_string(),
            kind: p["kind"].as_str().unwrap_or("").to_string(),
            nstages: p["nstages"].as_u64().unwrap_or(0) as usize,
            stages: p["stages"].as_array().map(|a| a.iter().map(|x| (x[0].as_str().unwrap_or("").to_string(), x[1].as_str().unwrap_or("").to_string())).collect()).unwrap_or_default(),
            numthreads: p["numthreads"].as_array().map(|t| (t[0].as_u64().unwrap_or(0) as u32, t[1].as_u64().unwrap_or(0) as u32, t[2].as_u64().unwrap_or(0) as u32)),
            reachable: p["reachable"].as_array().map(|x| x.iter().filter_map(|n| n.as_str().map(String::from)).collect()).unwrap_or_default(),
        }).collect()).unwrap_or_default(),
    }
}

/// `emitted` is the source name or its renamed form `name_N`
fn same_entity(source: &str, emitted: &str) -> bool {
    emitted == source || emitted.strip_prefix(source).and_then(|r| r.strip_prefix('_')).map(|r| !r.is_empty() && r.chars().all(|c| c.is_ascii_digit())).unwrap_or(false)
}

#[derive(Debug, Clone)]
struct Decl {
    name: String,
    group: u32,
    /// Ok(slot) or Err(inline offset)
    loc: Result<u32, u32>,
    ty: String,
    len: Option<u32>,
    line: String,
}

fn num_after(s: &str, marker: &str) -> Option<u32> {
    let i = s.find(marker)? + marker.len();
    let d: String = s[i..].chars().take_while(|c| c.is_ascii_digit()).collect();
    d.parse().ok()
}

/// `TYPE NAME[N]` -> (type, name, len)
fn split_decl(s: &str) -> Option<(String, String, Option<u32>)> {
    let s = s.trim().trim_end_matches(';').trim();
    let (body, len) = match s.rfind('[') {
        Some(i) if s.ends_with(']') => (&s[..i], s[i + 1..s.len() - 1].trim().parse::<u32>().ok()),
        _ => (s, None),
    };
    let body = body.trim();
    let i = body.rfind(|c: char| c == ' ' || c == '&' || c == '>')?;
    let name = body[i + 1..].trim().to_string();
    let ty = body[..=i].trim().to_string();
    if name.is_empty() || !name.chars().all(|c| c.is_ascii_alphanumeric() || c == '_') {
        return None;
    }
    Some((ty, name, len))
}

fn scan_hlsl(text: &str, vk: bool) -> Result<Vec<Decl>, String> {
    let mut out = Vec::new();
    let mut inline_struct: Option<u32> = None;
    for line in text.lines() {
        let l = line.trim();
        if let Some(rest) = l.strip_prefix("struct InlineDescriptor") {
            inline_struct = rest.trim().parse().ok();
            continue;
        }
        if l.starts_with("};") || l == "}" {
            inline_struct = None;
        }
        if let Some(g) = inline_struct {
            if l.starts_with("[[vk::offset(") {
                let off = num_after(l, "[[vk::offset(").ok_or("bad vk::offset")?;
                let rest = &l[l.find("]]").ok_or("bad attr")? + 2..];
                let (ty, name, len) = split_decl(rest).ok_or_else(|| format!("cannot split `{}`", rest))?;
                out.push(Decl { name, group: g, loc: Err(off), ty, len, line: l.to_string() });
            }
            continue;
        }
        if vk {
            if let Some(rest) = l.strip_prefix("[[vk::binding(") {
                let close = rest.find(")]]").ok_or("bad vk::binding")?;
                let nums: Vec<u32> = rest[..close].split(',').filter_map(|x| x.trim().parse().ok()).collect();
                if nums.is_empty() {
                    return Err(format!("bad vk::binding in `{}`", l));
                }
                let (slot, group) = (nums[0], nums.get(1).copied().unwrap_or(0));
                let decl = rest[close + 3..].trim();
                let (ty, name, len) = if let Some(n) = decl.strip_prefix("cbuffer ") {
                    ("cbuffer".to_string(), n.trim().to_string(), None)
                } else {
                    split_decl(decl).ok_or_else(|| format!("cannot split `{}`", decl))?
                };
                out.push(Decl { name, group, loc: Ok(slot), ty, len, line: l.to_string() });
            }
        } else if let Some(i) = l.find(" : register(") {
            let reg = &l[i + 12..];
            let close = reg.find(')').ok_or("bad register")?;
            let parts: Vec<&str> = reg[..close].split(',').map(|x| x.trim()).collect();
            let slot: u32 = parts[0][1..].parse().map_err(|_| format!("bad register slot in `{}`", l))?;
            let group = parts.get(1).and_then(|p| p.strip_prefix("space")).and_then(|p| p.parse().ok()).unwrap_or(0);
            let decl = &l[..i];
            let (ty, name, len) = if let Some(n) = decl.strip_prefix("cbuffer ") {
                ("cbuffer".to_string(), n.trim().to_string(), None)
            } else {
                split_decl(decl).ok_or_else(|| format!("cannot split `{}`", decl))?
            };
            // the register letter must fit the declared type
            let letter = parts[0].chars().next().unwrap_or('?');
            out.push(Decl { name, group, loc: Ok(slot), ty: format!("{}|{}", ty, letter), len, line: l.to_string() });
        }
    }
    Ok(out)
}

fn scan_msl(text: &str) -> Result<Vec<Decl>, String> {
    let mut out = Vec::new();
    let mut arg: Option<u32> = None;
    for line in text.lines() {
        let l = line.trim();
        if let Some(rest) = l.strip_prefix("struct ArgumentBuffer") {
            arg = rest.trim().parse().ok();
            continue;
        }
        if l.starts_with("};") {
            arg = None;
        }
        if let (Some(g), Some(rest)) = (arg, l.strip_prefix("[[id(")) {
            let slot: u32 = rest[..rest.find(')').ok_or("bad id")?].parse().map_err(|_| "bad id number")?;
            let decl = rest[rest.find("]]").ok_or("bad id attr")? + 2..].trim().trim_end_matches(';');
            // metal::array<T, n> name
            // (a typedef'd array carries its const on the whole array: `const metal::array<T, n> name`)
            let (ty, name, len) = if let Some(a) = decl.strip_prefix("metal::array<").or_else(|| decl.strip_prefix("const metal::array<")) {
                let close = a.rfind('>').ok_or("bad metal::array")?;
                let inner = &a[..close];
                let comma = inner.rfind(',').ok_or("bad metal::array args")?;
                let n: u32 = inner[comma + 1..].trim().parse().map_err(|_| "bad array length")?;
                (inner[..comma].trim().to_string(), a[close + 1..].trim().trim_start_matches('&').trim().to_string(), Some(n))
            } else {
                let (t, n, _) = split_decl(decl).ok_or_else(|| format!("cannot split `{}`", decl))?;
                (t, n, None)
            };
            out.push(Decl { name, group: g, loc: Ok(slot), ty, len, line: l.to_string() });
        }
    }
    Ok(out)
}

fn type_matches(ty: &str, dt: DescriptorType, msl: bool) -> bool {
    use DescriptorType::*;
    if msl {
        let rw = ty.contains("access::read_write");
        let t = ty.trim_start_matches("const ").trim_start_matches("constant ");
        return match dt {
            Texture2d => t.starts_with("metal::texture2d<") && !rw,
            RwTexture2d => t.starts_with("metal::texture2d<") && rw,
            Texture2dArray => t.starts_with("metal::texture2d_array<") && !rw,
            RwTexture2dArray => t.starts_with("metal::texture2d_array<") && rw,
            Texture3d => t.starts_with("metal::texture3d<") && !rw,
            RwTexture3d => t.starts_with("metal::texture3d<") && rw,
            TextureCube => t.starts_with("metal::texturecube<"),
            TextureCubeArray => t.starts_with("metal::texturecube_array<"),
            TexelBuffer => t.starts_with("metal::texture_buffer<") && !rw,
            RwTexelBuffer => t.starts_with("metal::texture_buffer<") && rw,
            ByteBuffer | BufferAddress => t.starts_with("helper::ByteAddressBuffer"),
            RwByteBuffer | RwBufferAddress => t.starts_with("helper::RWByteAddressBuffer"),
            StructuredBuffer => t.starts_with("helper::StructuredBuffer<"),
            RwStructuredBuffer => t.starts_with("helper::RWStructuredBuffer<"),
            ConstantBuffer => ty.starts_with("constant "),
            SamplerState | SamplerComparisonState => t.starts_with("metal::sampler"),
            RaytracingAccelerationStructure => t.contains("acceleration_structure"),
            _ => false,
        };
    }
    let (t, letter) = match ty.split_once('|') {
        Some((a, b)) => (a, b.chars().next()),
        None => (ty, None),
    };
    let letter_ok = |want: char| letter.map(|l| l == want).unwrap_or(true);
    match dt {
        Texture2d => t.starts_with("Texture2D<") && letter_ok('t'),
        Texture2dArray => t.starts_with("Texture2DArray<") && letter_ok('t'),
        Texture3d => t.starts_with("Texture3D<") && letter_ok('t'),
        TextureCube => t.starts_with("TextureCube<") && letter_ok('t'),
        TextureCubeArray => t.starts_with("TextureCubeArray<") && letter_ok('t'),
        RwTexture2d => t.starts_with("RWTexture2D<") && letter_ok('u'),
        RwTexture2dArray => t.starts_with("RWTexture2DArray<") && letter_ok('u'),
        RwTexture3d => t.starts_with("RWTexture3D<") && letter_ok('u'),
        TexelBuffer => t.starts_with("Buffer<") && letter_ok('t'),
        RwTexelBuffer => t.starts_with("RWBuffer<") && letter_ok('u'),
        ByteBuffer => t == "ByteAddressBuffer" && letter_ok('t'),
        RwByteBuffer => t == "RWByteAddressBuffer" && letter_ok('u'),
        BufferAddress => (t == "ByteAddressBuffer" && letter_ok('t')) || t == "uint64_t",
        RwBufferAddress => (t == "RWByteAddressBuffer" && letter_ok('u')) || t == "uint64_t",
        StructuredBuffer => t.starts_with("StructuredBuffer<") && letter_ok('t'),
        RwStructuredBuffer => t.starts_with("RWStructuredBuffer<") && letter_ok('u'),
        ConstantBuffer => (t.starts_with("ConstantBuffer<") || t == "cbuffer") && letter_ok('b'),
        SamplerState => t == "SamplerState" && letter_ok('s'),
        SamplerComparisonState => t == "SamplerComparisonState" && letter_ok('s'),
        RaytracingAccelerationStructure => t == "RaytracingAccelerationStructure" && letter_ok('t'),
        _ => false,
    }
}

fn expected_descriptor(kind: &str) -> DescriptorType {
    // `kind` is the generator's label of the source declaration
    use DescriptorType::*;
    match kind {
        "Texture2D" => Texture2d,
        "Texture2DArray" => Texture2dArray,
        "Texture3D" => Texture3d,
        "TextureCube" => TextureCube,
        "RWTexture2D" => RwTexture2d,
        "RWTexture3D" => RwTexture3d,
        "Buffer" => TexelBuffer,
        "RWBuffer" => RwTexelBuffer,
        "ByteAddressBuffer" => ByteBuffer,
        "RWByteAddressBuffer" => RwByteBuffer,
        "StructuredBuffer" => StructuredBuffer,
        "RWStructuredBuffer" => RwStructuredBuffer,
        "ConstantBuffer" | "cbuffer" => ConstantBuffer,
        "SamplerState" | "StaticSampler" => SamplerState,
        "SamplerComparisonState" => SamplerComparisonState,
        "BufferAddress" => BufferAddress,
        "RWBufferAddress" => RwBufferAddress,
        _ => RaytracingAccelerationStructure,
    }
}

fn check_pipeline(spec: &Spec, src: &str, tgt: Tgt, p: &rssl::CompiledPipeline, scene: Option<&SpecPipe>, unbounded: Option<&str>, labels: &mut Vec<String>) -> Result<(), (String, String)> {
    let text = pipeline_text(p);
    let msl = tgt == Tgt::Msl;
    let ctx = |what: String| format!("{}\ntarget {}\n--- metadata\n{:?}\n--- emitted text\n{}\n--- source\n{}", what, tgt.name(), p.metadata, text, src);
    let decls = if msl { scan_msl(&text) } else { scan_hlsl(&text, tgt != Tgt::Dx) }.map_err(|e| ("scan:unreadable-annotation".to_string(), ctx(e)))?;
    // inline descriptor blocks (Vulkan with buffer addresses)
    let mut inline_blocks: Vec<(u32, u32)> = Vec::new(); // (group, slot)
    let mut decls: Vec<Decl> = decls
        .into_iter()
        .filter(|d| {
            if d.name.starts_with("g_inlineDescriptor") {
                if let Ok(s) = d.loc {
                    inline_blocks.push((d.group, s));
                }
                false
            } else {
                true
            }
        })
        .collect();
    // (a) every metadata binding has its declaration
    let mut nbind = 0;
    let mut groups_used = std::collections::BTreeSet::new();
    for (g, bg) in p.metadata.bind_groups.iter().enumerate() {
        for b in &bg.bindings {
            nbind += 1;
            groups_used.insert(g);
            // Metal implements static samplers in the shader source: they have no declaration slot
            let pos = decls.iter().position(|d| d.name == b.name);
            let Some(pos) = pos else {
                // the declaration was renamed (its source name is reserved in the target language) but the metadata
                // keeps the source name: one root cause, one signature
                let renamed = decls.iter().any(|d| {
                    d.name.strip_prefix(b.name.as_str()).and_then(|r| r.strip_prefix('_')).map(|r| !r.is_empty() && r.chars().all(|c| c.is_ascii_digit())).unwrap_or(false)
                });
                if renamed {
                    return Err(("metadata:source-name-of-renamed-declaration".into(), ctx(format!("metadata binding `{}` (group {}): the emitted declaration was renamed to `{}_N`, the metadata still uses the source name", b.name, g, b.name))));
                }
                return Err(("metadata:no-declaration-with-that-name".into(), ctx(format!("metadata binding `{}` (group {}) has no annotated declaration of that name in the emitted text", b.name, g))));
            };
            let d = decls.remove(pos);
            let want_loc = match b.api_binding {
                ApiLocation::Index(i) => Ok(i),
                ApiLocation::InlineConstant(o) => Err(o),
            };
            if d.group != g as u32 || d.loc != want_loc {
                return Err(("metadata:slot-differs-from-annotation".into(), ctx(format!("binding `{}`: metadata says group {} {:?}, the text says group {} {:?}: {}", b.name, g, b.api_binding, d.group, d.loc, d.line))));
            }
            if !type_matches(&d.ty, b.descriptor_type, msl) {
                return Err(("metadata:type-differs-from-declaration".into(), ctx(format!("binding `{}`: metadata says {:?}, the text declares `{}`", b.name, b.descriptor_type, d.line))));
            }
            let text_count = d.len.unwrap_or(1);
            let is_unbounded = unbounded.map(|u| same_entity(u, &b.name)).unwrap_or(false);
            if is_unbounded {
                if b.descriptor_count.is_some() {
                    return Err(("metadata:unbounded-array-has-count".into(), ctx(format!("binding `{}` is an unbounded array in the source but reports {:?}", b.name, b.descriptor_count))));
                }
            } else if b.descriptor_count != Some(text_count) {
                return Err(("metadata:count-differs-from-declaration".into(), ctx(format!("binding `{}`: metadata count {:?}, declared length {:?}: {}", b.name, b.descriptor_count, d.len, d.line))));
            }
            // against the source program
            if let Some(r) = spec.resources.iter().find(|r| same_entity(&r.name, &b.name)) {
                if expected_descriptor(&r.kind) != b.descriptor_type {
                    return Err(("metadata:type-differs-from-source".into(), ctx(format!("binding `{}` is a {} in the source but reported as {:?}", b.name, r.kind, b.descriptor_type))));
                }
                if b.is_bindless != r.bindless {
                    return Err(("metadata:bindless-flag".into(), ctx(format!("binding `{}`: bindless attribute {} in the source, reported {}", b.name, r.bindless, b.is_bindless))));
                }
                if (b.static_sampler.is_some()) != r.static_sampler {
                    return Err(("metadata:static-sampler-flag".into(), ctx(format!("binding `{}`", b.name))));
                }
            }
        }
        // inline block
        match (&bg.inline_constants, inline_blocks.iter().position(|x| x.0 == g as u32)) {
            (Some(ic), Some(i)) => {
                if inline_blocks[i].1 != ic.api_location {
                    return Err(("metadata:inline-block-slot".into(), ctx(format!("group {}: metadata {:?}, text slot {}", g, ic, inline_blocks[i].1))));
                }
                inline_blocks.remove(i);
                labels.push("inline_block".into());
            }
            (None, None) => {}
            (a, b) => return Err(("metadata:inline-block-presence".into(), ctx(format!("group {}: metadata {:?}, text {:?}", g, a, b.map(|i| inline_blocks[i]))))),
        }
    }
    // (b) every annotated declaration is described
    if let Some(d) = decls.first() {
        return Err(("text:declaration-without-metadata".into(), ctx(format!("`{}` carries a binding annotation but no metadata entry describes it", d.line))));
    }
    // every bound resource of the source appears (unless Metal static sampler)
    for r in &spec.resources {
        let name = &r.name;
        let described = p.metadata.bind_groups.iter().any(|bg| bg.bindings.iter().any(|b| same_entity(name, &b.name)));
        let exempt = msl && r.static_sampler;
        if !described && !exempt && unbounded == Some(name.as_str()) {
            return Err(("source:unbounded-array-without-metadata".into(), ctx(format!("the unbounded array `{}` is externally bound but has no metadata entry (and no binding annotation in the text)", name))));
        }
        if !described && !exempt {
            return Err(("source:resource-without-metadata".into(), ctx(format!("source resource `{}` ({}) has no metadata entry", name, r.kind))));
        }
    }
    // (c) stages
    for s in &p.stages {
        let defined = text.contains(&format!(" {}(", s.entry_point));
        if !defined {
            return Err(("stage:entry-point-not-defined".into(), ctx(format!("stage {:?} names entry point `{}`", s.stage, s.entry_point))));
        }
        if let Some(sc) = scene {
            // the function reported for a stage is the one the Pipeline block names for that stage (HLSL keeps the source
            // functions as entry points, renamed at most by a suffix; Metal generates entry points of its own)
            if !msl {
                let property = match s.stage {
                    rssl::ShaderStage::Vertex => "VertexShader",
                    rssl::ShaderStage::Pixel => "PixelShader",
                    rssl::ShaderStage::Compute => "ComputeShader",
                    rssl::ShaderStage::Task => "TaskShader",
                    rssl::ShaderStage::Mesh => "MeshShader",
                };
                if let Some((_, declared)) = sc.stages.iter().find(|(p, _)| p == property) {
                    if s.entry_point != *declared && !s.entry_point.starts_with(&format!("{}_", declared)) {
                        return Err(("stage:entry-point-of-another-stage".into(), ctx(format!("stage {:?} reports entry point `{}`, the pipeline declares {} = {}", s.stage, s.entry_point, property, declared))));
                    }
                }
            }
            let is_compute_like = matches!(s.stage, rssl::ShaderStage::Compute | rssl::ShaderStage::Mesh | rssl::ShaderStage::Task);
            if is_compute_like {
                let want = match s.stage {
                    rssl::ShaderStage::Task => Some((64, 1, 1)),
                    rssl::ShaderStage::Mesh if sc.kind == "task_mesh" => Some((64, 1, 1)),
                    _ => sc.numthreads,
                };
                if s.thread_group_size != want {
                    return Err(("stage:thread-group-size".into(), ctx(format!("stage {:?}: reported {:?}, source attribute {:?}", s.stage, s.thread_group_size, want))));
                }
                if !msl {
                    // the attribute in the text agrees
                    let (x, y, z) = want.unwrap();
                    if !text.contains(&format!("[numthreads({}, {}, {})]", x, y, z)) {
                        return Err(("stage:numthreads-attribute-missing".into(), ctx(format!("no [numthreads({}, {}, {})] in the text", x, y, z))));
                    }
                }
            } else if s.thread_group_size.is_some() {
                return Err(("stage:thread-group-size".into(), ctx(format!("stage {:?} reports a thread group size", s.stage))));
            }
        }
    }
    if let Some(sc) = scene {
        if p.stages.len() != sc.nstages {
            return Err(("stage:count".into(), ctx(format!("{} stages reported, {} declared", p.stages.len(), sc.nstages))));
        }
        // (d) is_used vs reachability
        let mut unreachable_present = false;
        for bg in &p.metadata.bind_groups {
            for b in &bg.bindings {
                let Some(res) = spec.resources.iter().find(|r| same_entity(&r.name, &b.name)) else { continue };
                let reachable = sc.reachable.contains(&res.name);
                if !reachable {
                    unreachable_present = true;
                }
                if reachable && !b.is_used {
                    return Err(("is_used:reachable-reported-unused".into(), ctx(format!("`{}` is reached from an entry point of `{}` but reported unused", b.name, sc.name))));
                }
                if msl && b.is_used && !reachable {
                    return Err(("is_used:unreachable-reported-used-on-metal".into(), ctx(format!("`{}` is not reachable from the entry points of `{}` but reported used", b.name, sc.name))));
                }
            }
        }
        if nbind >= 3 && groups_used.len() >= 2 && unreachable_present && spec.resources.iter().any(|r| r.has_array) {
            labels.push("nontrivial".into());
        }
    }
    Ok(())
}

const RESERVED: &[&str] = &[
    "matrix", "vector", "Buffer", "Texture2D", "uint64_t", "RayDesc", "device", "constant", "thread", "kernel", "vertex", "fragment", "sampler", "texture", "main",
    "buffer", "access", "metal", "half3", "uint32_t", "threadgroup", "int32_t", "texture2d", "array",
];

fn make_record(choices: &[u32], t: usize, modesel: u8, tweak: u16) -> Value {
    let (mut prog, _, _) = progen::generate(choices, progen::Profile::full());
    let tweak = tweak as usize;
    let mut tweaked = "none";
    match tweak % 8 {
        1 if !prog.resources.is_empty() => {
            let k = (tweak / 8) % prog.resources.len();
            let n = prog.resources[k].name;
            prog.names[n] = RESERVED[(tweak / 64) % RESERVED.len()].to_string();
            tweaked = "resource_named_like_a_target_keyword";
        }
        2 if !prog.pipelines.is_empty() => {
            let k = (tweak / 8) % prog.pipelines.len();
            let n = prog.pipelines[k].stages[0].1;
            prog.names[n] = RESERVED[(tweak / 64) % RESERVED.len()].to_string();
            tweaked = "entry_point_named_like_a_target_keyword";
        }
        3 => {
            if let Some(k) = prog.resources.iter().rposition(|r| r.array.is_some()) {
                prog.resources[k].bindless = true;
                prog.resources[k].prefix.insert_str(0, "[[rssl::bindless]] ");
                tweaked = "bindless_array";
            }
        }
        _ => {}
    }
    let mut src = progen::render(&prog);
    let mut unbounded_name = None;
    if tweak % 16 == 4 {
        // an unbounded bindless array
        if let Some(k) = prog.resources.iter().rposition(|r| r.array.is_some()) {
            let r = &prog.resources[k];
            let decl = format!("{}[{}]", prog.names[r.name], r.array.unwrap());
            if !r.bindless {
                src = src.replacen(&format!("{} {}", r.ty_text, decl), &format!("{} {}[]", r.ty_text, prog.names[r.name]), 1);
                if src.contains(&format!("{}[]", prog.names[r.name])) {
                    tweaked = "unbounded_array";
                    unbounded_name = Some(prog.names[r.name].clone());
                }
            }
        }
    }
    let spec = Spec {
        resources: prog.resources.iter().map(|r| SpecRes { name: prog.names[r.name].clone(), kind: r.kind.to_string(), bindless: r.bindless, static_sampler: r.static_sampler, has_array: r.array.is_some() }).collect(),
        pipelines: prog
            .scene
            .pipelines
            .iter()
            .map(|p| SpecPipe {
                name: prog.names[p.name].clone(),
                kind: p.kind.to_string(),
                nstages: p.stages.len(),
                stages: p.stages.iter().map(|(prop, f)| (prop.to_string(), prog.names[*f].clone())).collect(),
                numthreads: p.numthreads,
                reachable: p.reachable.iter().map(|ri| prog.names[prog.resources[*ri].name].clone()).collect(),
            })
            .collect(),
    };
    let mode = match modesel % 3 {
        0 => "all".to_string(),
        1 if !spec.pipelines.is_empty() => format!("named:{}", (modesel as usize / 3) % spec.pipelines.len()),
        _ => "nopipe".to_string(),
    };
    json!({"source": src, "tgt": Tgt::ALL4[t % 4].name(), "mode": mode, "spec": spec_json(&spec), "tweak": tweaked, "unbounded": unbounded_name})
}

pub fn check_record(rec: &Value) -> Verdict {
    let src = rec["source"].as_str().unwrap_or("").to_string();
    let tgt = Tgt::from_name(rec["tgt"].as_str().unwrap_or("dx"));
    let spec = spec_from(&rec["spec"]);
    let tweaked = rec["tweak"].as_str().unwrap_or("none").to_string();
    let m = rec["mode"].as_str().unwrap_or("all");
    let (mode, which): (Mode, Option<usize>) = if m == "all" {
        (Mode::All, None)
    } else if let Some(k) = m.strip_prefix("named:").and_then(|k| k.parse::<usize>().ok()) {
        match spec.pipelines.get(k) {
            Some(p) => (Mode::Named(p.name.clone()), Some(k)),
            None => (Mode::NoPipeline, None),
        }
    } else {
        (Mode::NoPipeline, None)
    };
    let files = vec![("main.rssl".to_string(), src.clone())];
    let r = compile(&CompileReq { files: &files, entry: "main.rssl", defines: &[], tgt, mode: mode.clone(), validate_layout: false });
    let ps = match r {
        Err(p) => return Verdict::fail(format!("panic:{}", p), format!("target {} mode {:?}\n{}", tgt.name(), mode, src)),
        Ok(Err(e)) => return Verdict::Skip(format!("rejected: {}", normalise_panic(e.lines().next().unwrap_or("").split("error:").nth(1).unwrap_or("")))),
        Ok(Ok(p)) => p,
    };
    let mut labels = vec![format!("tgt_{}", tgt.name()), format!("mode_{}", match &mode { Mode::All => "all", Mode::Named(_) => "named", Mode::NoPipeline => "nopipe" }), format!("tweak_{}", tweaked)];
    for (i, p) in ps.iter().enumerate() {
        let scene = match (&mode, which) {
            (Mode::All, _) => spec.pipelines.get(i),
            (Mode::Named(_), Some(k)) => spec.pipelines.get(k),
            _ => None,
        };
        if tgt == Tgt::Msl && scene.is_none() {
            // without an entry point Metal emits no argument buffers: nothing to compare
            labels.push("msl_without_pipeline(not compared)".into());
            continue;
        }
        if let Err((sig, detail)) = check_pipeline(&spec, &src, tgt, p, scene, rec["unbounded"].as_str(), &mut labels) {
            return Verdict::fail(sig, detail);
        }
    }
    let nontrivial = labels.iter().any(|l| l == "nontrivial");
    labels.retain(|l| l != "nontrivial");
    labels.dedup();
    Verdict::pass(if nontrivial { Some(hash_of(&(src, tgt.name(), m))) } else { None }, labels)
}

pub fn run(ctx: &mut Ctx) {
    ctx.rule = "Generated programs with 1-10 bound globals of every object kind (textures, RW textures, texel / raw / structured buffers, ConstantBuffer<T>, cbuffers, samplers, static samplers, buffer addresses, acceleration structures; arrays; explicit groups via [[rssl::bind_group]], register(spaceN), [[vk::binding]]), reader functions forming a call graph, and 1-3 pipelines whose entry points reach a subset of the resources; x {DirectX, Vulkan, Vulkan+buffer addresses, Metal} x {all, named, no-pipeline}. The emitted text is scanned for its binding annotations and entry points. Checked: every metadata binding has a declaration of that name with the same group, slot / inline offset, a declared type that maps to the reported descriptor type (per-dialect table), the same array length, bindless and static-sampler flags as in the source; every annotated declaration and every source resource has exactly one metadata entry; inline blocks agree; each stage names a defined function with the source's thread-group size; reachable resources are reported used, and on Metal used implies reachable. Non-trivial = >= 3 bindings in >= 2 groups with an array and a resource no entry point reaches. Distinct = hash of (source, target, mode).".into();
    ctx.assumptions.push("reachability is computed by the generator over the source call graph (entry point -> reader functions -> resources)".into());
    ctx.assumptions.push("Metal in no-pipeline mode emits no argument buffers; those cases are counted, not compared".into());
    if !ctx.replay_tier(&check_record) {
        return;
    }
    ctx.run_prop(
        "metadata_vs_text",
        ctx.tier.pick(5_000, 100_000),
        || (progen::choices_strategy(400), 0usize..4, 0u8..12, any::<u16>()),
        |(ch, t, m, tw): &(Vec<u32>, usize, u8, u16)| make_record(ch, *t, *m, *tw),
        check_record,
    );
    for l in ["tgt_dx", "tgt_vk", "tgt_vkba", "tgt_msl", "mode_all", "mode_named", "inline_block"] {
        ctx.require_label(l, 20);
    }
}
