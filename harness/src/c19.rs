//! C19 — layout-consistency validation is sound.
//!
//! Oracle: two independent layout calculators (HLSL structured-buffer packing, Metal struct
//! layout) written from the property's rule set; they return total size, alignment and the byte
//! offset of every leaf field (recursively through nested structs and array elements).

use crate::common::*;
use proptest::prelude::*;
use serde_json::{Value, json};

#[derive(Clone, Debug, PartialEq)]
pub enum Ty {
    /// scalar name, dimension 1..=4
    Num(&'static str, u32),
    Enum,
    Struct(usize),
    Array(u32, Box<Ty>),
}

#[derive(Clone, Debug)]
pub struct StructDef {
    members: Vec<Ty>,
}

#[derive(Clone, Debug)]
pub struct Case {
    structs: Vec<StructDef>,
    /// (usage kind 0..7, struct index) — one or two element types are used as buffer elements
    uses: Vec<(u8, usize)>,
}

const SCALARS: [&str; 5] = ["half", "int", "uint", "float", "double"];

fn scalar_size(s: &str) -> u32 {
    match s {
        "half" => 2,
        "double" => 8,
        _ => 4,
    }
}

#[derive(Clone, Debug, PartialEq)]
pub struct Layout {
    pub size: u32,
    pub align: u32,
    /// (path, offset, size) of every leaf
    pub leaves: Vec<(String, u32, u32)>,
}

fn round_up(x: u32, a: u32) -> u32 {
    x.div_ceil(a) * a
}

/// mode: false = HLSL structured buffer, true = Metal
fn layout(structs: &[StructDef], ty: &Ty, metal: bool) -> Layout {
    match ty {
        Ty::Num(s, n) => {
            let sz = scalar_size(s);
            if metal {
                let n2 = n.next_power_of_two();
                Layout { size: sz * n2, align: sz * n2, leaves: vec![(String::new(), 0, sz * n)] }
            } else {
                Layout { size: sz * n, align: sz, leaves: vec![(String::new(), 0, sz * n)] }
            }
        }
        Ty::Enum => Layout { size: 4, align: 4, leaves: vec![(String::new(), 0, 4)] },
        Ty::Struct(i) => {
            let mut off = 0u32;
            let mut align = 1u32;
            let mut leaves = Vec::new();
            for (k, m) in structs[*i].members.iter().enumerate() {
                let l = layout(structs, m, metal);
                off = round_up(off, l.align);
                for (p, o, s) in &l.leaves {
                    leaves.push((format!(".m{}{}", k, p), off + o, *s));
                }
                off += l.size;
                align = align.max(l.align);
            }
            Layout { size: round_up(off, align), align, leaves }
        }
        Ty::Array(n, inner) => {
            let l = layout(structs, inner, metal);
            let stride = round_up(l.size, l.align);
            let mut leaves = Vec::new();
            for e in 0..*n {
                for (p, o, s) in &l.leaves {
                    leaves.push((format!("[{}]{}", e, p), e * stride + o, *s));
                }
            }
            Layout { size: stride * n, align: l.align, leaves }
        }
    }
}

fn ty_text(t: &Ty) -> (String, String) {
    match t {
        Ty::Num(s, 1) => (s.to_string(), String::new()),
        Ty::Num(s, n) => (format!("{}{}", s, n), String::new()),
        Ty::Enum => ("E0".to_string(), String::new()),
        Ty::Struct(i) => (format!("S{}", i), String::new()),
        Ty::Array(n, inner) => {
            let (a, b) = ty_text(inner);
            (a, format!("[{}]{}", n, b))
        }
    }
}

fn render(c: &Case) -> String {
    let mut s = String::from("enum E0 { E0_A, E0_B = 7 };\n");
    for (i, d) in c.structs.iter().enumerate() {
        s.push_str(&format!("struct S{} {{\n", i));
        for (k, m) in d.members.iter().enumerate() {
            let (a, b) = ty_text(m);
            s.push_str(&format!("    {} m{}{};\n", a, k, b));
        }
        s.push_str("};\n");
    }
    let mut body = String::new();
    for (u, (kind, si)) in c.uses.iter().enumerate() {
        let t = format!("S{}", si);
        match kind % 12 {
            // arrays of buffers (also of several dimensions and through typedefs): the element layout matters as much
            8 => {
                s.push_str(&format!("StructuredBuffer<{}> g{}[2];\n", t, u));
                body.push_str(&format!("    {} v{} = g{}[1][0];\n", t, u, u));
            }
            9 => {
                s.push_str(&format!("RWStructuredBuffer<{}> g{}[2][2];\n", t, u));
                body.push_str(&format!("    {} v{} = g{}[1][0][0];\n", t, u, u));
            }
            10 => {
                s.push_str(&format!("typedef StructuredBuffer<{}> TB{};\nTB{} g{}[3];\n", t, u, u, u));
                body.push_str(&format!("    {} v{} = g{}[2][0];\n", t, u, u));
            }
            11 => {
                s.push_str(&format!("typedef RWStructuredBuffer<{}> TA{}[2];\nTA{} g{};\n", t, u, u, u));
                body.push_str(&format!("    {} v{} = g{}[0][1];\n", t, u, u));
            }
            0 => {
                s.push_str(&format!("StructuredBuffer<{}> g{};\n", t, u));
                body.push_str(&format!("    {} v{} = g{}[0];\n", t, u, u));
            }
            1 => {
                s.push_str(&format!("RWStructuredBuffer<{}> g{};\n", t, u));
                body.push_str(&format!("    {} v{} = g{}[1];\n    g{}[0] = v{};\n", t, u, u, u, u));
            }
            2 => {
                s.push_str(&format!("ByteAddressBuffer g{};\n", u));
                body.push_str(&format!("    {} v{} = g{}.Load<{}>(0);\n", t, u, u, t));
            }
            3 => {
                s.push_str(&format!("RWByteAddressBuffer g{};\n", u));
                body.push_str(&format!("    {} v{} = g{}.Load<{}>(16);\n", t, u, u, t));
            }
            4 => {
                s.push_str(&format!("RWByteAddressBuffer g{};\nStructuredBuffer<float> h{};\n", u, u));
                body.push_str(&format!("    {} v{};\n    g{}.Store<{}>(0, v{});\n", t, u, u, t, u));
            }
            5 => {
                s.push_str(&format!("BufferAddress g{};\n", u));
                body.push_str(&format!("    {} v{} = g{}.Load<{}>(0);\n", t, u, u, t));
            }
            6 => {
                s.push_str(&format!("RWBufferAddress g{};\n", u));
                body.push_str(&format!("    {} v{} = g{}.Load<{}>(32);\n", t, u, u, t));
            }
            _ => {
                s.push_str(&format!("RWBufferAddress g{};\n", u));
                body.push_str(&format!("    {} v{};\n    g{}.Store(0, v{});\n", t, u, u, u));
            }
        }
    }
    s.push_str("void f() {\n");
    s.push_str(&body);
    s.push_str("}\n");
    s
}

fn ty_json(t: &Ty) -> Value {
    match t {
        Ty::Num(s, n) => json!({"k": "n", "t": s, "n": n}),
        Ty::Enum => json!({"k": "e"}),
        Ty::Struct(i) => json!({"k": "s", "i": i}),
        Ty::Array(n, inner) => json!({"k": "a", "len": n, "of": ty_json(inner)}),
    }
}

fn ty_from(v: &Value) -> Ty {
    match v["k"].as_str().unwrap_or("") {
        "n" => {
            let t = v["t"].as_str().unwrap_or("float");
            let t = SCALARS.iter().find(|s| **s == t).copied().unwrap_or("float");
            Ty::Num(t, v["n"].as_u64().unwrap_or(1) as u32)
        }
        "e" => Ty::Enum,
        "s" => Ty::Struct(v["i"].as_u64().unwrap_or(0) as usize),
        _ => Ty::Array(v["len"].as_u64().unwrap_or(1) as u32, Box::new(ty_from(&v["of"]))),
    }
}

fn case_json(c: &Case) -> Value {
    json!({
        "structs": c.structs.iter().map(|s| s.members.iter().map(ty_json).collect::<Vec<_>>()).collect::<Vec<_>>(),
        "uses": c.uses.iter().map(|(k, i)| json!([k, i])).collect::<Vec<_>>(),
        "source": render(c),
    })
}

fn case_from(v: &Value) -> Case {
    Case {
        structs: v["structs"]
            .as_array()
            .map(|a| a.iter().map(|m| StructDef { members: m.as_array().map(|x| x.iter().map(ty_from).collect()).unwrap_or_default() }).collect())
            .unwrap_or_default(),
        uses: v["uses"]
            .as_array()
            .map(|a| a.iter().map(|u| (u[0].as_u64().unwrap_or(0) as u8, u[1].as_u64().unwrap_or(0) as usize)).collect())
            .unwrap_or_default(),
    }
}

fn base_ty(level: usize) -> BoxedStrategy<Ty> {
    let num = (0u16..u16::MAX, prop_oneof![3 => Just(1u32), 2 => Just(2u32), 3 => Just(3u32), 2 => Just(4u32)])
        .prop_map(|(s, n)| Ty::Num(*pick(&SCALARS, s), n));
    // double is rarer: Metal has none, the case is labelled
    let num = (num, 0u8..10).prop_map(|(t, r)| match t {
        Ty::Num("double", n) if r < 6 => Ty::Num("float", n),
        t => t,
    });
    if level == 0 {
        prop_oneof![10 => num, 1 => Just(Ty::Enum)].boxed()
    } else {
        prop_oneof![8 => num, 1 => Just(Ty::Enum), 4 => (0..level).prop_map(Ty::Struct)].boxed()
    }
}

fn member_ty(level: usize) -> BoxedStrategy<Ty> {
    prop_oneof![
        4 => base_ty(level),
        1 => (1u32..=4, base_ty(level)).prop_map(|(n, t)| Ty::Array(n, Box::new(t))),
    ]
    .boxed()
}

fn case_strategy() -> impl Strategy<Value = Case> {
    (1usize..=3).prop_flat_map(|n| {
        let structs: Vec<BoxedStrategy<StructDef>> = (0..n)
            .map(|lvl| proptest::collection::vec(member_ty(lvl), 1..=6).prop_map(|members| StructDef { members }).boxed())
            .collect();
        (structs, proptest::collection::vec((0u8..12, 0..n), 1..=2)).prop_map(move |(structs, mut uses)| {
            // the deepest struct is always used so that nesting is exercised
            uses[0].1 = n - 1;
            Case { structs, uses }
        })
    })
}

fn parse_reported(msg: &str) -> Option<(u32, u32, u32, u32)> {
    // "struct has size=X align=A on HLSL but size=Y align=B on Metal"
    let i = msg.find("struct has size=")?;
    let rest = &msg[i..];
    let nums: Vec<u32> = rest
        .split(|c: char| !c.is_ascii_digit())
        .filter(|s| !s.is_empty())
        .take(4)
        .filter_map(|s| s.parse().ok())
        .collect();
    if nums.len() == 4 { Some((nums[0], nums[1], nums[2], nums[3])) } else { None }
}

pub fn check_record(rec: &Value) -> Verdict {
    let c = case_from(rec);
    if c.structs.is_empty() || c.uses.is_empty() {
        return Verdict::Skip("empty record".into());
    }
    let src = render(&c);
    let files = vec![("main.rssl".to_string(), src.clone())];
    let r = compile(&CompileReq {
        files: &files,
        entry: "main.rssl",
        defines: &[],
        tgt: Tgt::Dx,
        mode: Mode::NoPipeline,
        validate_layout: true,
    });
    let r = match r {
        Ok(r) => r,
        Err(p) => return Verdict::fail(format!("panic:{}", p), format!("source:\n{}", src)),
    };
    let mut labels = Vec::new();
    let mut used: Vec<usize> = c.uses.iter().map(|u| u.1).collect();
    used.sort();
    used.dedup();
    let lay: Vec<(usize, Layout, Layout)> = used
        .iter()
        .map(|i| (*i, layout(&c.structs, &Ty::Struct(*i), false), layout(&c.structs, &Ty::Struct(*i), true)))
        .collect();
    let mut nontrivial = false;
    let mut has_double = false;
    fn walk(structs: &[StructDef], t: &Ty, vec_seen: &mut bool, dbl: &mut bool, nested: &mut bool, depth: usize) {
        match t {
            Ty::Num(s, n) => {
                if *n > 1 {
                    *vec_seen = true;
                }
                if *s == "double" {
                    *dbl = true;
                }
            }
            Ty::Enum => {}
            Ty::Struct(i) => {
                if depth > 0 {
                    let h = layout(structs, t, false);
                    let raw: u32 = h.leaves.last().map(|l| l.1 + l.2).unwrap_or(0);
                    if raw != h.size {
                        *nested = true;
                    }
                    let m = layout(structs, t, true);
                    let rawm: u32 = m.leaves.last().map(|l| l.1 + l.2).unwrap_or(0);
                    if rawm != m.size {
                        *nested = true;
                    }
                }
                for m in &structs[*i].members {
                    walk(structs, m, vec_seen, dbl, nested, depth + 1);
                }
            }
            Ty::Array(_, inner) => {
                if let Ty::Struct(_) = **inner {
                    *nested = true;
                }
                walk(structs, inner, vec_seen, dbl, nested, depth + 1)
            }
        }
    }
    for i in &used {
        let (mut v, mut d, mut n) = (false, false, false);
        walk(&c.structs, &Ty::Struct(*i), &mut v, &mut d, &mut n, 0);
        nontrivial |= v || n;
        has_double |= d;
    }
    if has_double {
        labels.push("contains_double(Metal side by the rule set as written)".to_string());
    }
    let all_equal = lay.iter().all(|(_, h, m)| h.size == m.size && h.leaves == m.leaves);
    match r {
        Ok(_) => {
            labels.push("accepted".into());
            if !all_equal {
                let (i, h, m) = lay.iter().find(|(_, h, m)| !(h.size == m.size && h.leaves == m.leaves)).unwrap();
                let what = if h.size != m.size { "accepted:size-differs" } else { "accepted:offset-differs" };
                let diff: Vec<String> = h
                    .leaves
                    .iter()
                    .zip(m.leaves.iter())
                    .filter(|(a, b)| a != b)
                    .map(|(a, b)| format!("{} hlsl@{} metal@{}", a.0, a.1, b.1))
                    .collect();
                return Verdict::fail(
                    what,
                    format!(
                        "validation accepted but S{} differs: HLSL size {} align {}, Metal size {} align {}; fields: {}\nsource:\n{}",
                        i, h.size, h.align, m.size, m.align, diff.join(", "), src
                    ),
                );
            }
        }
        Err(msg) => {
            if let Some(i) = msg.find("struct has a field at offset=") {
                // repaired checker: sizes agree but a field sits at different offsets
                let nums: Vec<u32> = msg[i..]
                    .split(|c: char| !c.is_ascii_digit())
                    .filter(|s| !s.is_empty())
                    .take(2)
                    .filter_map(|s| s.parse().ok())
                    .collect();
                labels.push("rejected_by_offset".into());
                let ok = nums.len() == 2
                    && lay.iter().any(|(_, h, m)| {
                        h.size == m.size && h.leaves.iter().zip(m.leaves.iter()).any(|(a, b)| a.1 == nums[0] && b.1 == nums[1] && a.1 != b.1)
                    });
                if !ok {
                    return Verdict::fail(
                        if all_equal { "rejected:layouts-identical" } else { "rejected:wrong-offsets-reported" },
                        format!("message: {}\nsource:\n{}", msg.lines().next().unwrap_or(""), src),
                    );
                }
                return Verdict::pass(if nontrivial { Some(hash_of(&src)) } else { None }, labels);
            }
            let Some((x, _ax, y, _ay)) = parse_reported(&msg) else {
                if msg.contains("struct has unknown size") {
                    return Verdict::fail("rejected:unknown-size", format!("{}\nsource:\n{}", msg, src));
                }
                return Verdict::Skip(format!("front end rejected: {}", normalise_panic(msg.lines().next().unwrap_or(""))));
            };
            labels.push("rejected".into());
            let ok = lay.iter().any(|(_, h, m)| h.size == x && m.size == y);
            if !ok {
                let truth: Vec<String> = lay.iter().map(|(i, h, m)| format!("S{}: HLSL {} Metal {}", i, h.size, m.size)).collect();
                let what = if all_equal { "rejected:layouts-identical" } else { "rejected:wrong-sizes-reported" };
                return Verdict::fail(
                    what,
                    format!("reported HLSL size {} Metal size {} but true sizes are {}\nmessage: {}\nsource:\n{}", x, y, truth.join("; "), msg.lines().next().unwrap_or(""), src),
                );
            }
        }
    }
    Verdict::pass(if nontrivial { Some(hash_of(&src)) } else { None }, labels)
}

pub fn run(ctx: &mut Ctx) {
    ctx.rule = "Generated: 1-3 struct definitions (nesting depth <= 3) with 1-6 members over {half,int,uint,float,double} x {scalar,2,3,4-vector}, enums, nested structs and arrays (1-4) of those, used as element type of StructuredBuffer / RWStructuredBuffer / (RW)ByteAddressBuffer Load<T>/Store<T> / (RW)BufferAddress Load<T>/Store, compiled with layout validation on. Non-trivial = the struct contains a 2/3/4-vector (Metal alignment exceeds HLSL alignment) or a nested struct/array-of-struct with tail padding. Distinct = hash of the source text.".into();
    ctx.assumptions.push("trusted: the two layout calculators in harness/src/c19.rs (HLSL structured-buffer: scalar-aligned members, struct padded to largest member alignment, array stride = padded element size; Metal: vector size = alignment = scalar x next power of two, struct padded to alignment)".into());
    ctx.assumptions.push("half is 2 bytes and double 8 bytes on both sides, as the property's rule set and the checker assume; Metal has no double, such cases are labelled".into());
    if !ctx.replay_tier(&check_record) {
        return;
    }
    ctx.run_prop("random_structs", ctx.tier.pick(40_000, 1_000_000), case_strategy, case_json, check_record);
    ctx.require_label("accepted", 50);
    ctx.require_label("rejected", 50);
}
