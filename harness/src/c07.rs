//! C07 — compilation is deterministic.
//!
//! The only "schedule" is the per-instance seed of std HashMap/HashSet. Every `compile` call builds
//! fresh maps (fresh seeds), so N-fold evaluation in one process already varies the schedule; on
//! top of that the same inputs are evaluated in 8 freshly spawned worker processes.

use crate::common::*;
use crate::progen;
use proptest::prelude::*;
use serde_json::{Value, json};
use std::io::{BufRead, Write};

fn eval(rec: &Value) -> Result<String, String> {
    let tgt = Tgt::from_name(rec["tgt"].as_str().unwrap_or("dx"));
    let mode = match rec["mode"].as_str() {
        Some("nopipe") => Mode::NoPipeline,
        Some("all") | None => Mode::All,
        Some(n) => Mode::Named(n.to_string()),
    };
    let files: Vec<(String, String)> = rec["files"]
        .as_array()
        .map(|a| a.iter().map(|f| (f[0].as_str().unwrap_or("").to_string(), f[1].as_str().unwrap_or("").to_string())).collect())
        .unwrap_or_default();
    let r = compile(&CompileReq { files: &files, entry: "main.rssl", defines: &[], tgt, mode, validate_layout: rec["validate"].as_bool().unwrap_or(false) })?;
    Ok(match result_snapshot(&r) {
        Ok(v) => format!("OK\n{}", v.join("\n=====\n")),
        Err(e) => format!("ERR\n{}", e),
    })
}

pub fn check_record(rec: &Value) -> Verdict {
    let first = match eval(rec) {
        Ok(s) => s,
        Err(p) => return Verdict::fail(format!("panic:{}", p), record_text(rec)),
    };
    for i in 0..rec["repeats"].as_u64().unwrap_or(3) {
        let again = match eval(rec) {
            Ok(s) => s,
            Err(p) => return Verdict::fail(format!("panic:{}", p), record_text(rec)),
        };
        if again != first {
            let d = first.lines().zip(again.lines()).find(|(a, b)| a != b).map(|(a, b)| format!("first : {}\nrepeat: {}", a, b)).unwrap_or_default();
            return Verdict::fail("nondeterministic:in-process", format!("evaluation #{} differs\n{}\n{}", i + 2, d, record_text(rec)));
        }
    }
    // history independence: compiling something else in between (a broken copy of the same text, which the parser
    // or the type checker rejects) must not change what this input compiles to
    if rec["interleave"].is_object() {
        if let Err(p) = eval(&rec["interleave"]) {
            return Verdict::fail(format!("panic:{}", p), record_text(&rec["interleave"]));
        }
        let again = match eval(rec) {
            Ok(s) => s,
            Err(p) => return Verdict::fail(format!("panic:{}", p), record_text(rec)),
        };
        if again != first {
            let d = first.lines().zip(again.lines()).find(|(a, b)| a != b).map(|(a, b)| format!("before: {}\nafter : {}", a, b)).unwrap_or_default();
            return Verdict::fail("history-dependent:in-process", format!("the result changed after another input was compiled on the same thread\n{}\n--- the other input\n{}\n--- this input\n{}", d, record_text(&rec["interleave"]), record_text(rec)));
        }
    }
    let accepted = first.starts_with("OK");
    let nontrivial = rec["rich"].as_bool().unwrap_or(false);
    Verdict::pass(
        if nontrivial { Some(hash_of(&rec.to_string())) } else { None },
        vec![if accepted { "accepted".into() } else { "rejected".into() }, format!("tgt_{}", rec["tgt"].as_str().unwrap_or("dx"))],
    )
}

/// `check --worker-c07 <file>`: one result hash per input line
pub fn worker(path: &str) {
    let f = std::fs::File::open(path).expect("open inputs");
    let out = std::io::stdout();
    let mut out = out.lock();
    for line in std::io::BufReader::new(f).lines() {
        let line = line.unwrap();
        let rec: Value = serde_json::from_str(&line).unwrap();
        let h = match eval(&rec) {
            Ok(s) => format!("{:016x}", hash_of(&s)),
            Err(p) => format!("PANIC {}", p),
        };
        writeln!(out, "{}", h).unwrap();
    }
}

fn make_record(ch: &[u32], t: usize, variant: u8) -> Value {
    let (mut prog, _, _) = progen::generate(ch, progen::Profile { multi_payload: true, ..progen::Profile::full() });
    // name clashes with generated `_N` suffixes: an overloaded name `f` is emitted as f_0, f_1; call something else `f_0`
    let mut rich = prog.scene.pipelines.len() >= 1 && prog.resources.len() >= 4;
    if variant % 3 == 0 {
        let mut shared = None;
        for (i, f) in prog.funcs.iter().enumerate() {
            if prog.funcs.iter().enumerate().any(|(j, g)| j != i && g.name == f.name) {
                shared = Some(f.name);
            }
        }
        if let Some(sn) = shared {
            if let Some(other) = prog.funcs.iter().find(|f| f.name != sn).map(|f| f.name) {
                prog.names[other] = format!("{}_0", prog.names[sn]);
                rich = true;
            }
            if let Some(st) = prog.structs.first().map(|s| s.name) {
                prog.names[st] = format!("{}_1", prog.names[sn]);
            }
        }
    }
    let mut text = progen::render(&prog);
    let mut files = Vec::new();
    if variant % 4 == 1 {
        // an include graph with #pragma once reached by two paths
        files.push(("a.h".to_string(), "#pragma once\n#include \"c.h\"\nstatic const int inc_a_zz = INC_C;\n".to_string()));
        files.push(("b.h".to_string(), "#include \"c.h\"\n#include \"a.h\"\nstatic const int inc_b_zz = inc_a_zz + 1;\n".to_string()));
        files.push(("c.h".to_string(), "#pragma once\n#define INC_C 7\n".to_string()));
        text.insert_str(0, "#include \"a.h\"\n#include \"b.h\"\n#include \"a.h\"\n");
    }
    if variant % 5 == 2 {
        // a rejected input: diagnostics must be deterministic too
        if let Some(i) = text.find(") {\n") {
            text.insert_str(i + 4, "    undefined_symbol_zz = 1;\n");
        }
    }
    files.push(("main.rssl".to_string(), text));
    let mode = match variant % 7 {
        0 => "nopipe".to_string(),
        1 if !prog.pipelines.is_empty() => prog.names[prog.pipelines[0].name].clone(),
        _ => "all".to_string(),
    };
    json!({"files": files, "tgt": Tgt::ALL4[t % 4].name(), "mode": mode, "validate": variant % 2 == 0, "rich": rich})
}

pub fn run(ctx: &mut Ctx) {
    ctx.rule = "Inputs: generated programs with >= 4 resources across bind groups (buffer addresses in several groups for the inline blocks, resources declared out of slot order), 2-6 statics used per function, task shaders dispatching two payload types, overload sets / template instances / structs whose names collide with generated `_N` suffixes, include graphs with #pragma once reached by two paths, rejected variants (diagnostics; also every ill-typed program of C03's injection table and 17 shapes with several offending entities of one kind - enumerators out of range, unmatched and ambiguous overload sets, several undefined names, duplicate definitions, failing template instances, pipeline property errors, several structs failing layout validation, missing interpolators - each evaluated 12 times), and overload sets of one name (also reserved words) in the global scope and in sibling / nested namespaces; x 4 targets x {all, named, no-pipeline} x layout validation on/off. Oracle: the full result (sources, stages, metadata, state or diagnostic text) is identical across 4 evaluations in one process, also when a broken copy of the same input (cut short, one character deleted, a bracket changed: mostly parse errors) is compiled in between on the same thread, (every compile builds fresh HashMaps with fresh seeds) and across 8 freshly spawned processes. Non-trivial = the input has a pipeline and >= 4 resources or a forced name collision. Distinct = hash of the record.".into();
    ctx.assumptions.push("no source of non-determinism other than hash seeds exists in the code read (no clock, threads, addresses or environment access)".into());
    if !ctx.replay_tier(&check_record) {
        return;
    }
    let strat = || (progen::choices_strategy(500), 0usize..4, any::<u8>());
    ctx.run_prop(
        "in_process_repeats",
        ctx.tier.pick(1_500, 40_000),
        strat,
        |(ch, t, v): &(Vec<u32>, usize, u8)| make_record(ch, *t, *v),
        check_record,
    );
    // several scopes that need generated names from the same base name: overload sets of one name in sibling and
    // nested namespaces and at global scope, reserved words as names in several namespaces
    ctx.run_prop(
        "namespaced_overload_sets",
        ctx.tier.pick(600, 15_000),
        || (proptest::collection::vec((0usize..4, 0usize..3, 1usize..4), 2..6), 0usize..4, any::<bool>()),
        |(groups, t, validate): &(Vec<(usize, usize, usize)>, usize, bool)| {
            // (namespace index, name index, number of overloads)
            let ns_names = ["", "Lighting", "Fog", "Lighting::Detail"];
            let fn_names = ["blend", "main", "thread"];
            let param_types = ["float", "int", "uint", "float2"];
            let mut text = String::new();
            let mut calls = Vec::new();
            let mut seen = std::collections::HashSet::new();
            for (ns, name, count) in groups {
                if !seen.insert((*ns, *name)) {
                    continue;
                }
                let path: Vec<&str> = if ns_names[*ns].is_empty() { Vec::new() } else { ns_names[*ns].split("::").collect() };
                for p in &path {
                    text.push_str(&format!("namespace {} {{ ", p));
                }
                text.push('\n');
                for k in 0..*count {
                    text.push_str(&format!("    int {}({} a) {{ return {}; }}\n", fn_names[*name], param_types[k], 10 * ns + k));
                    let arg = ["1.5", "(int)2", "3u", "float2(1.0, 2.0)"][k];
                    calls.push(format!("{}{}{}({})", ns_names[*ns], if path.is_empty() { "" } else { "::" }, fn_names[*name], arg));
                }
                for _ in &path {
                    text.push_str("} ");
                }
                text.push('\n');
            }
            text.push_str(&format!("int user() {{\n    return {};\n}}\n", if calls.is_empty() { "0".to_string() } else { calls.join(" + ") }));
            json!({"files": [["main.rssl", text]], "tgt": Tgt::ALL4[*t % 4].name(), "mode": "nopipe", "validate": validate, "rich": true})
        },
        check_record,
    );
    // rejected inputs: the diagnostic (which error is reported first, its position, its notes) must not depend on hash
    // order either. Every ill-typed program of C03's injection table, and shapes with several entities of one kind of
    // which the diagnostic has to pick or list some
    {
        const REJECTS: &[&str] = &[
            "enum Range { Lowest = -2, Low = -1, High = 0xFFFFFFFFu, Higher = 0xFFFFFFFEu };\nvoid f() {}\n",
            "enum Big { A0 = -5, A1 = 4294967295u, A2 = -7, A3 = 4294967290u, A4 = 1 };\n",
            "void f(int a) {}\nvoid f(float a, float b) {}\nvoid f(uint3 v) {}\nvoid f(bool a, bool b, bool c) {}\nnamespace N { void f(int a, int b, int c, int d, int e) {} }\nvoid g() { f(1, 2, 3, 4); }\n",
            "void f(int a, half b) {}\nvoid f(half a, int b) {}\nvoid f(uint a, uint b) {}\nvoid f(float a, float b) {}\nvoid g(half h) { f(h, h); }\n",
            "void a() { x1 = 1; }\nvoid b() { y1 = 2; }\nvoid c() { z1 = 3; }\n",
            "struct S { int a; };\nstruct S { int b; };\nstruct T { int a; int a; int b; int b; };\n",
            "namespace A { void f() {} void f() {} }\nnamespace B { void g() {} void g() {} }\nvoid h() {}\nvoid h() {}\n",
            "enum E { A, B, A, B, C, C };\n",
            "cbuffer C { int a; int a; int b; int b; };\nstatic int s;\nstatic int s;\nstatic float t;\nstatic float t;\n",
            "template<typename T> T id(T a) { return a.nope; }\nvoid g() { id(1); id(1.0); id(true); id(2u); }\n",
            "[numthreads(1, 1, 1)] void cs() {}\nPipeline P { ComputeShader = nothing; VertexShader = nothing2; Foo = 1; Bar = 2; ComputeShader = cs; }\n",
            "struct A { float a; float2 b; };\nstruct B { float a; float3 b; float c; };\nstruct C { float2 a; float3 b; };\nStructuredBuffer<A> sa;\nStructuredBuffer<B> sb;\nRWStructuredBuffer<C> sc;\n[numthreads(1, 1, 1)] void cs() { sa[0]; sb[0]; sc[0].a = float2(0, 0); }\nPipeline P { ComputeShader = cs; }\n",
            "[[rssl::bind_group(40)]] Texture2D<float4> t0;\n[[rssl::bind_group(41)]] Texture2D<float4> t1;\n[[rssl::bind_group(42)]] Texture2D<float4> t2;\n[numthreads(1, 1, 1)] void cs() { t0; t1; t2; }\nPipeline P { ComputeShader = cs; }\n",
            "struct VO { float4 p : SV_Position; float2 a : AAA; float2 b : BBB; float2 c : CCC; };\nVO vs() { VO o; o.p = float4(0, 0, 0, 1); o.a = float2(0, 0); o.b = o.a; o.c = o.a; return o; }\nfloat4 ps(float2 x : XXX, float2 y : YYY, float2 z : ZZZ) : SV_Target0 { return float4(x, y) + float4(z, z); }\nPipeline P { VertexShader = vs; PixelShader = ps; }\n",
            "void f() { double3x3 m; m[0][0] = 1; float3x4 k; k[1] = float4(0, 0, 0, 0); uint64_t q = 1; }\n",
            "int f(int a) { return a; }\nint f(int a) { return a + 1; }\nint g(float b) { return 1; }\nint g(float b) { return 2; }\nvoid u() { f(1); g(1.0); }\n",
            "void f(out int a, out int b) { }\nvoid g() { f(1, 2); int k; k.x.y = 3; undefined_a(); undefined_b(); }\n",
        ];
        let mut rejected: Vec<(String, String)> = crate::c03::violation_sources();
        for (i, r) in REJECTS.iter().enumerate() {
            rejected.push((format!("reject_{}", i), r.to_string()));
        }
        let variants = 8u64; // 4 targets x layout validation on / off
        let make = |i: u64| {
            let (name, text) = &rejected[(i / variants) as usize];
            let v = i % variants;
            json!({"files": [["main.rssl", text]], "tgt": Tgt::ALL4[(v % 4) as usize].name(), "mode": if name.starts_with("reject_") { "all" } else { "nopipe" }, "validate": v >= 4, "rich": true, "repeats": 11, "name": name})
        };
        ctx.run_enum("rejected_inputs", rejected.len() as u64 * variants, true, make, |i| match check_record(&make(i)) {
            Verdict::Pass { nontrivial, mut labels } => {
                labels.push("rejected_catalogue".into());
                Verdict::Pass { nontrivial, labels }
            }
            other => other,
        });
    }
    // ---- history independence: A, then a broken copy of A (one character deleted, the text cut short, a bracket
    // changed - mostly parse errors with nearly the same token layout), then A again on the same thread
    ctx.run_prop(
        "history_independence",
        ctx.tier.pick(1_500, 30_000),
        || (progen::choices_strategy(400), 0usize..4, any::<u16>(), 0u8..4),
        |(ch, t, at, how): &(Vec<u32>, usize, u16, u8)| {
            let mut rec = make_record(ch, *t, 3);
            let text = rec["files"].as_array().and_then(|f| f.last()).and_then(|f| f[1].as_str()).unwrap_or("").to_string();
            let mut cut = ((*at as usize) * text.len().max(1)) >> 16;
            while cut > 0 && !text.is_char_boundary(cut) {
                cut -= 1;
            }
            let broken = match how {
                0 => text[..cut].to_string(),
                1 => {
                    let mut s = text.clone();
                    if cut < s.len() {
                        let end = cut + s[cut..].chars().next().map(|c| c.len_utf8()).unwrap_or(0);
                        s.replace_range(cut..end, "");
                    }
                    s
                }
                2 => text.replacen('>', ";", 1 + (*at as usize % 3)),
                _ => format!("{}\n{}", &text[..cut], "int unterminated( {"),
            };
            let mut other = rec.clone();
            if let Some(files) = other["files"].as_array_mut() {
                if let Some(last) = files.last_mut() {
                    last[1] = json!(broken);
                }
            }
            rec["interleave"] = other;
            rec["rich"] = json!(true);
            rec
        },
        |r: &Value| match check_record(r) {
            Verdict::Pass { nontrivial, mut labels } => {
                labels.push("history_independence".into());
                Verdict::Pass { nontrivial, labels }
            }
            other => other,
        },
    );
    // cross-process: a deterministic sample of inputs evaluated in 8 fresh processes
    let n = ctx.tier.pick(400, 6_000);
    let sample = sample_strategy(&strat(), ctx.seed ^ 0xC07, n);
    let records: Vec<Value> = sample.iter().map(|(ch, t, v)| make_record(ch, *t, *v)).collect();
    let dir = "/tmp/verif-scratch";
    let _ = std::fs::create_dir_all(dir);
    let path = format!("{}/c07-inputs-{}.jsonl", dir, std::process::id());
    {
        let mut f = std::fs::File::create(&path).expect("create inputs");
        for r in &records {
            writeln!(f, "{}", r).unwrap();
        }
    }
    let mine: Vec<String> = records
        .iter()
        .map(|r| match eval(r) {
            Ok(s) => format!("{:016x}", hash_of(&s)),
            Err(p) => format!("PANIC {}", p),
        })
        .collect();
    let exe = std::env::current_exe().expect("current exe");
    let children: Vec<std::process::Child> = (0..8)
        .map(|_| {
            std::process::Command::new(&exe)
                .arg("--worker-c07")
                .arg(&path)
                .stdout(std::process::Stdio::piped())
                .stderr(std::process::Stdio::null())
                .spawn()
                .expect("spawn worker")
        })
        .collect();
    let mut processes = 0;
    for (w, child) in children.into_iter().enumerate() {
        let out = child.wait_with_output().expect("worker output");
        let lines: Vec<String> = String::from_utf8_lossy(&out.stdout).lines().map(String::from).collect();
        if lines.len() != records.len() {
            ctx.infra_errors.push(format!("worker {} returned {} lines for {} inputs (status {:?})", w, lines.len(), records.len(), out.status));
            continue;
        }
        processes += 1;
        for (i, (a, b)) in mine.iter().zip(lines.iter()).enumerate() {
            ctx.stats.evaluations += 1;
            if a != b {
                ctx.failures.push(Failure {
                    signature: if a.starts_with("PANIC") || b.starts_with("PANIC") { format!("panic-in-one-process:{}", if a.starts_with("PANIC") { a } else { b }) } else { "nondeterministic:across-processes".to_string() },
                    detail: format!("input #{} gives result hash {} in this process and {} in worker process {}\n{}", i, a, b, w, record_text(&records[i])),
                    record: records[i].clone(),
                });
                break;
            }
        }
    }
    let _ = std::fs::remove_file(&path);
    ctx.extra.insert("worker_processes".into(), json!(processes));
    ctx.extra.insert("inputs_per_worker".into(), json!(records.len()));
    ctx.parts.push(json!({"part": "cross_process", "inputs": records.len(), "processes": processes}));
    for l in ["accepted", "rejected", "tgt_msl", "tgt_vkba"] {
        ctx.require_label(l, 20);
    }
}
