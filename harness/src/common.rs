//! Shared runner, evidence, replay and known-findings plumbing (engine E5 of DESIGN.md).

use proptest::strategy::{Strategy, ValueTree};
use proptest::test_runner::{Config, RngAlgorithm, RngSeed, TestCaseError, TestError, TestRunner};
use serde_json::{Value, json};
use std::cell::RefCell;
use std::collections::{BTreeMap, HashSet};
use std::hash::{Hash, Hasher};
use std::panic::{AssertUnwindSafe, catch_unwind};
use std::sync::atomic::{AtomicBool, Ordering};
use std::sync::{Arc, Mutex};
use std::time::Instant;

pub const VERIF_DIR: &str = "/verif";

#[derive(Copy, Clone, PartialEq, Eq, Debug)]
pub enum Tier {
    Quick,
    Thorough,
}

impl Tier {
    pub fn name(self) -> &'static str {
        match self {
            Tier::Quick => "quick",
            Tier::Thorough => "thorough",
        }
    }
    pub fn pick<T>(self, quick: T, thorough: T) -> T {
        match self {
            Tier::Quick => quick,
            Tier::Thorough => thorough,
        }
    }
}

// ---------------------------------------------------------------------------------------------
// Panic capture

thread_local! {
    static LAST_PANIC: RefCell<Option<String>> = const { RefCell::new(None) };
}

/// Install a silent panic hook that records `file: message` of the last panic per thread.
pub fn install_panic_hook() {
    std::panic::set_hook(Box::new(|info| {
        let msg = if let Some(s) = info.payload().downcast_ref::<&str>() {
            s.to_string()
        } else if let Some(s) = info.payload().downcast_ref::<String>() {
            s.clone()
        } else {
            "<non-string panic>".to_string()
        };
        let loc = match info.location() {
            Some(l) => l.file().to_string(),
            None => "<unknown>".to_string(),
        };
        let loc = loc.strip_prefix("/repo/").unwrap_or(&loc).to_string();
        // harness-internal panics are loud: they are bugs of the machinery, not of rssl
        if loc.starts_with("src/") && !loc.starts_with("src/compile.rs") {
            eprintln!("HARNESS PANIC at {:?}: {}", info.location(), msg);
        }
        if std::env::var("VERIF_PANIC_LINES").is_ok() {
            eprintln!("PANIC-LOCATION {:?}: {}", info.location(), msg);
        }
        LAST_PANIC.with(|p| *p.borrow_mut() = Some(format!("{}: {}", loc, normalise_panic(&msg))));
    }));
}

/// Remove volatile parts (numbers) from a panic message so that it can key a known finding.
pub fn normalise_panic(msg: &str) -> String {
    let first = msg.lines().next().unwrap_or("");
    let mut out = String::new();
    let mut in_num = false;
    for c in first.chars() {
        if c.is_ascii_digit() {
            if !in_num {
                out.push('#');
                in_num = true;
            }
        } else {
            in_num = false;
            out.push(c);
        }
    }
    if out.len() > 160 {
        let mut cut = 160;
        while !out.is_char_boundary(cut) {
            cut -= 1;
        }
        out.truncate(cut);
    }
    out
}

/// Run code under test; a panic becomes Err("file: message").
pub fn guard<T>(f: impl FnOnce() -> T) -> Result<T, String> {
    LAST_PANIC.with(|p| *p.borrow_mut() = None);
    match catch_unwind(AssertUnwindSafe(f)) {
        Ok(v) => Ok(v),
        Err(_) => Err(LAST_PANIC
            .with(|p| p.borrow_mut().take())
            .unwrap_or_else(|| "<panic without message>".to_string())),
    }
}

// ---------------------------------------------------------------------------------------------
// Verdicts

/// Outcome of checking one case.
#[derive(Clone, Debug)]
pub enum Verdict {
    /// Property held. `nontrivial` = hash key if the case is non-trivial by the property's rule.
    Pass { nontrivial: Option<u64>, labels: Vec<String> },
    /// Case is outside the checked domain (counted with the reason).
    Skip(String),
    /// Property violated. `signature` is a short stable classification used by known findings.
    Fail { signature: String, detail: String },
}

impl Verdict {
    pub fn pass(nontrivial: Option<u64>, labels: Vec<String>) -> Verdict {
        Verdict::Pass { nontrivial, labels }
    }
    pub fn fail(signature: impl Into<String>, detail: impl Into<String>) -> Verdict {
        Verdict::Fail { signature: signature.into(), detail: detail.into() }
    }
}

pub fn hash_of<T: Hash + ?Sized>(t: &T) -> u64 {
    let mut h = std::collections::hash_map::DefaultHasher::new();
    t.hash(&mut h);
    h.finish()
}

// ---------------------------------------------------------------------------------------------
// Known findings

#[derive(Clone, Debug)]
pub struct KnownFinding {
    pub property: String,
    pub id: String,
    /// the failure signature must contain every one of these substrings
    pub signature_contains: Vec<String>,
    /// if non-empty: the JSON rendering of the failing record must contain every one of these
    pub input_contains: Vec<String>,
    pub what: String,
    pub regression: Value,
}

pub fn load_known_findings(property: &str) -> Vec<KnownFinding> {
    let path = format!("{}/known_findings.json", VERIF_DIR);
    let Ok(text) = std::fs::read_to_string(&path) else {
        return Vec::new();
    };
    let v: Value = match serde_json::from_str(&text) {
        Ok(v) => v,
        Err(e) => {
            eprintln!("cannot parse {}: {}", path, e);
            std::process::exit(2);
        }
    };
    let mut out = Vec::new();
    for f in v["findings"].as_array().cloned().unwrap_or_default() {
        if f["property"].as_str() != Some(property) {
            continue;
        }
        let strs = |k: &str| -> Vec<String> {
            f[k].as_array()
                .map(|a| a.iter().filter_map(|s| s.as_str().map(String::from)).collect())
                .unwrap_or_default()
        };
        out.push(KnownFinding {
            property: property.to_string(),
            id: f["id"].as_str().unwrap_or("?").to_string(),
            signature_contains: strs("signature_contains"),
            input_contains: strs("input_contains"),
            what: f["what"].as_str().unwrap_or("").to_string(),
            regression: f["regression"].clone(),
        });
    }
    out
}

impl KnownFinding {
    pub fn matches(&self, signature: &str, record: &Value) -> bool {
        if self.signature_contains.is_empty() {
            return false;
        }
        if !self.signature_contains.iter().all(|s| signature.contains(s.as_str())) {
            return false;
        }
        if !self.input_contains.is_empty() {
            let text = record_text(record);
            if !self.input_contains.iter().all(|s| text.contains(s.as_str())) {
                return false;
            }
        }
        true
    }
}

/// All string leaves of a record concatenated (used by `input_contains`).
pub fn record_text(v: &Value) -> String {
    fn walk(v: &Value, out: &mut String) {
        match v {
            Value::String(s) => {
                out.push_str(s);
                out.push('\n');
            }
            Value::Array(a) => a.iter().for_each(|x| walk(x, out)),
            Value::Object(o) => o.values().for_each(|x| walk(x, out)),
            other => {
                out.push_str(&other.to_string());
                out.push('\n');
            }
        }
    }
    let mut s = String::new();
    walk(v, &mut s);
    s
}

// ---------------------------------------------------------------------------------------------
// Statistics

#[derive(Default)]
pub struct Stats {
    pub evaluations: u64,
    pub nontrivial: HashSet<u64>,
    pub nontrivial_total: u64,
    /// non-trivial cases of exhaustive enumerations (distinct by construction, not hashed)
    pub nontrivial_by_construction: u64,
    pub labels: BTreeMap<String, u64>,
    pub skips: BTreeMap<String, u64>,
    pub known_hits: BTreeMap<String, u64>,
    pub samples: Vec<Value>,
    pub skip_samples: Vec<Value>,
}

impl Stats {
    pub fn merge(&mut self, other: Stats) {
        self.evaluations += other.evaluations;
        self.nontrivial.extend(other.nontrivial);
        self.nontrivial_total += other.nontrivial_total;
        self.nontrivial_by_construction += other.nontrivial_by_construction;
        for (k, v) in other.labels {
            *self.labels.entry(k).or_default() += v;
        }
        for (k, v) in other.skips {
            *self.skips.entry(k).or_default() += v;
        }
        for (k, v) in other.known_hits {
            *self.known_hits.entry(k).or_default() += v;
        }
        for s in other.samples {
            if self.samples.len() < 6 {
                self.samples.push(s);
            }
        }
        for s in other.skip_samples {
            if self.skip_samples.len() < 12 {
                self.skip_samples.push(s);
            }
        }
    }
    pub fn label(&mut self, l: &str) {
        *self.labels.entry(l.to_string()).or_default() += 1;
    }
    pub fn skip(&mut self, l: &str) {
        *self.skips.entry(l.to_string()).or_default() += 1;
    }
}

#[derive(Clone, Debug)]
pub struct Failure {
    pub signature: String,
    pub detail: String,
    pub record: Value,
}

/// A check context: one per property run.
pub struct Ctx {
    pub property: String,
    pub tier: Tier,
    pub seed: u64,
    pub threads: usize,
    pub known: Vec<KnownFinding>,
    pub stats: Stats,
    pub failures: Vec<Failure>,
    pub parts: Vec<Value>,
    pub assumptions: Vec<String>,
    pub rule: String,
    pub level: String,
    pub extra: BTreeMap<String, Value>,
    pub infra_errors: Vec<String>,
    pub start: Instant,
    pub known_lines_printed: HashSet<String>,
}

impl Ctx {
    pub fn new(property: &str, tier: Tier, seed: u64) -> Ctx {
        let threads = std::env::var("VERIF_THREADS")
            .ok()
            .and_then(|s| s.parse().ok())
            .unwrap_or_else(|| std::thread::available_parallelism().map(|n| n.get()).unwrap_or(4).min(16));
        Ctx {
            property: property.to_string(),
            tier,
            seed,
            threads,
            known: load_known_findings(property),
            stats: Stats::default(),
            failures: Vec::new(),
            parts: Vec::new(),
            assumptions: Vec::new(),
            rule: String::new(),
            level: "exploration".to_string(),
            extra: BTreeMap::new(),
            infra_errors: Vec::new(),
            start: Instant::now(),
            known_lines_printed: HashSet::new(),
        }
    }

    /// Classify one verdict into the statistics. Returns Some(failure) for a *new* violation.
    pub fn absorb(stats: &mut Stats, known: &[KnownFinding], record: &dyn Fn() -> Value, v: Verdict) -> Option<Failure> {
        stats.evaluations += 1;
        match v {
            Verdict::Pass { nontrivial, labels } => {
                if let Some(k) = nontrivial {
                    stats.nontrivial_total += 1;
                    if stats.nontrivial.insert(k) && stats.samples.len() < 6 && (k % 7 == 0 || stats.samples.is_empty()) {
                        stats.samples.push(record());
                    }
                }
                for l in labels {
                    stats.label(&l);
                }
                None
            }
            Verdict::Skip(r) => {
                if stats.skips.get(&r).copied().unwrap_or(0) < 2 && stats.skip_samples.len() < 12 {
                    stats.skip_samples.push(json!({"reason": r, "record": record()}));
                }
                stats.skip(&r);
                None
            }
            Verdict::Fail { signature, detail } => {
                let rec = record();
                for k in known {
                    if k.matches(&signature, &rec) {
                        *stats.known_hits.entry(k.id.clone()).or_default() += 1;
                        return None;
                    }
                }
                Some(Failure { signature, detail, record: rec })
            }
        }
    }

    /// Replay the regression inputs of the known findings and every stored replay file for this property.
    /// A known finding that still fails prints its KNOWN-FINDING line. Returns false when a regression input fails.
    pub fn replay_tier(&mut self, check: &dyn Fn(&Value) -> Verdict) -> bool {
        let known = self.known.clone();
        for k in &known {
            if k.regression.is_null() {
                continue;
            }
            let v = check(&k.regression);
            self.stats.evaluations += 1;
            match v {
                Verdict::Fail { signature, detail } => {
                    if k.matches(&signature, &k.regression) {
                        self.print_known(k);
                    } else {
                        // the regression input fails in a way the entry does not describe
                        self.failures.push(Failure { signature, detail, record: k.regression.clone() });
                    }
                }
                _ => {
                    eprintln!(
                        "note: known finding {} no longer reproduces on its regression input (property {})",
                        k.id, self.property
                    );
                    self.stats.label("known_finding_not_reproduced");
                }
            }
        }
        // stored replay files: regression inputs of fixed defects and past failures
        let dir = format!("{}/replays/{}", VERIF_DIR, self.property);
        let mut files: Vec<_> = std::fs::read_dir(&dir)
            .map(|d| d.filter_map(|e| e.ok()).map(|e| e.path()).collect())
            .unwrap_or_default();
        files.sort();
        for f in files {
            if f.extension().and_then(|e| e.to_str()) != Some("json") {
                continue;
            }
            let name = f.file_name().unwrap().to_string_lossy().to_string();
            if !name.starts_with("regress-") {
                continue;
            }
            let Ok(text) = std::fs::read_to_string(&f) else { continue };
            let Ok(v) = serde_json::from_str::<Value>(&text) else { continue };
            let rec = if v.get("record").is_some() { v["record"].clone() } else { v };
            let verdict = check(&rec);
            let known = self.known.clone();
            if let Some(fail) = Ctx::absorb(&mut self.stats, &known, &|| rec.clone(), verdict) {
                self.failures.push(fail);
            }
            self.stats.label("replayed_regression_file");
        }
        // a failing regression input is reported at once; the random search behind it is skipped
        self.failures.is_empty()
    }

    pub fn print_known(&mut self, k: &KnownFinding) {
        if self.known_lines_printed.insert(k.id.clone()) {
            println!("KNOWN-FINDING: property={} {} ({})", self.property, k.what, k.id);
        }
    }

    /// Run a proptest campaign sharded over threads.
    ///
    /// `strategy` builds a fresh strategy per shard; `render` turns a generated value into the
    /// self-contained JSON record; `check` decides the record.
    pub fn run_prop<T, S>(
        &mut self,
        part: &str,
        cases: u64,
        strategy: impl Fn() -> S + Sync,
        render: impl Fn(&T) -> Value + Sync,
        check: impl Fn(&Value) -> Verdict + Sync,
    ) where
        T: std::fmt::Debug + Clone,
        S: Strategy<Value = T>,
    {
        let t0 = Instant::now();
        let shards = self.threads.max(1) as u64;
        let per = cases.div_ceil(shards);
        let stop = Arc::new(AtomicBool::new(false));
        let merged: Mutex<(Stats, Vec<(u64, Failure)>)> = Mutex::new((Stats::default(), Vec::new()));
        let known = &self.known;
        let seed = self.seed;
        let part_hash = hash_of(&(self.property.as_str(), part));
        let slots: Vec<Mutex<Option<(Instant, Value)>>> = (0..shards).map(|_| Mutex::new(None)).collect();
        let done = AtomicBool::new(false);
        let live = std::sync::atomic::AtomicU64::new(shards);
        let property = self.property.clone();
        std::thread::scope(|scope| {
            {
                let slots = &slots;
                let done = &done;
                let property = property.clone();
                scope.spawn(move || watchdog(&property, done, &|| {
                    slots.iter().filter_map(|s| s.lock().unwrap().clone()).collect()
                }));
            }
            for shard in 0..shards {
                let slots = &slots;
                let done = &done;
                let live = &live;
                let stop = stop.clone();
                let merged = &merged;
                let strategy = &strategy;
                let render = &render;
                let check = &check;
                std::thread::Builder::new()
                    .stack_size(256 << 20)
                    .spawn_scoped(scope, move || {
                        let mut seed_bytes = [0u8; 32];
                        seed_bytes[..8].copy_from_slice(&seed.to_le_bytes());
                        seed_bytes[8..16].copy_from_slice(&shard.to_le_bytes());
                        seed_bytes[16..24].copy_from_slice(&part_hash.to_le_bytes());
                        let config = Config {
                            cases: per as u32,
                            failure_persistence: None,
                            rng_algorithm: RngAlgorithm::ChaCha,
                            rng_seed: RngSeed::Fixed(seed ^ (shard << 32) ^ part_hash),
                            max_shrink_iters: 1500,
                            max_shrink_time: 0,
                            max_global_rejects: 1 << 20,
                            max_local_rejects: 1 << 16,
                            verbose: 0,
                            ..Config::default()
                        };
                        let rng = proptest::test_runner::TestRng::from_seed(RngAlgorithm::ChaCha, &seed_bytes);
                        let mut runner = TestRunner::new_with_rng(config, rng);
                        let stats = RefCell::new(Stats::default());
                        let failed = std::cell::Cell::new(false);
                        let strat = strategy();
                        let result = runner.run(&strat, |value| {
                            if stop.load(Ordering::Relaxed) && !failed.get() {
                                // another shard failed: finish quickly
                                return Ok(());
                            }
                            let record = render(&value);
                            *slots[shard as usize].lock().unwrap() = Some((Instant::now(), record.clone()));
                            let verdict = check(&record);
                            *slots[shard as usize].lock().unwrap() = None;
                            if failed.get() {
                                // shrinking: do not count, only classify
                                return match verdict {
                                    Verdict::Fail { signature, detail } => {
                                        if known.iter().any(|k| k.matches(&signature, &record)) {
                                            Ok(())
                                        } else {
                                            Err(TestCaseError::fail(format!("{}\u{1}{}", signature, detail)))
                                        }
                                    }
                                    _ => Ok(()),
                                };
                            }
                            let mut st = stats.borrow_mut();
                            match Ctx::absorb(&mut st, known, &|| record.clone(), verdict) {
                                None => Ok(()),
                                Some(f) => {
                                    failed.set(true);
                                    stop.store(true, Ordering::Relaxed);
                                    Err(TestCaseError::fail(format!("{}\u{1}{}", f.signature, f.detail)))
                                }
                            }
                        });
                        if live.fetch_sub(1, Ordering::SeqCst) == 1 {
                            done.store(true, Ordering::SeqCst);
                        }
                        let mut m = merged.lock().unwrap();
                        m.0.merge(stats.into_inner());
                        match result {
                            Ok(()) => {}
                            Err(TestError::Fail(reason, value)) => {
                                let msg = reason.message().to_string();
                                let (sig, detail) = match msg.split_once('\u{1}') {
                                    Some((a, b)) => (a.to_string(), b.to_string()),
                                    None => (msg.clone(), String::new()),
                                };
                                m.1.push((shard, Failure { signature: sig, detail, record: render(&value) }));
                            }
                            Err(TestError::Abort(reason)) => {
                                m.1.push((
                                    shard,
                                    Failure {
                                        signature: "INFRA:proptest-abort".to_string(),
                                        detail: reason.message().to_string(),
                                        record: Value::Null,
                                    },
                                ));
                            }
                        }
                    })
                    .unwrap();
            }
        });
        let (stats, mut fails) = merged.into_inner().unwrap();
        let evals = stats.evaluations;
        let nt = stats.nontrivial.len();
        self.stats.merge(stats);
        fails.sort_by_key(|f| f.0);
        for (_, f) in fails {
            if f.signature.starts_with("INFRA:") {
                self.infra_errors.push(format!("{}: {}", f.signature, f.detail));
            } else {
                self.failures.push(f);
            }
        }
        self.parts.push(json!({"part": part, "planned_cases": cases, "evaluations": evals, "distinct_nontrivial": nt,
            "wall_s": t0.elapsed().as_secs_f64()}));
    }

    /// Run an explicit list / enumeration in parallel: `count` items, `make(i)` builds the record.
    pub fn run_enum(
        &mut self,
        part: &str,
        count: u64,
        distinct_by_construction: bool,
        make: impl Fn(u64) -> Value + Sync,
        check: impl Fn(u64) -> Verdict + Sync,
    ) {
        let t0 = Instant::now();
        let shards = self.threads.max(1) as u64;
        let merged: Mutex<(Stats, Vec<(u64, Failure)>)> = Mutex::new((Stats::default(), Vec::new()));
        let known = &self.known;
        let next = std::sync::atomic::AtomicU64::new(0);
        let stop = AtomicBool::new(false);
        const CHUNK: u64 = 512;
        let slots: Vec<(std::sync::atomic::AtomicU64, Mutex<Option<Instant>>)> =
            (0..shards).map(|_| (std::sync::atomic::AtomicU64::new(0), Mutex::new(None))).collect();
        let done = AtomicBool::new(false);
        let live = std::sync::atomic::AtomicU64::new(shards);
        let property = self.property.clone();
        std::thread::scope(|scope| {
            {
                let slots = &slots;
                let done = &done;
                let make = &make;
                let property = property.clone();
                scope.spawn(move || watchdog(&property, done, &|| {
                    slots
                        .iter()
                        .filter_map(|s| s.1.lock().unwrap().map(|t| (t, make(s.0.load(Ordering::SeqCst)))))
                        .collect()
                }));
            }
            for shard in 0..shards {
                let slots = &slots;
                let done = &done;
                let live = &live;
                let merged = &merged;
                let make = &make;
                let check = &check;
                let next = &next;
                let stop = &stop;
                std::thread::Builder::new()
                    .stack_size(256 << 20)
                    .spawn_scoped(scope, move || {
                        let mut stats = Stats::default();
                        let mut fails = Vec::new();
                        'outer: loop {
                            let begin = next.fetch_add(CHUNK, Ordering::Relaxed);
                            if begin >= count || stop.load(Ordering::Relaxed) {
                                break;
                            }
                            // the watchdog sees the chunk start; a chunk of 512 cases is far below its limit
                            slots[shard as usize].0.store(begin, Ordering::SeqCst);
                            *slots[shard as usize].1.lock().unwrap() = Some(Instant::now());
                            for i in begin..(begin + CHUNK).min(count) {
                                slots[shard as usize].0.store(i, Ordering::Relaxed);
                                let mut verdict = check(i);
                                if distinct_by_construction {
                                    if let Verdict::Pass { nontrivial, .. } = &mut verdict {
                                        if nontrivial.take().is_some() {
                                            stats.nontrivial_by_construction += 1;
                                            if stats.samples.len() < 3 && i % 9973 == 17 {
                                                stats.samples.push(make(i));
                                            }
                                        }
                                    }
                                }
                                if let Some(f) = Ctx::absorb(&mut stats, known, &|| make(i), verdict) {
                                    if std::env::var("VERIF_KEEP_GOING").is_ok() {
                                        // exploration aid: list every failing case, do not stop
                                        eprintln!("FAILCASE {} {} || {}", i, f.signature, f.detail.lines().take(6).collect::<Vec<_>>().join(" | "));
                                        if fails.is_empty() {
                                            fails.push((i, f));
                                        }
                                        continue;
                                    }
                                    fails.push((i, f));
                                    stop.store(true, Ordering::Relaxed);
                                    break 'outer;
                                }
                            }
                        }
                        *slots[shard as usize].1.lock().unwrap() = None;
                        if live.fetch_sub(1, Ordering::SeqCst) == 1 {
                            done.store(true, Ordering::SeqCst);
                        }
                        let mut m = merged.lock().unwrap();
                        m.0.merge(stats);
                        m.1.extend(fails);
                    })
                    .unwrap();
            }
        });
        let (stats, mut fails) = merged.into_inner().unwrap();
        let evals = stats.evaluations;
        let nt = stats.nontrivial.len() as u64 + stats.nontrivial_by_construction;
        self.stats.merge(stats);
        fails.sort_by_key(|f| f.0);
        // enumeration order is smallest-first, so the lowest index is the minimal reproduction
        if let Some((_, f)) = fails.into_iter().next() {
            self.failures.push(f);
        }
        self.parts.push(json!({"part": part, "planned_cases": count, "evaluations": evals, "distinct_nontrivial": nt,
            "wall_s": t0.elapsed().as_secs_f64()}));
    }

    /// Check a single record on the calling thread (used by replay tiers and fixed lists).
    pub fn run_one(&mut self, record: &Value, check: &dyn Fn(&Value) -> Verdict) {
        let verdict = check(record);
        let known = self.known.clone();
        if let Some(f) = Ctx::absorb(&mut self.stats, &known, &|| record.clone(), verdict) {
            self.failures.push(f);
        }
    }

    /// Write evidence + replay files, print VIOLATION lines, return the exit code.
    pub fn finish(mut self) -> i32 {
        let wall = self.start.elapsed().as_secs_f64();
        // known findings seen during the random search but not printed by the replay tier
        let hits: Vec<String> = self.stats.known_hits.keys().cloned().collect();
        for id in hits {
            if let Some(k) = self.known.iter().find(|k| k.id == id).cloned() {
                self.print_known(&k);
            }
        }
        let mut replay_paths = Vec::new();
        // VERIF_NO_EVIDENCE=1 (mutation trials): keep /verif/evidence and /verif/replays untouched
        let scratch = std::env::var("VERIF_NO_EVIDENCE").is_ok();
        let out_base = if scratch { "/tmp/verif-scratch".to_string() } else { VERIF_DIR.to_string() };
        let dir = format!("{}/replays/{}", out_base, self.property);
        let mut seen_sig = HashSet::new();
        for f in &self.failures {
            if !seen_sig.insert(f.signature.clone()) {
                continue;
            }
            let _ = std::fs::create_dir_all(&dir);
            let h = hash_of(&f.record.to_string());
            let path = format!("{}/fail-{:016x}.json", dir, h);
            let body = json!({
                "property": self.property,
                "signature": f.signature,
                "detail": f.detail,
                "seed": self.seed,
                "tier": self.tier.name(),
                "record": f.record,
            });
            let _ = std::fs::write(&path, serde_json::to_string_pretty(&body).unwrap());
            println!("VIOLATION property={} replay={}", self.property, path);
            println!("  signature: {}", f.signature);
            for line in f.detail.lines().take(40) {
                println!("  | {}", line);
            }
            replay_paths.push(path);
        }
        let mut coverage = serde_json::Map::new();
        coverage.insert("evaluations".into(), json!(self.stats.evaluations));
        coverage.insert(
            "distinct_nontrivial".into(),
            json!(self.stats.nontrivial.len() as u64 + self.stats.nontrivial_by_construction),
        );
        coverage.insert("nontrivial_total".into(), json!(self.stats.nontrivial_total));
        coverage.insert("rule".into(), json!(self.rule));
        coverage.insert("samples".into(), json!(self.stats.samples));
        coverage.insert("labels".into(), json!(self.stats.labels));
        coverage.insert("skipped".into(), json!(self.stats.skips));
        coverage.insert("skipped_samples".into(), json!(self.stats.skip_samples));
        coverage.insert("known_finding_hits".into(), json!(self.stats.known_hits));
        coverage.insert("parts".into(), json!(self.parts));
        for (k, v) in &self.extra {
            coverage.insert(k.clone(), v.clone());
        }
        let evidence = json!({
            "property_id": self.property,
            "tier": self.tier.name(),
            "seed": self.seed,
            "level": self.level,
            "coverage": Value::Object(coverage),
            "assumptions": self.assumptions,
            "wall_s": wall,
            "violations": replay_paths.len(),
            "infrastructure_errors": self.infra_errors,
        });
        let _ = std::fs::create_dir_all(format!("{}/evidence", out_base));
        let path = format!("{}/evidence/{}.json", out_base, self.property);
        if let Err(e) = std::fs::write(&path, serde_json::to_string_pretty(&evidence).unwrap()) {
            eprintln!("cannot write {}: {}", path, e);
            return 2;
        }
        println!(
            "{} tier={} seed={} evaluations={} distinct_nontrivial={} known_hits={} skipped={} wall={:.1}s",
            self.property,
            self.tier.name(),
            self.seed,
            self.stats.evaluations,
            self.stats.nontrivial.len() as u64 + self.stats.nontrivial_by_construction,
            self.stats.known_hits.values().sum::<u64>(),
            self.stats.skips.values().sum::<u64>(),
            wall
        );
        if !replay_paths.is_empty() {
            return 1;
        }
        if !self.infra_errors.is_empty() {
            for e in &self.infra_errors {
                eprintln!("INFRASTRUCTURE: {}", e);
            }
            return 2;
        }
        0
    }

    /// Self-check: a generator class that should be exercised but was not is an infrastructure error.
    pub fn require_label(&mut self, label: &str, min: u64) {
        let n = self.stats.labels.get(label).copied().unwrap_or(0);
        if n < min {
            self.infra_errors.push(format!("generator class '{}' seen {} times, expected at least {}", label, n, min));
        }
    }
}

/// Limit for a single case before the run is declared inconclusive (exit 2): the code under test
/// does not terminate (or is pathologically slow) on the in-flight input. Never a VIOLATION here;
/// C08, whose subject is termination, supervises child processes instead.
pub fn watchdog_limit() -> std::time::Duration {
    std::time::Duration::from_secs(std::env::var("VERIF_WATCHDOG_S").ok().and_then(|s| s.parse().ok()).unwrap_or(90))
}

fn watchdog(property: &str, done: &AtomicBool, inflight: &dyn Fn() -> Vec<(Instant, Value)>) {
    let limit = watchdog_limit();
    while !done.load(Ordering::SeqCst) {
        std::thread::sleep(std::time::Duration::from_millis(200));
        for (t, rec) in inflight() {
            if t.elapsed() > limit {
                let dir = "/tmp/verif-scratch/hangs";
                let _ = std::fs::create_dir_all(dir);
                let path = format!("{}/{}-{:016x}.json", dir, property, hash_of(&rec.to_string()));
                let _ = std::fs::write(&path, serde_json::to_string_pretty(&json!({"property": property, "record": rec})).unwrap());
                eprintln!(
                    "INFRASTRUCTURE: watchdog: one case of {} has been running for more than {} s (non-termination or pathological slowness in the code under test); in-flight input saved to {}; run is inconclusive",
                    property,
                    limit.as_secs(),
                    path
                );
                std::process::exit(2);
            }
        }
    }
}

/// Run one generated value (no shrinking) — helper for strategies used outside `run_prop`.
pub fn sample_strategy<S: Strategy>(s: &S, seed: u64, n: usize) -> Vec<S::Value> {
    let mut seed_bytes = [0u8; 32];
    seed_bytes[..8].copy_from_slice(&seed.to_le_bytes());
    let rng = proptest::test_runner::TestRng::from_seed(RngAlgorithm::ChaCha, &seed_bytes);
    let mut runner = TestRunner::new_with_rng(Config::default(), rng);
    (0..n).map(|_| s.new_tree(&mut runner).unwrap().current()).collect()
}

// ---------------------------------------------------------------------------------------------
// Small helpers for talking to rssl

use rssl::text::{FileData, IncludeError, IncludeHandler};

/// Include handler over an in-memory list of (name, contents).
pub struct MemFiles(pub Vec<(String, String)>);

impl IncludeHandler for MemFiles {
    fn load(&mut self, file_name: &str, _parent: &str) -> Result<FileData, IncludeError> {
        for (n, c) in &self.0 {
            if n == file_name {
                return Ok(FileData { real_name: n.clone(), contents: c.clone() });
            }
        }
        Err(IncludeError::FileNotFound)
    }
}

#[derive(Copy, Clone, Debug, PartialEq, Eq, Hash)]
pub enum Tgt {
    Dx,
    Vk,
    VkBa,
    Msl,
    MetalBytecode,
}

impl Tgt {
    pub const ALL4: [Tgt; 4] = [Tgt::Dx, Tgt::Vk, Tgt::VkBa, Tgt::Msl];
    pub fn name(self) -> &'static str {
        match self {
            Tgt::Dx => "dx",
            Tgt::Vk => "vk",
            Tgt::VkBa => "vkba",
            Tgt::Msl => "msl",
            Tgt::MetalBytecode => "metalbc",
        }
    }
    pub fn from_name(s: &str) -> Tgt {
        match s {
            "dx" => Tgt::Dx,
            "vk" => Tgt::Vk,
            "vkba" => Tgt::VkBa,
            "msl" => Tgt::Msl,
            "metalbc" => Tgt::MetalBytecode,
            _ => panic!("bad target {}", s),
        }
    }
    pub fn target(self) -> rssl::Target {
        match self {
            Tgt::Dx => rssl::Target::HlslForDirectX,
            Tgt::Vk | Tgt::VkBa => rssl::Target::HlslForVulkan,
            Tgt::Msl => rssl::Target::Msl,
            Tgt::MetalBytecode => rssl::Target::MetalBytecode,
        }
    }
    pub fn is_hlsl(self) -> bool {
        matches!(self, Tgt::Dx | Tgt::Vk | Tgt::VkBa)
    }
}

#[derive(Clone, Debug, PartialEq, Eq)]
pub enum Mode {
    All,
    Named(String),
    NoPipeline,
}

pub struct CompileOut {
    pub pipelines: Vec<rssl::CompiledPipeline>,
}

#[derive(Clone, Debug)]
pub struct CompileReq<'a> {
    pub files: &'a [(String, String)],
    pub entry: &'a str,
    pub defines: &'a [(String, String)],
    pub tgt: Tgt,
    pub mode: Mode,
    pub validate_layout: bool,
}

/// Call rssl::compile. Outer Err = panic (file: message); inner Err = rendered diagnostic.
pub fn compile(req: &CompileReq) -> Result<Result<Vec<rssl::CompiledPipeline>, String>, String> {
    let mut files = MemFiles(req.files.to_vec());
    let defines: Vec<(&str, &str)> = req.defines.iter().map(|(a, b)| (a.as_str(), b.as_str())).collect();
    guard(|| {
        let mut args = rssl::CompileArgs::new(req.entry, &mut files, req.tgt.target()).defines(&defines);
        if req.tgt == Tgt::VkBa {
            args = args.support_buffer_address(true);
        }
        match &req.mode {
            Mode::All => {}
            Mode::Named(n) => args = args.pipeline_name(Some(n.as_str())),
            Mode::NoPipeline => args = args.no_pipeline_mode(),
        }
        if req.validate_layout {
            args = args.validate_layout_consistency(true);
        }
        match rssl::compile(args) {
            Ok(p) => Ok(p),
            Err(e) => Err(e.to_string()),
        }
    })
}

/// Convenience: compile one source text in no-pipeline mode.
pub fn compile_text(src: &str, tgt: Tgt) -> Result<Result<Vec<rssl::CompiledPipeline>, String>, String> {
    let files = vec![("main.rssl".to_string(), src.to_string())];
    compile(&CompileReq { files: &files, entry: "main.rssl", defines: &[], tgt, mode: Mode::NoPipeline, validate_layout: false })
}

pub fn pipeline_text(p: &rssl::CompiledPipeline) -> String {
    String::from_utf8_lossy(&p.data).to_string()
}

/// Monotone index mapping for shrinking-friendly choice from a slice.
pub fn pick<'a, T>(items: &'a [T], raw: u16) -> &'a T {
    let i = ((raw as usize) * items.len()) >> 16;
    &items[i.min(items.len() - 1)]
}

/// Everything observable about one compiled pipeline, as text (used to compare results).
pub fn pipeline_snapshot(p: &rssl::CompiledPipeline) -> String {
    let stages: Vec<String> = p.stages.iter().map(|s| format!("{:?}/{}/{:?}", s.stage, s.entry_point, s.thread_group_size)).collect();
    format!(
        "DATA:\n{}\nSTAGES: {:?}\nMETADATA: {:?}\nSTATE: {:?}\n",
        String::from_utf8_lossy(&p.data),
        stages,
        p.metadata,
        p.graphics_pipeline_state
    )
}

/// Snapshot of a whole compile() result: Ok(list of pipeline snapshots) or Err(diagnostic).
pub fn result_snapshot(r: &Result<Vec<rssl::CompiledPipeline>, String>) -> Result<Vec<String>, String> {
    match r {
        Ok(ps) => Ok(ps.iter().map(pipeline_snapshot).collect()),
        Err(e) => Err(e.clone()),
    }
}

/// Is this diagnostic produced by a back end (exporter) rather than the shared front end?
pub fn is_backend_error(msg: &str) -> bool {
    msg.contains("hlsl generate:") || msg.contains("hlsl format:") || msg.contains("metal generate:") || msg.contains("metal format:")
}

/// Front end only: source text -> typed IR. Outer Err = panic, inner Err = rendered diagnostic.
pub fn type_check_text(src: &str) -> Result<Result<rssl::ir::Module, String>, String> {
    let src = src.to_string();
    guard(move || {
        use rssl::text::CompileErrorExt;
        let mut sm = rssl::text::SourceManager::new();
        let mut files = MemFiles(vec![("main.rssl".to_string(), src)]);
        let defines = [("__HLSL_VERSION", "2021"), ("RSSL_TARGET_HLSL", "1"), ("RSSL_TARGET_MSL", "0")];
        let tokens = match rssl::preprocess::preprocess("main.rssl", &mut sm, &mut files, &defines) {
            Ok(t) => t,
            Err(e) => return Err(format!("{}", e.display(&sm))),
        };
        let tokens = rssl::preprocess::prepare_tokens(&tokens);
        let ast = match rssl::parser::parse(&tokens) {
            Ok(a) => a,
            Err(e) => return Err(format!("{}", e.display(&sm))),
        };
        match rssl::typer::type_check(&ast) {
            Ok(m) => Ok(m),
            Err(e) => Err(format!("{}", e.display(&sm))),
        }
    })
}
