//! C10 — lexing is lossless and numeric literals are exact.
//!
//! Oracles: span tiling (contiguous, ordered, covering), exact integer values computed in u128,
//! Rust's correctly rounded `str::parse::<f64>()` for float literals, and survival of the value
//! into the emitted HLSL text.

use crate::common::*;
use crate::progen;
use proptest::prelude::*;
use rssl::preprocess::PreprocessError;
use rssl::text::tokens::Token;
use rssl::text::{Locate, LocateEnd, SourceLocation};
use serde_json::{Value, json};

// ---------------------------------------------------------------------------------------------
// (a) tiling

const PUNCT: &[&str] = &[
    "{", "}", "(", ")", "[", "]", "<", ">", ";", ",", "?", "+", "++", "+=", "-", "--", "-=", "/", "/=", "%", "%=", "*", "*=", "|",
    "||", "|=", "&", "&&", "&=", "^", "^=", "=", "==", "@", "!", "!=", "~", ".", ":", "::", "#", "##",
];

const WORDS: &[&str] = &[
    "if", "else", "for", "while", "do", "switch", "return", "break", "continue", "discard", "case", "default", "struct", "enum",
    "typedef", "cbuffer", "register", "packoffset", "namespace", "in", "out", "inout", "const", "volatile", "row_major",
    "column_major", "unorm", "snorm", "extern", "static", "inline", "groupshared", "constexpr", "sizeof", "template", "typename",
    "decltype", "true", "false", "iff", "returnx", "structs", "_if", "float4", "x", "y1", "Texture2D", "defined", "auto", "class",
];

const TRIVIA: &[&str] = &[
    " ", "  ", "\t", "\n", "\r\n", "\n\n", "// c\n", "// /* not open\n", "//\n", "/**/", "/* c */", "/* // */", "/* a\nb */", "/* a\r\nb **/",
    "\\\n", "\\\r\n", " \\\n ", "/* * / */", "//c\r\n",
    // comments whose text begins or ends with the delimiter characters
    "/*/ a */", "/*/*/", "/***/", "/* /* */", "/*//*/", "/*/\n*/", "/* \" */", "/* ' */", "// */\n", "/// \"\n", "/* *//**/", "/*/ */ ",
];

#[derive(Clone, Debug)]
pub struct SoupCase {
    pieces: Vec<(String, String)>,
    lead: String,
    final_newline: bool,
    separated: bool,
}

fn ident_strategy() -> impl Strategy<Value = String> {
    prop_oneof![
        3 => "[A-Za-z_][A-Za-z0-9_]{0,8}".prop_filter("macro", |s| s != "__HLSL_VERSION"),
        2 => any::<u16>().prop_map(|r| pick(WORDS, r).to_string()),
    ]
}

fn number_strategy() -> impl Strategy<Value = String> {
    prop_oneof![
        "[1-9][0-9]{0,9}(u|U|l|L|ul|UL|)?",
        "0x[0-9a-fA-F]{1,8}(u|)?",
        "0[0-7]{0,6}",
        "[0-9]{1,6}\\.[0-9]{1,6}(e[+-]?[0-9]{1,2})?(f|h|F|L|)?",
        "[0-9]{1,4}e[+-]?[0-9]{1,2}(f|)?",
        "[0-9]{1,4}\\.(f|h|)?",
    ]
}

fn piece_strategy() -> impl Strategy<Value = String> {
    prop_oneof![
        4 => ident_strategy(),
        4 => any::<u16>().prop_map(|r| pick(PUNCT, r).to_string()),
        2 => number_strategy(),
        1 => "\"[ !#-\\[\\]-~]{0,10}\"",
    ]
}

fn trivia_strategy(allow_empty: bool) -> impl Strategy<Value = String> {
    proptest::collection::vec(any::<u16>(), if allow_empty { 0..3 } else { 1..4 })
        .prop_map(|v| v.iter().map(|r| *pick(TRIVIA, *r)).collect::<String>())
}

fn soup_strategy() -> impl Strategy<Value = SoupCase> {
    any::<bool>().prop_flat_map(|separated| {
        (
            proptest::collection::vec((piece_strategy(), trivia_strategy(!separated)), 1..40),
            trivia_strategy(true),
            any::<bool>(),
        )
            .prop_map(move |(pieces, lead, final_newline)| SoupCase { pieces, lead, final_newline, separated })
    })
}

fn render_soup(c: &SoupCase) -> (String, Vec<String>) {
    let mut s = c.lead.clone();
    let mut expect = Vec::new();
    let mut prev_trivia: Option<&str> = None;
    for (p, t) in &c.pieces {
        // a `#` that is first on its line starts a directive (comments before it do not count): keep `#`
        // only when a token precedes it with no line break of any kind in between
        let mid_line = matches!(prev_trivia, Some(tr) if !tr.contains('\n'));
        let p = if (p == "#" || p == "##") && (!mid_line || !c.separated) { "@".to_string() } else { p.clone() };
        prev_trivia = Some(t.as_str());
        // a line comment directly before a splice would extend over the next line: C semantics, not generated
        s.push_str(&p);
        if c.separated && p.ends_with('/') && t.starts_with('/') {
            // `/` directly before a comment would open a comment itself
            s.push(' ');
        }
        expect.push(p);
        s.push_str(t);
    }
    if c.final_newline && !s.ends_with('\n') {
        s.push('\n');
    }
    (s, expect)
}

fn err_location(e: &PreprocessError) -> Option<SourceLocation> {
    use PreprocessError::*;
    match e {
        LexerError(l) => Some(l.location),
        UnknownCommand(l) | InvalidInclude(l) | InvalidDefine(l) | InvalidUndef(l) | ConcatMissingLeftToken(l)
        | ConcatMissingRightToken(l) | ConcatFailed(l) | FailedToParseIfCondition(l) | InvalidIfdef(l) | InvalidIfndef(l)
        | InvalidElse(l) | InvalidEndIf(l) | UnknownPragma(l) => Some(*l),
        FailedToFindFile(l, _, _) => Some(*l),
        _ => None,
    }
}

fn lex(text: &str) -> Result<Result<Vec<(Token, u32, u32)>, PreprocessError>, String> {
    guard(|| {
        let mut sm = rssl::text::SourceManager::new();
        match rssl::preprocess::preprocess_fragment(text, rssl::text::FileName("t.rssl".into()), &mut sm) {
            Ok(toks) => Ok(toks.iter().map(|t| (t.0.clone(), t.get_location().get_raw(), t.get_end_location().get_raw())).collect()),
            Err(e) => Err(e),
        }
    })
}

fn check_tiling(text: &str, expect: Option<&[String]>) -> Verdict {
    let r = match lex(text) {
        Ok(r) => r,
        Err(p) => return Verdict::fail(format!("panic:{}", p), format!("input: {:?}", text)),
    };
    let len = text.len() as u32;
    match r {
        Err(e) => {
            if let Some(loc) = err_location(&e) {
                if loc != SourceLocation::UNKNOWN && loc.get_raw() > len {
                    return Verdict::fail("tiling:diagnostic-outside-file", format!("input: {:?}\nerror {:?} at {} > len {}", text, e, loc.get_raw(), len));
                }
            }
            if expect.is_some() {
                // separated single tokens must lex
                return Verdict::fail("tiling:separated-tokens-rejected", format!("input: {:?}\nerror {:?}", text, e));
            }
            Verdict::pass(None, vec!["lex_error(position checked)".into()])
        }
        Ok(toks) => {
            let mut pos = 0u32;
            let mut rebuilt = String::new();
            let mut kinds = [false; 5];
            let mut nonws = Vec::new();
            for (i, (tok, s, e)) in toks.iter().enumerate() {
                if *s != pos || e < s || *e > len {
                    return Verdict::fail(
                        "tiling:gap-or-overlap",
                        format!("input: {:?}\ntoken #{} {:?} spans [{},{}) but previous ended at {} (len {})", text, i, tok, s, e, pos, len),
                    );
                }
                let slice = &text[*s as usize..*e as usize];
                rebuilt.push_str(slice);
                pos = *e;
                match tok {
                    Token::Whitespace => kinds[0] = true,
                    Token::Endline => kinds[1] = true,
                    Token::PhysicalEndline => kinds[2] = true,
                    Token::Comment => {
                        if slice.starts_with("//") {
                            kinds[3] = true
                        } else {
                            kinds[4] = true
                        }
                    }
                    _ => nonws.push((tok.clone(), slice.to_string())),
                }
                if *e == *s && !(matches!(tok, Token::Endline) && *s == len) {
                    return Verdict::fail("tiling:empty-token", format!("input: {:?}\ntoken #{} {:?} is empty at {}", text, i, tok, s));
                }
            }
            if pos != len || rebuilt != text {
                return Verdict::fail("tiling:not-covering", format!("input: {:?}\nspans end at {} of {}", text, pos, len));
            }
            if let Some(exp) = expect {
                let got: Vec<&str> = nonws.iter().map(|x| x.1.as_str()).collect();
                let want: Vec<&str> = exp.iter().map(|x| x.as_str()).collect();
                if got != want {
                    return Verdict::fail("tiling:token-boundaries", format!("input: {:?}\nexpected tokens {:?}\ngot {:?}", text, want, got));
                }
            }
            let nk = kinds.iter().filter(|k| **k).count();
            let nontrivial = nonws.len() >= 12 && nk >= 3;
            let mut labels = vec![if expect.is_some() { "soup_separated".to_string() } else { "soup_adjacent".to_string() }];
            if kinds[2] {
                labels.push("has_splice".into());
            }
            if text.contains("\r\n") {
                labels.push("has_crlf".into());
            }
            Verdict::pass(if nontrivial { Some(hash_of(text)) } else { None }, labels)
        }
    }
}

// ---------------------------------------------------------------------------------------------
// (b) integers

#[derive(Clone, Debug)]
pub struct IntCase {
    digits: String, // without prefix
    radix: u32,
    suffix: String,
    upper_prefix: bool, // 0X instead of 0x
}

const INT_SUFFIX: &[&str] = &["", "", "u", "U", "l", "L", "ul", "UL", "lu", "LU", "uL", "Ul", "lU", "Lu"];

fn int_strategy() -> impl Strategy<Value = IntCase> {
    let boundary: Vec<u128> = vec![
        0, 1, 7, 8, 9, 10, 255, 256, (1 << 31) - 1, 1 << 31, (1 << 31) + 1, (1 << 32) - 1, 1 << 32, (1 << 32) + 1, (1u128 << 63) - 1,
        1u128 << 63, (1u128 << 63) + 1, (1u128 << 64) - 1, 1u128 << 64, (1u128 << 64) + 1, 10u128.pow(19), 10u128.pow(20),
        10u128.pow(24), 18446744073709551615, 18446744073709551616, 18446744073709551625, 99999999999999999999, (1u128 << 65), (1u128 << 68) + 5,
    ];
    let value = prop_oneof![
        3 => any::<u16>().prop_map(move |r| *pick(&boundary, r)),
        2 => any::<u64>().prop_map(|v| v as u128),
        2 => any::<u32>().prop_map(|v| v as u128),
        1 => (any::<u64>(), 0u32..20).prop_map(|(v, s)| (v as u128) << s),
        1 => (any::<u128>(), 40u32..128).prop_map(|(v, s)| v >> s),
    ];
    (value, 0u8..3, any::<u16>(), any::<bool>(), 0usize..3, 0u8..4).prop_map(|(v, radix, suf, upper, lead_zero, upfx)| {
        let (radix, mut digits) = match radix {
            0 => (10, v.to_string()),
            1 => (16, if upper { format!("{:X}", v) } else { format!("{:x}", v) }),
            _ => (8, format!("{:o}", v)),
        };
        if radix != 10 {
            // leading zeros are allowed in hex and octal spellings (up to 25 digits)
            for _ in 0..lead_zero {
                if digits.len() < 25 {
                    digits.insert(0, '0');
                }
            }
        }
        digits.truncate(25);
        IntCase { digits, radix, suffix: pick(INT_SUFFIX, suf).to_string(), upper_prefix: radix == 16 && upfx == 0 }
    })
}

fn int_text(c: &IntCase) -> String {
    match c.radix {
        16 => format!("{}{}{}", if c.upper_prefix { "0X" } else { "0x" }, c.digits, c.suffix),
        8 => format!("0{}{}", c.digits, c.suffix),
        _ => format!("{}{}", c.digits, c.suffix),
    }
}

fn check_int(digits: &str, radix: u32, suffix: &str, upper_prefix: bool) -> Verdict {
    let text = match radix {
        16 => format!("{}{}{}", if upper_prefix { "0X" } else { "0x" }, digits, suffix),
        8 => format!("0{}{}", digits, suffix),
        _ => format!("{}{}", digits, suffix),
    };
    let exact = u128::from_str_radix(digits, radix).expect("generator: digits");
    let src = format!("{}\n", text);
    let r = match lex(&src) {
        Ok(r) => r,
        Err(p) => return Verdict::fail(format!("panic:{}", p), format!("literal: {}", text)),
    };
    let fits = exact <= u64::MAX as u128;
    let sfx = suffix.to_ascii_lowercase();
    let kind = match sfx.as_str() {
        "" => "int",
        "u" => "u32",
        "l" => "i64",
        _ => "u64",
    };
    let mut labels = vec![format!("int_radix{}_{}", radix, kind)];
    if upper_prefix && radix == 16 {
        labels.push("int_upper_case_hex_prefix".into());
    }
    match r {
        Err(e) => {
            if fits {
                return Verdict::fail("int:rejected-although-fits", format!("literal {} (= {}) rejected: {:?}", text, exact, e));
            }
            labels.push("int_too_large_rejected".into());
            Verdict::pass(Some(hash_of(&text)), labels)
        }
        Ok(toks) => {
            let nonws: Vec<&(Token, u32, u32)> = toks.iter().filter(|t| !t.0.is_whitespace()).collect();
            if !fits {
                return Verdict::fail(
                    "int:too-large-accepted",
                    format!("literal {} (= {} >= 2^64) accepted as {:?}", text, exact, nonws.iter().map(|t| &t.0).collect::<Vec<_>>()),
                );
            }
            if nonws.len() != 1 {
                return Verdict::fail("int:not-one-token", format!("literal {} lexed as {:?}", text, nonws.iter().map(|t| &t.0).collect::<Vec<_>>()));
            }
            let v = exact as u64;
            let ok = match (&nonws[0].0, kind) {
                (Token::LiteralInt(x), "int") => *x == v,
                (Token::LiteralIntUnsigned32(x), "u32") => *x == v,
                (Token::LiteralIntUnsigned64(x), "u64") => *x == v,
                (Token::LiteralIntSigned64(x), "i64") => {
                    if exact >= (1u128 << 63) {
                        // the property does not say whether "fits in 64 bits" is signed for the L suffix
                        return Verdict::Skip("L-suffixed value in [2^63,2^64): outside the checked domain".into());
                    }
                    *x == v as i64
                }
                _ => false,
            };
            if !ok {
                return Verdict::fail("int:wrong-value", format!("literal {} (= {}) lexed as {:?}", text, exact, nonws[0].0));
            }
            let nontrivial = exact > 999 || radix != 10;
            Verdict::pass(if nontrivial { Some(hash_of(&text)) } else { None }, labels)
        }
    }
}

// ---------------------------------------------------------------------------------------------
// (c) floats

#[derive(Clone, Debug)]
pub struct FloatCase {
    whole: String,
    frac: Option<String>,
    exp: Option<(String, i32)>, // sign spelling, magnitude
    suffix: String,
}

fn digits_str(max: usize) -> impl Strategy<Value = String> {
    prop_oneof![
        3 => proptest::collection::vec(0u8..10, 1..=max).prop_map(|v| v.iter().map(|d| (b'0' + d) as char).collect::<String>()),
        1 => Just("0".to_string()),
        1 => Just("1".to_string()),
        1 => (1usize..=max).prop_map(|n| "9".repeat(n)),
        1 => (1usize..=max).prop_map(|n| format!("{}5", "0".repeat(n - 1))),
    ]
}

fn float_strategy() -> impl Strategy<Value = FloatCase> {
    let special = prop_oneof![
        Just(("0", Some("0031308"), None)),
        Just(("0", Some("055"), None)),
        Just(("2", Some("2250738585072014"), Some(-308))),
        Just(("1", Some("7976931348623157"), Some(308))),
        Just(("4", Some("9"), Some(-324))),
        Just(("2", Some("4703282292062327"), Some(-324))),
        Just(("2", Some("4703282292062328"), Some(-324))),
        Just(("1", None, Some(-320))),
        Just(("1", None, Some(309))),
        Just(("1", Some("8"), Some(308))),
        Just(("3", Some("4028235"), Some(38))),
        Just(("3", Some("4028236"), Some(38))),
        Just(("1", Some("17549435"), Some(-38))),
        Just(("1", Some("401298464324817"), Some(-45))),
        Just(("0", Some("1"), None)),
        Just(("0", Some("3"), None)),
        Just(("9007199254740993", None, Some(0))),
        Just(("1", Some("00000005960464477539"), None)),
        Just(("16777217", Some("0"), None)),
        Just(("5", Some("0"), Some(-324))),
        Just(("65504", Some("0"), None)),
    ]
    .prop_map(|(w, f, e): (&str, Option<&str>, Option<i32>)| FloatCase {
        whole: w.to_string(),
        frac: f.map(String::from),
        exp: e.map(|e| (if e < 0 { "-".to_string() } else { "".to_string() }, e.abs())),
        suffix: String::new(),
    });
    let general = (1usize..=20).prop_flat_map(|sig| {
        let wlen = 1usize.max(sig / 2);
        (
            digits_str(wlen.min(20)),
            proptest::option::weighted(0.8, digits_str((sig - sig / 2).max(1))),
            proptest::option::weighted(0.6, (prop_oneof![Just(""), Just("+"), Just("-")], prop_oneof![3 => 0i32..40, 2 => 280i32..331, 1 => 0i32..331])),
        )
            .prop_map(|(whole, frac, exp)| FloatCase {
                whole,
                frac,
                exp: exp.map(|(s, m)| (s.to_string(), if s == "-" { m.min(330) } else { m.min(310) })),
                suffix: String::new(),
            })
    });
    (prop_oneof![1 => special, 6 => general], prop_oneof![3 => Just(""), 2 => Just("f"), 1 => Just("F"), 1 => Just("h"), 1 => Just("H"), 1 => Just("L"), 1 => Just("l")], any::<bool>())
        .prop_map(|(mut c, s, upper_e)| {
            c.suffix = s.to_string();
            if c.frac.is_none() && c.exp.is_none() {
                // `123` is an integer, `123.` is the float spelling
                c.frac = Some(String::new());
            }
            if upper_e {
                if let Some((s, _)) = &mut c.exp {
                    s.insert(0, 'E');
                }
            }
            c
        })
}

fn float_text(c: &FloatCase) -> (String, String) {
    // (spelling without suffix, suffix)
    let mut s = c.whole.clone();
    if let Some(f) = &c.frac {
        s.push('.');
        s.push_str(f);
    }
    if let Some((sign, m)) = &c.exp {
        if let Some(rest) = sign.strip_prefix('E') {
            s.push('E');
            s.push_str(rest);
        } else {
            s.push('e');
            s.push_str(sign);
        }
        s.push_str(&m.to_string());
    }
    (s, c.suffix.clone())
}

fn check_float(body: &str, suffix: &str) -> Verdict {
    let text = format!("{}{}", body, suffix);
    // Rust accepts `1.` and `1.e5`; it is the correctly rounded reference
    let exact: f64 = match body.parse::<f64>() {
        Ok(v) => v,
        Err(_) => return Verdict::Skip("reference cannot parse spelling".into()),
    };
    let src = format!("{}\n", text);
    let r = match lex(&src) {
        Ok(r) => r,
        Err(p) => return Verdict::fail(format!("panic:{}", p), format!("literal: {}", text)),
    };
    let toks = match r {
        Ok(t) => t,
        Err(e) => return Verdict::fail("float:rejected", format!("literal {} rejected: {:?}", text, e)),
    };
    let nonws: Vec<&(Token, u32, u32)> = toks.iter().filter(|t| !t.0.is_whitespace()).collect();
    if nonws.len() != 1 {
        return Verdict::fail("float:not-one-token", format!("literal {} lexed as {:?}", text, nonws.iter().map(|t| &t.0).collect::<Vec<_>>()));
    }
    let sfx = suffix.to_ascii_lowercase();
    let ok = match (&nonws[0].0, sfx.as_str()) {
        (Token::LiteralFloat(v), "") => v.to_bits() == exact.to_bits(),
        (Token::LiteralFloat64(v), "l") => v.to_bits() == exact.to_bits(),
        (Token::LiteralFloat32(v), "f") => v.to_bits() == (exact as f32).to_bits(),
        (Token::LiteralFloat16(v), "h") => v.to_bits() == (exact as f32).to_bits(),
        _ => false,
    };
    if !ok {
        let got = match &nonws[0].0 {
            Token::LiteralFloat(v) | Token::LiteralFloat64(v) => format!("{:e} (bits {:016x}), exact {:e} (bits {:016x})", v, v.to_bits(), exact, exact.to_bits()),
            Token::LiteralFloat32(v) | Token::LiteralFloat16(v) => {
                format!("{:e} (bits {:08x}), exact {:e} (bits {:08x})", v, v.to_bits(), exact as f32, (exact as f32).to_bits())
            }
            t => format!("{:?}", t),
        };
        let class = if exact == 0.0 || exact.is_infinite() || exact.abs() < f64::MIN_POSITIVE { "edge" } else { "normal" };
        return Verdict::fail(format!("float:wrong-value:{}", class), format!("literal {} read as {}", text, got));
    }
    let mut labels = vec![format!("float_suffix_{}", if sfx.is_empty() { "none" } else { &sfx })];
    if exact != 0.0 && exact.abs() < f64::MIN_POSITIVE {
        labels.push("float_denormal".into());
    }
    if exact.is_infinite() {
        labels.push("float_overflow_to_inf".into());
    }
    // non-trivial: not representable with <= 3 significant decimal digits
    let short = format!("{:e}", exact);
    let mant_digits = short.split('e').next().unwrap_or("").chars().filter(|c| c.is_ascii_digit()).count();
    Verdict::pass(if mant_digits > 3 { Some(hash_of(&text)) } else { None }, labels)
}

// ---------------------------------------------------------------------------------------------
// survival into the output

fn check_survival(kind: &str, body: &str) -> Verdict {
    // kind: f | h | L | untyped_float | u | int
    let (ty, lit) = match kind {
        "f" => ("float", format!("{}f", body)),
        "h" => ("half", format!("{}h", body)),
        "L" => ("double", format!("{}L", body)),
        "untyped_float" => ("float", body.to_string()),
        "untyped_double" => ("double", body.to_string()),
        "u" => ("uint", format!("{}u", body)),
        _ => ("int", body.to_string()),
    };
    let src = format!("{} f() {{ return {}; }}\n", ty, lit);
    let out = match compile_text(&src, Tgt::Dx) {
        Err(p) => return Verdict::fail(format!("panic:{}", p), format!("source: {}", src)),
        Ok(Err(_)) if kind == "u" && body.parse::<u64>().map(|v| v > u32::MAX as u64).unwrap_or(false) => {
            // no integer type of the language holds the written value: rejection is the other allowed outcome
            return Verdict::pass(Some(hash_of(&src)), vec!["survival_u_beyond_32_bits_rejected".into()]);
        }
        Ok(Err(e)) => return Verdict::Skip(format!("rejected: {}", normalise_panic(e.lines().next().unwrap_or("")))),
        Ok(Ok(p)) => pipeline_text(&p[0]),
    };
    let Some(i) = out.find("return ") else {
        return Verdict::fail("survival:no-return", format!("source: {}\noutput:\n{}", src, out));
    };
    let rest = &out[i + 7..];
    let emitted = rest[..rest.find(';').unwrap_or(rest.len())].trim().to_string();
    // strip casts like (float) / (int)
    let mut e = emitted.as_str();
    while e.starts_with('(') {
        match e.find(')') {
            Some(j) => e = e[j + 1..].trim(),
            None => break,
        }
    }
    let ok = match ty {
        "float" | "half" => {
            let want = (body.parse::<f64>().unwrap_or(f64::NAN)) as f32;
            let num = e.trim_end_matches(['f', 'h', 'F', 'H']);
            if want.is_infinite() {
                true // spelled by a target-specific infinity expression; value domain of C01
            } else {
                // an emitted literal without f/h suffix is a double-precision spelling narrowed on use
                let has_suffix = num.len() != e.len();
                let got = if has_suffix { num.parse::<f32>().ok() } else { num.parse::<f64>().ok().map(|v| v as f32) };
                got.map(|g| g.to_bits() == want.to_bits()).unwrap_or(false)
            }
        }
        "double" => {
            let want = body.parse::<f64>().unwrap_or(f64::NAN);
            if want.is_infinite() {
                true
            } else {
                // the emitted text must be a *floating* literal of double type: suffix L and a '.' or exponent
                let num = e.trim_end_matches(['L', 'l']);
                let is_float_spelling = num.contains('.') || num.contains('e') || num.contains('E');
                num.len() != e.len() && is_float_spelling && num.parse::<f64>().map(|g| g.to_bits() == want.to_bits()).unwrap_or(false)
            }
        }
        "uint" => {
            let want = body.parse::<u64>().unwrap_or(u64::MAX);
            e.strip_suffix('u').and_then(|n| n.parse::<u64>().ok()) == Some(want)
        }
        _ => {
            let want = body.parse::<i64>().unwrap_or(i64::MAX);
            e.parse::<i64>().ok() == Some(want)
        }
    };
    if !ok {
        return Verdict::fail(format!("survival:value-changed:{}", ty), format!("source: {}\nemitted literal: {}", src.trim(), emitted));
    }
    let mut labels = vec![format!("survival_{}", kind)];
    if kind == "u" && body.parse::<u64>().map(|v| v > u32::MAX as u64).unwrap_or(false) {
        labels.push("survival_u_beyond_32_bits".into());
    }
    Verdict::pass(Some(hash_of(&src)), labels)
}

// ---------------------------------------------------------------------------------------------

pub fn check_record(rec: &Value) -> Verdict {
    match rec["kind"].as_str() {
        Some("soup") => {
            let text = rec["text"].as_str().unwrap_or("");
            // texts that were not built by this check's generator (the fuzzer's) may hold directives, whose lines the
            // preprocessor consumes: outside of the tiling domain
            if rec["foreign"].as_bool().unwrap_or(false) && (text.contains('#') || text.contains("__HLSL_VERSION")) {
                return Verdict::Skip("directive or predefined macro in a text that this check did not build".into());
            }
            let exp: Option<Vec<String>> = rec["expect"].as_array().map(|a| a.iter().filter_map(|s| s.as_str().map(String::from)).collect());
            check_tiling(text, exp.as_deref())
        }
        Some("int") => check_int(rec["digits"].as_str().unwrap_or("0"), rec["radix"].as_u64().unwrap_or(10) as u32, rec["suffix"].as_str().unwrap_or(""), rec["upper_prefix"].as_bool().unwrap_or(false)),
        Some("float") => check_float(rec["body"].as_str().unwrap_or("0.0"), rec["suffix"].as_str().unwrap_or("")),
        Some("survival") => check_survival(rec["lit_kind"].as_str().unwrap_or("f"), rec["body"].as_str().unwrap_or("0.0")),
        _ => Verdict::Skip("unknown record kind".into()),
    }
}

pub fn run(ctx: &mut Ctx) {
    ctx.rule = "(a) texts built from every token kind (identifiers incl. keyword look-alikes, all punctuators, strings, numbers) with spaces/tabs/LF/CRLF/line and block comments/backslash splices between them, with and without separators and final newline; oracle = spans contiguous, ordered, start 0, end len, slices concatenate to the input, separated pieces come back as exactly one token each, error positions within [0,len]; non-trivial = >= 12 tokens and >= 3 trivia kinds. (b) decimal/hex (0x and 0X)/octal integer spellings up to 25 digits x every suffix, biased to 2^31, 2^32, 2^63, 2^64 +- 1; exact value via u128 or rejection when >= 2^64; non-trivial = value > 999 or non-decimal. (c) decimal float spellings with up to 20 significant digits, exponents in [-330,310], forms 1. 1.5 1e5 1.5e-5, every suffix; oracle = bits of Rust's correctly rounded str::parse::<f64> (narrowed once with `as f32` for f/h); non-trivial = more than 3 significant digits. (d) survival: the literal is compiled inside `T f() { return <lit>; }` to DirectX HLSL and the emitted literal, re-read with Rust's parser in the emitted type, must have the same value; u-suffixed integers are drawn up to 2^64 (biased to 2^32 +- 16): beyond 32 bits the only other allowed outcome is rejection. Distinct = hash of the input text.".into();
    ctx.assumptions.push("trusted base: Rust's str::parse::<f64>/<f32> are correctly rounded".into());
    ctx.assumptions.push("L-suffixed integer values in [2^63,2^64) are outside the checked domain (the property does not say signed or unsigned)".into());
    ctx.assumptions.push("decimal spellings with a leading zero followed by 8/9 (invalid octal in C) are not generated".into());
    if !ctx.replay_tier(&check_record) {
        return;
    }

    ctx.run_prop(
        "token_soup_tiling",
        ctx.tier.pick(150_000, 2_000_000),
        soup_strategy,
        |c: &SoupCase| {
            let (text, expect) = render_soup(c);
            if c.separated { json!({"kind": "soup", "text": text, "expect": expect}) } else { json!({"kind": "soup", "text": text}) }
        },
        check_record,
    );
    ctx.run_prop(
        "integer_spellings",
        ctx.tier.pick(300_000, 6_000_000),
        int_strategy,
        |c: &IntCase| json!({"kind": "int", "digits": c.digits, "radix": c.radix, "suffix": c.suffix, "upper_prefix": c.upper_prefix, "text": int_text(c)}),
        check_record,
    );
    ctx.run_prop(
        "float_spellings",
        ctx.tier.pick(500_000, 10_000_000),
        float_strategy,
        |c: &FloatCase| {
            let (body, suffix) = float_text(c);
            json!({"kind": "float", "body": body, "suffix": suffix})
        },
        check_record,
    );
    ctx.run_prop(
        "survival_into_hlsl",
        ctx.tier.pick(60_000, 1_000_000),
        || {
            prop_oneof![
                4 => (float_strategy(), prop_oneof![Just("f"), Just("h"), Just("L"), Just("untyped_float"), Just("untyped_double")]).prop_map(|(c, k)| (k.to_string(), float_text(&c).0)),
                1 => (any::<u32>(), any::<bool>()).prop_map(|(v, u)| if u { ("u".to_string(), v.to_string()) } else { ("int".to_string(), (v >> 1).to_string()) }),
                // u-suffixed values at and beyond 2^32: the written value must come out unchanged or the literal must be
                // rejected (there is no 64-bit integer type it could have); never a silently truncated value
                1 => (any::<u64>(), 0u32..34, any::<u8>()).prop_map(|(v, sh, b)| {
                    let v = match b % 4 {
                        0 => (1u64 << 32) + (v >> 60),
                        1 => (1u64 << 32) - 1 - (v >> 62),
                        2 => ((v >> 32) << 32) | (v & 0xf),
                        _ => v >> sh,
                    };
                    ("u".to_string(), v.to_string())
                }),
            ]
        },
        |(k, body): &(String, String)| json!({"kind": "survival", "lit_kind": k, "body": body}),
        check_record,
    );
    for l in ["soup_separated", "soup_adjacent", "has_splice", "has_crlf", "int_too_large_rejected", "int_upper_case_hex_prefix", "float_denormal", "survival_f", "survival_L", "survival_u", "survival_u_beyond_32_bits_rejected"] {
        ctx.require_label(l, 5);
    }
    if ctx.tier == Tier::Thorough && ctx.failures.is_empty() {
        // coverage-guided stage: the fuzzer mutates generated programs (and the repository's inputs); the oracle in the
        // target is this check's check_record
        let mut seeds: Vec<Vec<u8>> = sample_strategy(&progen::choices_strategy(400), ctx.seed ^ 0xf010, 300)
            .iter()
            .enumerate()
            .map(|(i, ch)| progen::generate(ch, if i % 3 == 0 { progen::Profile { pipelines: false, ..progen::Profile::full() } } else { progen::Profile::exec_hlsl() }).1.into_bytes())
            .collect();
        seeds.extend(["/* a */ x // b\n", "1.5e-3f 0x1Fu 017 1.#INF \"s\\\"t\"\n", "#define A(x) x ## y \\\n  z\r\n"].iter().map(|t| t.as_bytes().to_vec()));
        crate::fuzz::campaign(ctx, "text_property", Some("C10"), seeds, 300, &|bytes: &[u8]| json!({"kind": "soup", "foreign": true, "text": String::from_utf8_lossy(bytes).to_string()}), &check_record);
    }
}
