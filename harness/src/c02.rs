//! C02 — MSL export preserves the meaning of every accepted program.
//!
//! As C01, with the emitted Metal text evaluated under C++ rules: reference parameters alias
//! their arguments, a call must match a declared function by arity (default arguments only at
//! the end), brace initialisation zero-fills, `metal::` builtins need uniform argument types.

use crate::common::*;
use crate::exec;
use serde_json::Value;

const TARGETS: &[Tgt] = &[Tgt::Msl];

pub fn check_record(r: &Value) -> Verdict {
    exec::check_record_with(r, TARGETS, 3)
}

pub fn run(ctx: &mut Ctx) {
    ctx.level = "translation_validation".into();
    ctx.rule = "Programs as in C01 (without double; operator-shape tables with crafted operand rows, the exhaustive aliasing table, generated programs with methods, namespaces and aliased out arguments), compiled for Metal. Functions that read or write static globals receive them as trailing reference parameters: the harness binds each such parameter by name to a cell holding the global's initial value from the IR and compares the cell's final value with the interpreter's global; functions with out/inout parameters are called through the emitted trampolines. Each function is run on 3 argument vectors by both evaluators; return value, out/inout parameters, implicit global cells and constant globals must be bit-identical. Text that is not meaningful as C++ (no function of that name and arity, reference bound to an rvalue or to a different type, parameter without default after a defaulted one, mixed-type metal:: builtin call) is a violation. Programs the Metal back end rejects with a diagnostic are skipped and counted. Non-trivial = at least one function compared; distinct = hash of (source, argument seed).".into();
    ctx.assumptions.push("operations with undefined results are given one fixed meaning in the shared value library, identical on both sides".into());
    ctx.assumptions.push("static globals are initialised by the pipeline entry point, which is absent in no-pipeline mode: their initial values are taken from the IR; the threading of the references, not the initialiser text, is what is checked for them".into());
    if !ctx.replay_tier(&check_record) {
        return;
    }
    exec::run_common(ctx, TARGETS, check_record);
}
