#![allow(dead_code)]
//! `check <property> [--tier quick|thorough] [--replay <file>]`
use rssl_verif::{c01, c02, c03, c04, c05, c06, c07, c08, c09, c10, c11, c12, c13, c14, c15, c16, c17, c18, c19, common, csem, ctext, exec, irsem, vals, xshape, progen};

use common::*;

fn usage() -> ! {
    eprintln!("usage: check <C01..C19> [--tier quick|thorough] [--replay <file>]");
    std::process::exit(2);
}

type RunFn = fn(&mut Ctx);
type CheckFn = fn(&serde_json::Value) -> Verdict;

fn lookup(id: &str) -> Option<(RunFn, CheckFn)> {
    Some(match id {
        "C01" => (c01::run, c01::check_record),
        "C02" => (c02::run, c02::check_record),
        "C03" => (c03::run, c03::check_record),
        "C04" => (c04::run, c04::check_record),
        "C05" => (c05::run, c05::check_record),
        "C06" => (c06::run, c06::check_record),
        "C07" => (c07::run, c07::check_record),
        "C08" => (c08::run, c08::check_record),
        "C09" => (c09::run, c09::check_record),
        "C10" => (c10::run, c10::check_record),
        "C11" => (c11::run, c11::check_record),
        "C12" => (c12::run, c12::check_record),
        "C13" => (c13::run, c13::check_record),
        "C14" => (c14::run, c14::check_record),
        "C15" => (c15::run, c15::check_record),
        "C16" => (c16::run, c16::check_record),
        "C17" => (c17::run, c17::check_record),
        "C18" => (c18::run, c18::check_record),
        "C19" => (c19::run, c19::check_record),
        _ => return None,
    })
}

fn main() {
    let args: Vec<String> = std::env::args().skip(1).collect();
    if args.is_empty() {
        usage();
    }
    let id = args[0].clone();
    if id == "samples13" {
        c13::debug_samples();
        return;
    }
    if id == "progen" {
        // check progen <n> [seed] [print]: acceptance statistics of the program generator (debugging aid)
        install_panic_hook();
        let n: usize = args.get(1).and_then(|s| s.parse().ok()).unwrap_or(200);
        let seed: u64 = args.get(2).and_then(|s| s.parse().ok()).unwrap_or(1);
        let print = args.iter().any(|a| a == "print");
        let strat = progen::choices_strategy(600);
        let mut reasons: std::collections::BTreeMap<String, (usize, String)> = Default::default();
        let mut ok = 0;
        let mut bytes = 0;
        let full = args.iter().any(|a| a == "full");
        let mut slowest = (0.0f64, 0usize, String::new());
        let mut total_t = 0.0f64;
        for ch in sample_strategy(&strat, seed, n) {
            let tgts: &[Tgt] = if full { &Tgt::ALL4 } else { &[Tgt::Dx, Tgt::Msl] };
            for &tgt in tgts {
                let prof = if full { progen::Profile::full() } else if tgt == Tgt::Msl { progen::Profile::exec_msl() } else { progen::Profile::exec_hlsl() };
                let (_p, text, _) = progen::generate(&ch, prof);
                bytes += text.len();
                if print && tgt == Tgt::Dx {
                    println!("{}\n// ------------------------------------------", text);
                }
                let files = vec![("main.rssl".to_string(), text.clone())];
                let mode = if full { Mode::All } else { Mode::NoPipeline };
                let t0 = std::time::Instant::now();
                let r = compile(&CompileReq { files: &files, entry: "main.rssl", defines: &[], tgt, mode, validate_layout: false });
                let dt = t0.elapsed().as_secs_f64();
                if dt > slowest.0 {
                    slowest = (dt, text.len(), text.clone());
                }
                total_t += dt;
                match r {
                    Err(p) => {
                        reasons.entry(format!("{} PANIC {}", tgt.name(), p)).or_insert((0, text.clone())).0 += 1;
                    }
                    Ok(Err(e)) => {
                        let first = e.lines().next().unwrap_or("").to_string();
                        let key = format!("{} {}", tgt.name(), normalise_panic(first.split("error:").nth(1).unwrap_or(&first)));
                        reasons.entry(key).or_insert((0, format!("{}\n{}", e, text))).0 += 1;
                    }
                    Ok(Ok(_)) => ok += 1,
                }
            }
        }
        println!("accepted {} compilations of {} programs, avg {} bytes", ok, n, bytes / n.max(1));
        println!("total compile time {:.2}s, slowest {:.3}s for {} bytes", total_t, slowest.0, slowest.1);
        if args.iter().any(|a| a == "slow") {
            println!("{}", slowest.2);
        }
        for (k, (c, ex)) in &reasons {
            println!("{:5} {}", c, k);
            if args.iter().any(|a| a == "ex") {
                println!("{}", ex);
            }
        }
        return;
    }
    if id == "--worker-c08" {
        install_panic_hook();
        c08::worker();
        return;
    }
    if id == "--worker-c07" {
        install_panic_hook();
        c07::worker(&args[1]);
        return;
    }
    if id == "irrun" {
        // check irrun <n> [seed]: run the IR interpreter over generated programs (debugging aid)
        install_panic_hook();
        let n: usize = args.get(1).and_then(|s| s.parse().ok()).unwrap_or(200);
        let seed: u64 = args.get(2).and_then(|s| s.parse().ok()).unwrap_or(1);
        let mut stats: std::collections::BTreeMap<String, usize> = Default::default();
        for ch in sample_strategy(&progen::choices_strategy(500), seed, n) {
            let (_p, text, _) = progen::generate(&ch, progen::Profile::exec_hlsl());
            let m = match type_check_text(&text) {
                Ok(Ok(m)) => m,
                other => {
                    *stats.entry(format!("front end: {:?}", other.err())).or_default() += 1;
                    continue;
                }
            };
            for id in m.function_registry.iter() {
                if m.function_registry.get_intrinsic_data(id).is_some() {
                    continue;
                }
                let Some(imp) = m.function_registry.get_function_implementation(id).clone() else { continue };
                let mut it = irsem::Interp::new(&m);
                if let Err(e) = it.init_globals() {
                    *stats.entry(format!("globals: {:?}", e)).or_default() += 1;
                    continue;
                }
                let mut argv = Vec::new();
                let mut ok = true;
                for p in &imp.params {
                    match it.zero(p.param_type.type_id) {
                        Ok(v) => argv.push(v),
                        Err(_) => ok = false,
                    }
                }
                if !ok {
                    *stats.entry("param type".into()).or_default() += 1;
                    continue;
                }
                match it.run_function(id, &argv) {
                    Ok((r, _)) => {
                        *stats.entry("ok".into()).or_default() += 1;
                        if args.iter().any(|a| a == "show") {
                            println!("{} -> {}", m.function_registry.get_function_name(id), vals::show(&r));
                        }
                    }
                    Err(e) => {
                        let key = format!("{:?}", e);
                        if !stats.contains_key(&key) && args.iter().any(|a| a == "ex") {
                            println!("=== {}\n{}", key, text);
                        }
                        *stats.entry(key).or_default() += 1;
                    }
                }
            }
        }
        for (k, v) in stats {
            println!("{:6} {}", v, k);
        }
        return;
    }
    if id == "exrun" {
        // check exrun <n> <seed> <dx|vk|msl> [ex] [entry] [file <path>]: differential execution over generated programs (debugging aid)
        install_panic_hook();
        let n: usize = args.get(1).and_then(|s| s.parse().ok()).unwrap_or(200);
        let seed: u64 = args.get(2).and_then(|s| s.parse().ok()).unwrap_or(1);
        let tgt = args.get(3).map(|s| Tgt::from_name(s)).unwrap_or(Tgt::Dx);
        let mut stats: std::collections::BTreeMap<String, usize> = Default::default();
        let prof = if exec::dialect_of(tgt) == csem::Dialect::Msl { progen::Profile::exec_msl() } else { progen::Profile::exec_hlsl() };
        let mut texts: Vec<String> = Vec::new();
        if let Some(i) = args.iter().position(|a| a == "file") {
            texts.push(std::fs::read_to_string(&args[i + 1]).expect("read"));
        } else {
            for ch in sample_strategy(&progen::choices_strategy(500), seed, n) {
                texts.push(progen::generate(&ch, prof.clone()).1);
            }
        }
        for text in texts {
            let entry_mode = args.iter().any(|a| a == "entry");
            match if entry_mode { exec::check_exec_entry(&text, tgt, seed, 3) } else { exec::check_exec(&text, tgt, seed, 3) } {
                Verdict::Pass { labels, .. } => {
                    *stats.entry("PASS".into()).or_default() += 1;
                    for l in labels {
                        *stats.entry(format!("  label {}", l)).or_default() += 1;
                    }
                }
                Verdict::Skip(r) => {
                    let key = format!("SKIP {}", r);
                    if !stats.contains_key(&key) && args.iter().any(|a| a == "exskip") {
                        println!("=== {}\n--- source\n{}", key, text);
                    }
                    *stats.entry(key).or_default() += 1
                }
                Verdict::Fail { signature, detail } => {
                    let key = format!("FAIL {}", signature);
                    if !stats.contains_key(&key) && args.iter().any(|a| a == "ex") {
                        println!("=== {}\n--- source\n{}\n--- detail\n{}", key, text, detail);
                    }
                    *stats.entry(key).or_default() += 1;
                }
            }
        }
        for (k, v) in stats {
            println!("{:6} {}", v, k);
        }
        return;
    }
    if id == "dump" {
        // check dump <file> [dx|vk|vkba|msl] [all|nopipe|<name>] : debugging aid, prints compile() output
        install_panic_hook();
        let src = std::fs::read_to_string(&args[1]).expect("read");
        let tgt = Tgt::from_name(args.get(2).map(|s| s.as_str()).unwrap_or("dx"));
        let mode = match args.get(3).map(|s| s.as_str()) {
            None | Some("nopipe") => Mode::NoPipeline,
            Some("all") => Mode::All,
            Some(n) => Mode::Named(n.to_string()),
        };
        let files = vec![("main.rssl".to_string(), src)];
        let r = compile(&CompileReq { files: &files, entry: "main.rssl", defines: &[], tgt, mode, validate_layout: false });
        match r {
            Err(p) => println!("PANIC: {}", p),
            Ok(Err(e)) => println!("ERROR:\n{}", e),
            Ok(Ok(ps)) => {
                for p in ps {
                    println!("{}", pipeline_text(&p));
                    println!("// stages: {:?}", p.stages.iter().map(|s| (format!("{:?}", s.stage), s.entry_point.clone(), s.thread_group_size)).collect::<Vec<_>>());
                    println!("// metadata: {:?}", p.metadata);
                }
            }
        }
        return;
    }
    let mut tier = match std::env::var("VERIF_TIER").ok().as_deref() {
        Some("thorough") => Tier::Thorough,
        _ => Tier::Quick,
    };
    let mut replay: Option<String> = None;
    let mut i = 1;
    while i < args.len() {
        match args[i].as_str() {
            "--tier" => {
                i += 1;
                tier = match args.get(i).map(|s| s.as_str()) {
                    Some("quick") => Tier::Quick,
                    Some("thorough") => Tier::Thorough,
                    _ => usage(),
                };
            }
            "--replay" => {
                i += 1;
                replay = Some(args.get(i).cloned().unwrap_or_else(|| usage()));
            }
            _ => usage(),
        }
        i += 1;
    }
    let seed: u64 = std::env::var("VERIF_SEED").ok().and_then(|s| s.parse().ok()).unwrap_or(1);
    install_panic_hook();
    let Some((run, check)) = lookup(&id) else {
        eprintln!("unknown property {}", id);
        std::process::exit(2);
    };
    if let Some(path) = replay {
        let text = std::fs::read_to_string(&path).unwrap_or_else(|e| {
            eprintln!("cannot read {}: {}", path, e);
            std::process::exit(2)
        });
        let v: serde_json::Value = serde_json::from_str(&text).unwrap_or_else(|e| {
            eprintln!("cannot parse {}: {}", path, e);
            std::process::exit(2)
        });
        let rec = if v.get("record").is_some() { v["record"].clone() } else { v };
        match check(&rec) {
            Verdict::Fail { signature, detail } => {
                println!("VIOLATION property={} replay={}", id, path);
                println!("  signature: {}", signature);
                for l in detail.lines().take(60) {
                    println!("  | {}", l);
                }
                std::process::exit(1);
            }
            other => {
                println!("replay passes: {:?}", other);
                std::process::exit(0);
            }
        }
    }
    let mut ctx = Ctx::new(&id, tier, seed);
    run(&mut ctx);
    std::process::exit(ctx.finish());
}
