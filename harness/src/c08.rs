//! C08 — compilation is total: every input yields a result or a rendered diagnostic.
//!
//! Each case is executed in a supervised worker process (`check --worker-c08`): a panic is caught
//! and reported with its source file and message, process death (stack overflow, abort) is seen
//! by the parent and attributed to the in-flight input, and the CPU time of every case is
//! measured against a budget. An overrun is re-run alone with a ten times larger budget before it
//! is reported.

use crate::common::*;
use crate::progen;
use proptest::prelude::*;
use serde_json::{Value, json};
use std::cell::RefCell;
use std::io::{BufRead, BufReader, Write};
use std::os::fd::AsRawFd;
use std::process::{Child, ChildStdin, ChildStdout, Command, Stdio};

const CPU_BUDGET_MS: u64 = 2_000;
const RETRY_BUDGET_MS: u64 = 20_000;

// ---------------------------------------------------------------------------------------------
// worker side

fn cpu_ms() -> u64 {
    let mut ts = libc::timespec { tv_sec: 0, tv_nsec: 0 };
    unsafe {
        libc::clock_gettime(libc::CLOCK_PROCESS_CPUTIME_ID, &mut ts);
    }
    ts.tv_sec as u64 * 1000 + ts.tv_nsec as u64 / 1_000_000
}

fn run_case(rec: &Value) -> Value {
    let tgt = Tgt::from_name(rec["tgt"].as_str().unwrap_or("dx"));
    let mode = match rec["mode"].as_str() {
        Some("nopipe") => Mode::NoPipeline,
        Some("all") | None => Mode::All,
        Some(n) => Mode::Named(n.to_string()),
    };
    let files: Vec<(String, String)> = rec["files"]
        .as_array()
        .map(|a| a.iter().map(|f| (f[0].as_str().unwrap_or("").to_string(), f[1].as_str().unwrap_or("").to_string())).collect())
        .unwrap_or_default();
    let defines: Vec<(String, String)> = rec["defines"]
        .as_array()
        .map(|a| a.iter().map(|f| (f[0].as_str().unwrap_or("").to_string(), f[1].as_str().unwrap_or("").to_string())).collect())
        .unwrap_or_default();
    let t0 = cpu_ms();
    let r = compile(&CompileReq { files: &files, entry: "main.rssl", defines: &defines, tgt, mode, validate_layout: rec["validate"].as_bool().unwrap_or(false) });
    let dt = cpu_ms() - t0;
    match r {
        Err(p) => json!({"status": "panic", "msg": p, "cpu_ms": dt}),
        Ok(Ok(ps)) => json!({"status": "ok", "pipelines": ps.len(), "cpu_ms": dt}),
        Ok(Err(e)) => {
            if e.trim().is_empty() {
                json!({"status": "empty-diagnostic", "cpu_ms": dt})
            } else {
                let first = e.lines().next().unwrap_or("");
                let class = if first.contains("MetalCompilerNotFound") {
                    "metal-compiler-not-found".to_string()
                } else {
                    first.split("error:").nth(1).map(|m| normalise_panic(m.trim())).unwrap_or_else(|| normalise_panic(first))
                };
                json!({"status": "err", "class": class, "cpu_ms": dt})
            }
        }
    }
}

pub fn worker() {
    // a deep recursion budget like a normal main thread: 8 MB
    let stdin = std::io::stdin();
    let stdout = std::io::stdout();
    for line in stdin.lock().lines() {
        let Ok(line) = line else { break };
        let rec: Value = match serde_json::from_str(&line) {
            Ok(v) => v,
            Err(_) => continue,
        };
        let out = run_case(&rec);
        let mut o = stdout.lock();
        let _ = writeln!(o, "{}", out);
        let _ = o.flush();
    }
}

// ---------------------------------------------------------------------------------------------
// parent side

struct Worker {
    child: Child,
    stdin: ChildStdin,
    stdout: BufReader<ChildStdout>,
}

impl Worker {
    fn spawn() -> Worker {
        let exe = std::env::current_exe().expect("current exe");
        let mut child = Command::new(exe).arg("--worker-c08").stdin(Stdio::piped()).stdout(Stdio::piped()).stderr(Stdio::null()).spawn().expect("spawn worker");
        let stdin = child.stdin.take().unwrap();
        let stdout = BufReader::new(child.stdout.take().unwrap());
        Worker { child, stdin, stdout }
    }
}

impl Drop for Worker {
    fn drop(&mut self) {
        let _ = self.child.kill();
        let _ = self.child.wait();
    }
}

thread_local! {
    static WORKER: RefCell<Option<Worker>> = const { RefCell::new(None) };
}

enum Reply {
    Line(Value),
    Timeout,
    Died(String),
}

fn ask(rec: &Value, wall_limit_ms: i32) -> Reply {
    WORKER.with(|w| {
        let mut w = w.borrow_mut();
        if w.is_none() {
            *w = Some(Worker::spawn());
        }
        let wk = w.as_mut().unwrap();
        let line = rec.to_string();
        if writeln!(wk.stdin, "{}", line).is_err() || wk.stdin.flush().is_err() {
            *w = None;
            return Reply::Died("worker pipe closed before the case was sent".into());
        }
        // wait for a reply with a wall-clock kill switch (the verdict itself uses CPU time)
        if wk.stdout.buffer().is_empty() {
            let mut fds = [libc::pollfd { fd: wk.stdout.get_ref().as_raw_fd(), events: libc::POLLIN, revents: 0 }];
            let n = unsafe { libc::poll(fds.as_mut_ptr(), 1, wall_limit_ms) };
            if n == 0 {
                *w = None; // kills the child
                return Reply::Timeout;
            }
        }
        let mut reply = String::new();
        match wk.stdout.read_line(&mut reply) {
            Ok(0) | Err(_) => {
                use std::os::unix::process::ExitStatusExt;
                let status = wk.child.wait().map(|s| match s.signal() { Some(sig) => format!("signal: {}", sig), None => format!("exit code {:?}", s.code()) }).unwrap_or_default();
                *w = None;
                Reply::Died(status)
            }
            Ok(_) => match serde_json::from_str(&reply) {
                Ok(v) => Reply::Line(v),
                Err(_) => Reply::Died(format!("unreadable reply: {}", reply)),
            },
        }
    })
}

fn describe(rec: &Value) -> String {
    let files = rec["files"].as_array().cloned().unwrap_or_default();
    let mut s = format!("target {} mode {} validate {} defines {}\n", rec["tgt"], rec["mode"], rec["validate"], rec["defines"]);
    for f in files {
        s.push_str(&format!("--- {}\n{}\n", f[0].as_str().unwrap_or(""), f[1].as_str().unwrap_or("")));
    }
    s
}

/// Inputs on which the compiler does not come back cost a minute each, and proptest would shrink such a failure by
/// running hundreds of variants of it. While a run is in progress they are therefore set aside unshrunk (and after
/// three of them the remaining cases of the run are skipped); `run` reports them at the end. A replay judges directly.
static DEFER_TIME_BUDGET: std::sync::atomic::AtomicBool = std::sync::atomic::AtomicBool::new(false);
static DEFERRED: std::sync::Mutex<Vec<Failure>> = std::sync::Mutex::new(Vec::new());

pub fn check_record(rec: &Value) -> Verdict {
    let deferring = DEFER_TIME_BUDGET.load(std::sync::atomic::Ordering::SeqCst);
    if deferring && DEFERRED.lock().map(|d| d.len() >= 3).unwrap_or(false) {
        return Verdict::pass(None, vec!["skipped_after_time_budget_failures".into()]);
    }
    match check_record_inner(rec) {
        Verdict::Fail { signature, detail } if deferring && signature.starts_with("time-budget") => {
            if let Ok(mut d) = DEFERRED.lock() {
                d.push(Failure { signature, detail, record: rec.clone() });
            }
            Verdict::pass(None, vec!["deferred_time_budget_failure".into()])
        }
        v => v,
    }
}

fn check_record_inner(rec: &Value) -> Verdict {
    let total_len: usize = rec["files"].as_array().map(|a| a.iter().map(|f| f[1].as_str().map(|s| s.len()).unwrap_or(0)).sum()).unwrap_or(0);
    let reply = ask(rec, 8_000);
    let reply = match reply {
        Reply::Timeout => {
            // re-run alone with a much larger budget before calling it non-termination
            match ask(rec, 60_000) {
                Reply::Timeout => return Verdict::fail("time-budget:no-result-within-60s", describe(rec)),
                other => other,
            }
        }
        other => other,
    };
    let v = match reply {
        Reply::Timeout => unreachable!(),
        Reply::Died(status) => {
            let sig = if status.contains("signal: 11") || status.contains("SIGSEGV") {
                "process-died:segv(stack overflow)".to_string()
            } else if status.contains("signal: 6") || status.contains("SIGABRT") {
                "process-died:abort".to_string()
            } else {
                format!("process-died:{}", normalise_panic(&status))
            };
            return Verdict::fail(sig, describe(rec));
        }
        Reply::Line(v) => v,
    };
    let cpu = v["cpu_ms"].as_u64().unwrap_or(0);
    let budget = CPU_BUDGET_MS.max(CPU_BUDGET_MS * (total_len as u64) / 4096);
    if cpu > budget {
        // once more, alone
        let again = match ask(rec, 60_000) {
            Reply::Line(v2) => v2["cpu_ms"].as_u64().unwrap_or(0),
            _ => u64::MAX,
        };
        if again > budget.min(RETRY_BUDGET_MS) {
            return Verdict::fail("time-budget:cpu", format!("{} ms and {} ms of CPU for {} bytes of input (budget {} ms)\n{}", cpu, again, total_len, budget, describe(rec)));
        }
    }
    let status = v["status"].as_str().unwrap_or("");
    let gen_kind = rec["gen"].as_str().unwrap_or("?").to_string();
    match status {
        "panic" => Verdict::fail(format!("panic:{}", v["msg"].as_str().unwrap_or("")), describe(rec)),
        "empty-diagnostic" => Verdict::fail("empty-diagnostic", describe(rec)),
        "ok" => Verdict::pass(Some(hash_of(&rec.to_string())), vec![format!("gen_{}", gen_kind), "result_ok".into()]),
        _ => {
            let class = v["class"].as_str().unwrap_or("").to_string();
            let stage = if class.contains("unexpected") || class.contains("string literal") || class.contains("lexer") {
                "stage_lex"
            } else if class.contains("preprocess") || class.contains("#") || class.contains("macro") || class.contains("failed to load") {
                "stage_preprocess"
            } else if class.contains("parse") || class.contains("expected") {
                "stage_parse"
            } else if class.contains("generate") || class.contains("format") {
                "stage_export"
            } else {
                "stage_type_or_later"
            };
            let nontrivial = total_len >= 24;
            Verdict::pass(if nontrivial { Some(hash_of(&rec.to_string())) } else { None }, vec![format!("gen_{}", gen_kind), "result_err".into(), stage.into()])
        }
    }
}

// ---------------------------------------------------------------------------------------------
// generators

const TOKENS: &[&str] = &[
    "{", "}", "(", ")", "[", "]", "<", ">", ";", ",", "?", "+", "++", "+=", "-", "--", "-=", "/", "/=", "%", "%=", "*", "*=", "|", "||", "|=", "&", "&&", "&=", "^", "^=", "=", "==",
    "#", "##", "@", "!", "!=", "~", ".", ":", "::", "if", "else", "for", "while", "do", "switch", "return", "break", "continue", "discard", "case", "default", "struct", "enum",
    "typedef", "cbuffer", "register", "packoffset", "namespace", "in", "out", "inout", "const", "volatile", "row_major", "column_major", "unorm", "snorm", "extern", "static",
    "inline", "groupshared", "constexpr", "sizeof", "template", "typename", "decltype", "true", "false", "void", "int", "uint", "float", "float4", "float4x4", "half", "double",
    "bool", "Texture2D", "RWTexture2D", "SamplerState", "ByteAddressBuffer", "StructuredBuffer", "ConstantBuffer", "Pipeline", "ComputeShader", "VertexShader", "PixelShader",
    "numthreads", "x", "y", "S", "f", "g", "T", "0", "1", "2", "4294967296", "99999999999999999999", "1e999", "0x", "0xFFFFFFFFFFFFFFFFF", "1.0f", "1.5h", "2.0L", "08", "1u", "3ul",
    "\"str\"", "vk", "binding", "rssl", "bind_group", "bindless", "space4", "t0", "u1", "b2", "s3", "SV_Target", "SV_Position", "SV_DispatchThreadID", "assert_type", "assert_eval",
    "StaticSampler", "Filter", "MIN_MAG_MIP_LINEAR", "DefaultBindGroup", "defined", "include", "define", "undef", "ifdef", "endif", "pragma", "once", "\n", "\n", " ", "//", "/*", "*/", "\\",
];

fn soup_strategy() -> impl Strategy<Value = String> {
    proptest::collection::vec((any::<u16>(), any::<bool>()), 1..400).prop_map(|v| {
        let mut s = String::new();
        for (t, sp) in v {
            s.push_str(*pick(TOKENS, t));
            if sp {
                s.push(' ');
            }
            if s.len() > 4000 {
                break;
            }
        }
        s
    })
}

fn bytes_strategy() -> impl Strategy<Value = String> {
    prop_oneof![
        proptest::collection::vec(any::<u8>(), 0..512).prop_map(|b| String::from_utf8_lossy(&b).to_string()),
        "[ -~\\n\\t]{0,600}",
        proptest::collection::vec(prop_oneof![Just('('), Just(')'), Just('{'), Just('}'), Just('['), Just(']'), Just('<'), Just('>'), Just('a'), Just(';'), Just(','), Just('1'), Just(' '), Just('-'), Just('!'), Just('*')], 0..300)
            .prop_map(|v| v.into_iter().collect::<String>()),
    ]
}

/// deep nesting and cast-like prefixes wrapped around an expression statement of a tiny program
fn nest_strategy() -> impl Strategy<Value = String> {
    (0usize..7, 0usize..13, 0usize..13, any::<u8>()).prop_map(|(casts, parens, blocks, k)| {
        let mut e = String::from("x");
        for i in 0..parens {
            e = if (k as usize + i) % 3 == 0 { format!("({} + 1)", e) } else { format!("({})", e) };
        }
        let names = ["a", "b", "c", "T", "x", "float"];
        for i in 0..casts {
            e = format!("({}){}", names[(k as usize + i) % names.len()], e);
        }
        let mut body = format!("y = {};", e);
        for _ in 0..blocks {
            body = format!("{{ {} }}", body);
        }
        format!("struct T {{ int v; }};\nint f(int x, int a, int b, int c) {{ int y = 0; {} return y; }}\n", body)
    })
}

const SPECIALS: &[&str] = &[
    // reported by sub-agents while preparing seeded changes
    "void f(float2x2 m) { }\nvoid g() { f(1.0f); f(1); float2x2 m = 2; m = 3.0; f(m * 2.0); }\n",
    "void f(float2x2 m) { }\nvoid f(float2 v) { }\nvoid f(float s) { }\nvoid g() { f(1.0f); f(1); f(true); }\n",
    "template<typename T> T f(T x);\nint g() { return f(1); }\n",
    "template<typename T> T f(T x);\ntemplate<typename T> T f(T x) { return x; }\nint g() { return f(1) + f<int>(2); }\n",
    "static const uint N = 4;\nenum E { A = N, C = A | 16 };\nint g() { return (int)C; }\n",
    "static const int M = 4;\nenum E2 { A2 = M, B2 = A2 + 1, C2 = A2 | B2, D2 = ~A2, F2 = A2 << 2 };\n",
    "template<typename T> void f(T x) { }\nTexture2D<float4> t;\nvoid g() { f(t.mips); f(t.mips[0]); }\n",
    "int h() { return 3; }\nstatic int g = h();\nstatic int k = g + 1;\n[numthreads(1, 1, 1)] void cs() { g; k; }\nPipeline P { ComputeShader = cs; }\n",
    "static int a = 1;\nstatic int b = a + 1;\n[numthreads(1, 1, 1)] void cs() { b; }\nPipeline P { ComputeShader = cs; }\n",
    // language features outside of the program generator: struct templates, inheritance, function-local statics, typedefs
    "template<typename T> struct Box { T value; T twice() { return value + value; } };\nint f(int k) { Box<int> b; b.value = k; Box<float> c; c.value = 0.5; return b.twice() + (int)c.twice(); }\n",
    "template<typename T> struct Pair { T a; T b; };\nStructuredBuffer<Pair<float> > g;\n[numthreads(1, 1, 1)] void cs() { g[0].a; }\nPipeline P { ComputeShader = cs; }\n",
    "struct Base { int a; float b; };\nstruct Derived : Base { int c; int sum() { return a + c; } };\nint f(int k) { Derived d; d.a = k; d.b = 1.5; d.c = 2; Base b = (Base)d; return d.sum() + b.a; }\n",
    "struct Base { int a; };\nstruct Mid : Base { int b; };\nstruct Leaf : Mid, Base { int c; };\nint f(Leaf l) { return l.a + l.b + l.c; }\n",
    "void f() { volatile int k; k = 1; k++; k--; --k; k += 2; k <<= 1; int j = k++; volatile float4 v; v.x = 1; v.xy += 2; v = v + 1; }\n",
    "void f() { volatile float4x4 m; m[1][2] = 2; m._m00 = 1; precise float3 p; p = 1; p.x++; p *= 2; volatile bool b; b = 1; volatile uint u = 3; u = 2; u %= 2; }\n",
    "static volatile int g = 1;\ngroupshared volatile uint s;\nvoid f() { g = 2; g++; s = 1; s += g; }\n",
    "struct B { int a; int get() { return a; } };\nstruct D : B { int c; };\nint f(D d) { return d.c; }\n",
    "int f(int k) { static int counter = 0; counter += k; static const float table[2] = { 1.0, 2.0 }; return counter + (int)table[k & 1]; }\n",
    "typedef float3 Vec;\ntypedef int Arr4[4];\ntypedef Arr4 Grid[2];\nint total(Arr4 xs) { int s = 0; for (int i = 0; i < 4; i++) { s += xs[i]; } return s; }\nint f() { Grid g = { { 1, 2, 3, 4 }, { 5, 6, 7, 8 } }; Vec v = Vec(1, 2, 3); return total(g[1]) + (int)v.y; }\n",

    "cbuffer CB { float4 a : packoffset(c0); float b : packoffset(c1.y); }\n",
    "cbuffer CB : register(b0, space4) { float4 a; }\nvoid f() { a; }\nPipeline P { ComputeShader = f; }\n",
    "[[rssl::bindless]] cbuffer CB { float4 a; }\n",
    "[[rssl::bind_group(4)]] Texture2D<float4> t;\n[numthreads(1,1,1)] void f() { t; }\nPipeline P { ComputeShader = f; }\n",
    "[[rssl::bind_group(4000000000)]] Texture2D<float4> t;\n[numthreads(1,1,1)] void f() { t; }\nPipeline P { ComputeShader = f; }\n",
    "[[rssl::bind_group(100000)]] Texture2D<float4> t;\nvoid f() { t; }\n",
    "void f();\nPipeline P { ComputeShader = f; }\n",
    "[numthreads(1,1,1)] void f() {}\nPipeline P { ComputeShader = f; }\nPipeline P { ComputeShader = f; }\n",
    "enum E { A = true, B };\n",
    "enum E { A = 2147483647, B };\n",
    "enum E { A = 4294967295, B, C };\n",
    "static const uint a = 0u - 1u;\nstatic const int b = 1 << 40;\nstatic const int c = -2147483648;\nint d[4294967296];\n",
    "#define M(x) x##x\nint M(a);\n#define N N N\nint N;\n#define P(x) P(x) Q(x)\n#define Q(x) P(x)\nint z = P(1);\n",
    "#define API_DEF 1\nint x = API_DEF;\n#if API_DEF > 0 && defined(API_DEF)\nint y;\n#endif\n",
    "int x = A ## B;\n",
    "#if\n#endif\n#if (\n#endif\n#elif\n#else\n#else\n#endif\n#endif\n",
    "#include \"main.rssl\"\n",
    "#include \"missing.h\"\n",
    "#include <main.rssl\n",
    "#define\n#undef\n#pragma\n#pragma once once\n#ifdef\n#ifndef 1\n",
    "/* unterminated",
    "\"unterminated string\n",
    "int x = 1e99999999999999999999;\nfloat y = 1.#INF;\nfloat z = 0.#INF;\n",
    "template<typename T> T f(T a) { return f<T>(a); }\nint g() { return f<int>(1); }\n",
    "struct S { S s; };\n",
    "struct S { int a[0]; };\nint b[-1];\n",
    "void f() { f(); }\nvoid g(int a = g) {}\n",
    "int f(int a) { switch (a) { case 1: case 1: break; default: default: break; } return 0; }\n",
    "float4 vs(float4 p : SV_Position) : SV_Position { return p; }\nPipeline P { VertexShader = vs; PixelShader = vs; ComputeShader = vs; }\n",
    "Pipeline P { }\nPipeline Q { ComputeShader = nothing; }\n",
    "Pipeline P { ComputeShader = 3; DefaultBindGroup = -1; }\n",
    "SamplerState s = StaticSampler { Filter = 1; AddressU = 2; MaxAnisotropy = -1; MinLOD = \"a\"; };\n",
    "RWStructuredBuffer<RWStructuredBuffer<float> > b;\nStructuredBuffer<void> c;\nTexture2D<S> d;\n",
    "struct A { float a; };\nStructuredBuffer<A> b;\nstruct B { bool x; A y[3]; double z; };\nRWStructuredBuffer<B> c;\nByteAddressBuffer d;\nvoid f() { d.Load<B>(0); d.Load<float4x4>(0); }\n",
    "void f() { int a[2] = { 1, 2, 3 }; float3 v = float3(1, 2); int b = {}; }\n",
    "void f() { float4x4 m; m._m00_m11 = 1; m[5][5] = 2; float4 v; v.xyzwx; v.q; 1.x.x.x; }\n",
    "typedef int I;\ntypedef I J[2];\nJ j;\ntypedef struct { int a; } U;\n",
    "namespace N { namespace N { int N; } }\nint N::N::N;\nusing namespace N;\n",
    "void f(out int a = 1, in out int b, inout const int c) {}\n",
    "[numthreads(0, 0, 0)] void a() {}\n[numthreads(99999999999, 1, 1)] void b() {}\n[numthreads(-1, 1, 1)] void c() {}\nPipeline P { ComputeShader = a; }\nPipeline Q { ComputeShader = b; }\nPipeline R { ComputeShader = c; }\n",
    "[outputtopology(\"line\")] [numthreads(1,1,1)] void m(out vertices float4 v[1] : SV_Position, out indices uint2 i[1]) {}\nPipeline P { MeshShader = m; }\n",
    "void f() { for (;;) {} while (1) break; do continue; while (0); if (1) else; }\n",
    "int f() { return sizeof(int) + sizeof(float4x4) + sizeof(S) + sizeof(f); }\n",
    "int x = (((((((((((((((((((((((((((((((1)))))))))))))))))))))))))))))));\n",
    "int x = -------------------------------1;\nint y = !!!!!!!!!!!!!!!!!!!!!!!!!!!!~~~~~~~~~~~1;\n",
    "int x = a ? b ? c ? d ? e : f : g : h : i;\nint y = 1 ? 2 : 3 ? 4 : 5;\n",
];

const API_DEFINES: &[(&str, &str)] = &[("API_DEF", "1"), ("A", "x ## y"), ("B", "B"), ("EMPTY", ""), ("FUNC(x)", "x"), ("N", "(1 +"), ("S", "\"str"), ("C", "/* c")];

fn mutate(text: &str, muts: &[(u8, u16, u16)]) -> String {
    let mut s = text.to_string();
    const EXTREME: &[&str] = &["99999999999999999999", "4294967296", "1e999", "0x", "18446744073709551615", "-2147483648", "2147483648u", "1.#INF", "0xFFFFFFFFFFFFFFFFFF", "1e-999", "00000000000000000008"];
    for (kind, a, b) in muts {
        let bytes = s.as_bytes();
        if bytes.is_empty() {
            break;
        }
        // work on char boundaries of an (almost always) ASCII text
        let pos = |r: u16, s: &str| -> usize {
            let mut p = (r as usize * s.len()) >> 16;
            while p < s.len() && !s.is_char_boundary(p) {
                p += 1;
            }
            p.min(s.len())
        };
        let p = pos(*a, &s);
        match kind % 10 {
            0 => {
                // delete a small span
                let q = (p + 1 + (*b as usize % 6)).min(s.len());
                let q = (q..=s.len()).find(|i| s.is_char_boundary(*i)).unwrap_or(s.len());
                s.replace_range(p..q, "");
            }
            1 => {
                // duplicate a span
                let q = (p + 1 + (*b as usize % 24)).min(s.len());
                let q = (q..=s.len()).find(|i| s.is_char_boundary(*i)).unwrap_or(s.len());
                let span = s[p..q].to_string();
                s.insert_str(p, &span);
            }
            2 => s.insert_str(p, *pick(TOKENS, *b)),
            3 => s.insert_str(p, *pick(EXTREME, *b)),
            4 => {
                // replace the next number by an extreme literal
                if let Some(i) = s[p..].find(|c: char| c.is_ascii_digit()) {
                    let start = p + i;
                    let end = start + s[start..].find(|c: char| !(c.is_ascii_alphanumeric() || c == '.')).unwrap_or(s.len() - start);
                    s.replace_range(start..end, *pick(EXTREME, *b));
                }
            }
            5 => s.insert_str(p, ["/*", "\"", "#if 1\n", "#define Z Z(\n", "\\", "#else\n", "(((((((", "{{{{{{", "#include \"main.rssl\"\n"][*b as usize % 9]),
            6 => {
                // swap two spans
                let q = pos(*b, &s);
                let (lo, hi) = (p.min(q), p.max(q));
                let hi_end = (hi + 4).min(s.len());
                let hi_end = (hi_end..=s.len()).find(|i| s.is_char_boundary(*i)).unwrap_or(s.len());
                if lo + 4 <= hi && s.is_char_boundary(lo + 4) {
                    let a1 = s[lo..lo + 4].to_string();
                    let b1 = s[hi..hi_end].to_string();
                    s.replace_range(hi..hi_end, &a1);
                    s.replace_range(lo..lo + 4, &b1);
                }
            }
            7 => s.truncate(p),
            8 => {
                // cast-like prefixes
                let n = 1 + (*b as usize % 6);
                let pre: String = (0..n).map(|i| ["(a)", "(T)", "(float)", "(x)"][(*b as usize + i) % 4]).collect();
                s.insert_str(p, &pre);
            }
            _ => {
                let c = s[p..].chars().next();
                if let Some(c) = c {
                    let r = ['(', ')', '{', '}', ';', '<', '>', ',', '"', '#', '0'][*b as usize % 11];
                    s.replace_range(p..p + c.len_utf8(), &r.to_string());
                }
            }
        }
        if s.len() > 6000 {
            let mut cut = 6000;
            while !s.is_char_boundary(cut) {
                cut -= 1;
            }
            s.truncate(cut);
        }
    }
    s
}

fn repo_inputs() -> Vec<String> {
    let mut v = Vec::new();
    if let Ok(rd) = std::fs::read_dir("/repo/tests/basic") {
        let mut paths: Vec<_> = rd.filter_map(|e| e.ok()).map(|e| e.path()).collect();
        paths.sort();
        for p in paths {
            let ext = p.extension().and_then(|e| e.to_str()).unwrap_or("");
            if ext == "rssl" || ext == "hlsl" {
                if let Ok(t) = std::fs::read_to_string(&p) {
                    v.push(t);
                }
            }
        }
    }
    v
}

/// Pipeline definitions and static samplers: property blocks with known, unknown and repeated names and values of
/// every kind (entry points, strings, numbers, words, nested blocks)
fn property_blocks(ch: &[u16]) -> String {
    let mut pos = 0usize;
    let mut pick = |n: usize| -> usize {
        let v = ch.get(pos).copied().unwrap_or(0) as usize;
        pos += 1;
        (v * n) >> 16
    };
    const NAMES: [&str; 30] = [
        "ComputeShader", "VertexShader", "PixelShader", "MeshShader", "TaskShader", "RenderTargetFormat0", "RenderTargetFormat1", "RenderTargetFormat7", "RenderTargetFormat8", "DepthTargetFormat",
        "DefaultBindGroup", "CullMode", "WindingOrder", "BlendState", "BlendState0", "BlendState7", "BlendState8", "Unknown", "cullmode", "BlendEnabled", "SrcBlend", "DstBlend", "BlendOp", "SrcBlendAlpha",
        "DstBlendAlpha", "BlendOpAlpha", "WriteMask", "Filter", "AddressU", "MaxAnisotropy",
    ];
    const VALUES: [&str; 40] = [
        "cs", "vs", "ps", "ms", "ts", "declared_only", "over", "nothing", "NS::cs", "\"R8G8B8A8_UNORM\"", "\"D32_FLOAT\"", "\"\"", "\"None\"", "\"Front\"", "\"Back\"", "\"Clockwise\"", "\"CounterClockwise\"", "\"Sideways\"", "None",
        "Back", "0", "1", "3", "7", "8", "4294967296", "-1", "1.5", "true", "false", "0xFFu", "\"Zero\"", "\"One\"", "\"SrcAlpha\"", "\"Add\"", "\"Subtrack\"", "\"Max\"", "MIN_MAG_MIP_LINEAR", "Clamp", "cs + 1",
    ];
    fn block(pick: &mut dyn FnMut(usize) -> usize, depth: usize, out: &mut String) {
        out.push_str("{\n");
        for _ in 0..pick(9) {
            let repeat_previous = pick(5) == 0;
            let name = if repeat_previous && out.contains(" = ") {
                // a name that already occurs in this text
                let names: Vec<&str> = out.lines().filter_map(|l| l.trim().split(" = ").next()).filter(|n| !n.is_empty() && n.chars().all(|c| c.is_ascii_alphanumeric())).collect();
                if names.is_empty() { NAMES[pick(NAMES.len())].to_string() } else { names[pick(names.len())].to_string() }
            } else {
                NAMES[pick(NAMES.len())].to_string()
            };
            out.push_str(&format!("    {} = ", name));
            if depth < 2 && pick(6) == 0 {
                block(pick, depth + 1, out);
            } else {
                out.push_str(VALUES[pick(VALUES.len())]);
            }
            out.push_str(if pick(12) == 0 { "\n" } else { ";\n" });
        }
        out.push_str("}\n");
    }
    let mut s = String::from(
        "[numthreads(8, 8, 1)] void cs(uint3 id : SV_DispatchThreadID) {}\nvoid vs(uint vid : SV_VertexID, out float4 pos : SV_Position) { pos = float4(0, 0, 0, 1); }\nfloat4 ps() : SV_Target0 { return float4(0, 0, 0, 1); }\nvoid declared_only();\nvoid over(int a) {}\nvoid over(float a) {}\nstruct MV { float4 p : SV_Position; };\n[outputtopology(\"triangle\")] [numthreads(1, 1, 1)] void ms(out vertices MV v[3], out indices uint3 t[1]) { SetMeshOutputCounts(3, 1); }\nstruct PL { uint a; };\ngroupshared PL pl;\n[numthreads(1, 1, 1)] void ts() { DispatchMesh(1u, 1u, 1u, pl); }\nnamespace NS { [numthreads(1, 1, 1)] void cs() {} }\n",
    );
    for k in 0..(1 + pick(3)) {
        match pick(4) {
            0 => {
                s.push_str(&format!("SamplerState samp{} = StaticSampler\n", k));
                block(&mut pick, 1, &mut s);
                s.push_str(";\n");
            }
            _ => {
                s.push_str(&format!("Pipeline {}\n", ["P", "Q", "P"][k % 3]));
                // a plausible stage first most of the time, so that the state properties are reached
                let mut b = String::new();
                block(&mut pick, 0, &mut b);
                let stage = ["    ComputeShader = cs;\n", "    VertexShader = vs;\n    PixelShader = ps;\n", "    MeshShader = ms;\n    PixelShader = ps;\n", "    TaskShader = ts;\n    MeshShader = ms;\n", ""][pick(5)];
                s.push_str(&b.replacen("{\n", &format!("{{\n{}", stage), 1));
            }
        }
    }
    s
}

fn config_strategy() -> impl Strategy<Value = (usize, u8, bool, u8)> {
    (0usize..5, 0u8..4, any::<bool>(), any::<u8>())
}

fn wrap(gen_kind: &str, text: String, cfg: &(usize, u8, bool, u8)) -> Value {
    const TGTS: [Tgt; 5] = [Tgt::Dx, Tgt::Vk, Tgt::VkBa, Tgt::Msl, Tgt::MetalBytecode];
    let mode = match cfg.1 {
        0 => "all",
        1 => "nopipe",
        2 => "P",
        _ => "all",
    };
    let defines: Vec<Value> = if cfg.3 % 4 == 0 {
        let d = API_DEFINES[(cfg.3 as usize / 4) % API_DEFINES.len()];
        vec![json!([d.0, d.1])]
    } else {
        Vec::new()
    };
    json!({"gen": gen_kind, "files": [["main.rssl", text], ["inc.h", "#pragma once\nint included_fn(int a) { return a; }\n"]], "tgt": TGTS[cfg.0].name(), "mode": mode, "validate": cfg.2, "defines": defines})
}

pub fn run(ctx: &mut Ctx) {
    ctx.rule = "Inputs: (a) byte strings, printable-ASCII strings and bracket soups; (b) token soups over the RSSL token table incl. extreme literals and directive words; (c) generated programs, valid and with 1-3 mutations (delete / duplicate / swap spans, insert tokens, extreme literals 99999999999999999999 / 4294967296 / 1e999 / 0x, unterminated comments / strings / conditionals, self-referential defines, truncation, up to 6 cast-like prefixes, bracket flips); (d) expressions wrapped in up to 12 parentheses / blocks with up to 6 ambiguous cast-like prefixes; (e) the repository's own .rssl/.hlsl inputs with the same mutations; (f'') exhaustively, 47 type spellings (every resource / object type the front end knows, structs that are empty, recursive or hold arrays of structs, matrices, doubles, 64-bit integers, void, typedef'd arrays, nested resources) x 16 places a type can be written (extern / static / const / groupshared global, array, local, parameter, out parameter, return type, struct member of a global / of a structured buffer element / of a typed raw load and store, cbuffer member, typedef, template argument, sizeof / cast / comparison) x 5 targets x {all, no-pipeline} x layout validation; comparison chains `a < a < ... > (a)` of 2-41 operators; (f') Pipeline definitions and StaticSampler initialisers with 0-8 properties per block from 30 known / unknown / misspelt names (repeated on purpose) and 40 values (entry points incl. declared-only, overloaded and namespaced functions, format and state strings, numbers, words, expressions, nested blocks to depth 2), missing semicolons; (f) a catalogue of unsupported or unusual constructs (packoffset, register space4, huge bind groups, bodiless entry points, duplicate pipeline names, ## on API defines, recursive includes ...) ; x {DirectX, Vulkan, Vulkan+buffer addresses, Metal, Metal bytecode} x {all, named, no-pipeline} x layout validation on/off x API defines. In the thorough tier a libFuzzer campaign (fork mode, all cores, 600 s; target fuzz/fuzz_targets/compile_total.rs with the same oracle in-process) follows, whose artifacts are judged again by this check. Oracle (in a supervised worker process): compile returns; an error renders to a non-empty string; no panic (caught, keyed by source file + normalised message), no process death (SIGSEGV = stack overflow, SIGABRT), CPU time <= 2 s per 4 KB (re-run alone before reporting; 60 s wall kill switch). Non-trivial = input of >= 24 bytes. Distinct = hash of the record.".into();
    ctx.assumptions.push("the harness (and its workers) are built with debug assertions and overflow checks on, like the repository's own cargo test; a plain release build is not separately explored".into());
    ctx.assumptions.push("Metal bytecode is expected to end in MetalCompilerNotFound in this sandbox, which counts as a clean result".into());
    if !ctx.replay_tier(&check_record) {
        return;
    }
    DEFER_TIME_BUDGET.store(true, std::sync::atomic::Ordering::SeqCst);
    run_parts(ctx);
    DEFER_TIME_BUDGET.store(false, std::sync::atomic::Ordering::SeqCst);
    if let Ok(mut d) = DEFERRED.lock() {
        ctx.failures.extend(d.drain(..));
    }
}

fn run_parts(ctx: &mut Ctx) {
    if ctx.tier == Tier::Thorough && std::env::var("VERIF_FUZZ_ONLY").is_ok() {
        // exploration aid: only the coverage-guided stage
        fuzz_campaign(ctx, &repo_inputs());
        return;
    }
    let cfg0 = (0usize, 1u8, false, 1u8);
    // catalogue x all targets
    let mut specials: Vec<Value> = SPECIALS
        .iter()
        .flat_map(|s| (0..5usize).flat_map(move |t| [0u8, 1].into_iter().map(move |m| wrap("catalogue", s.to_string(), &(t, m, t % 2 == 0, 1)))))
        .collect();
    // every API define against sources that use its name in code, in a condition and next to ##
    for d in 0..API_DEFINES.len() {
        let name = API_DEFINES[d].0.split('(').next().unwrap_or("A");
        for body in [
            format!("int v = {};\n", name),
            format!("#if {}\nint a;\n#elif defined({})\nint b;\n#endif\n", name, name),
            format!("#define CAT(x, y) x ## y\nint CAT({}, z);\nint w = {} ## q;\n", name, name),
            format!("#define USE {} {}\nint USE;\n#undef {}\nint {};\n", name, name, name, name),
            format!("#include \"inc.h\"\nint r = included_fn({});\n", name),
        ] {
            specials.push(wrap("catalogue", body, &(d % 5, 1, false, (d as u8) * 4)));
        }
    }
    // every catalogue entry is checked even when an earlier one fails
    for rec in &specials {
        ctx.run_one(rec, &check_record);
    }
    ctx.parts.push(json!({"part": "catalogue", "cases": specials.len()}));
    if !ctx.failures.is_empty() {
        // shallow findings first: the random search behind them is only meaningful once these are handled
        return;
    }
    let _ = cfg0;
    let scale = ctx.tier.pick(1u64, 30u64);
    ctx.run_prop("bytes", 6_000 * scale, || (bytes_strategy(), config_strategy()), |(s, c): &(String, (usize, u8, bool, u8))| wrap("bytes", s.clone(), c), check_record);
    ctx.run_prop("token_soup", 10_000 * scale, || (soup_strategy(), config_strategy()), |(s, c): &(String, (usize, u8, bool, u8))| wrap("soup", s.clone(), c), check_record);
    ctx.run_prop("nesting", 2_000 * scale, || (nest_strategy(), config_strategy()), |(s, c): &(String, (usize, u8, bool, u8))| wrap("nesting", s.clone(), c), check_record);
    ctx.run_prop(
        "mutated_generated_programs",
        10_000 * scale,
        || (progen::choices_strategy(300), proptest::collection::vec((any::<u8>(), any::<u16>(), any::<u16>()), 0..4), config_strategy(), any::<bool>()),
        |(ch, muts, c, full): &(Vec<u32>, Vec<(u8, u16, u16)>, (usize, u8, bool, u8), bool)| {
            let (_p, text, _) = progen::generate(ch, if *full { progen::Profile::full() } else { progen::Profile::exec_hlsl() });
            wrap(if muts.is_empty() { "generated_valid" } else { "generated_mutated" }, mutate(&text, muts), c)
        },
        check_record,
    );
    // macro definitions with 0-3 parameters invoked with every kind of argument list: too few, too many, empty,
    // blank, spanning lines, comments, nested invocations, unbalanced
    // ---- every type name the front end knows x every place a type can be written
    {
        const TYPES: &[(&str, &str)] = &[
            ("", "Buffer<float4>"), ("", "RWBuffer<float4>"), ("", "ByteAddressBuffer"), ("", "RWByteAddressBuffer"), ("", "BufferAddress"), ("", "RWBufferAddress"), ("", "Texture2D<float4>"), ("", "Texture2D"),
            ("", "Texture2DArray<float4>"), ("", "RWTexture2D<float4>"), ("", "RWTexture2DArray<float>"), ("", "TextureCube<float4>"), ("", "TextureCubeArray<float4>"), ("", "Texture3D<float4>"), ("", "RWTexture3D<float4>"),
            ("struct ZS { float4 a; uint b; };\n", "ConstantBuffer<ZS>"), ("struct ZS { float4 a; uint b; };\n", "StructuredBuffer<ZS>"), ("struct ZS { float4 a; uint b; };\n", "RWStructuredBuffer<ZS>"),
            ("struct ZEmpty {};\nstruct ZE { ZEmpty e; float v; };\n", "StructuredBuffer<ZE>"), ("struct ZEmpty {};\n", "StructuredBuffer<ZEmpty>"), ("struct ZEmpty {};\n", "ZEmpty"), ("struct ZEmpty {};\n", "ConstantBuffer<ZEmpty>"),
            ("", "SamplerState"), ("", "SamplerComparisonState"), ("struct ZS { float4 a; uint b; };\n", "TriangleStream<ZS>"), ("", "RaytracingAccelerationStructure"), ("", "RayQuery<0>"), ("", "RayDesc"),
            ("struct ZS { float4 a; uint b; };\n", "ZS"), ("struct ZRec { ZRec inner; };\n", "ZRec"), ("struct ZRec { ZRec inner; };\n", "StructuredBuffer<ZRec>"), ("struct ZA2 { int m; };\nstruct ZB2 { ZA2 a[2]; ZA2 b; };\n", "RWStructuredBuffer<ZB2>"),
            ("", "float4x4"), ("", "double"), ("", "double3"), ("", "half"), ("", "uint64_t"), ("", "void"), ("enum ZEnum { ZA, ZB };\n", "ZEnum"), ("", "StructuredBuffer<StructuredBuffer<float> >"), ("", "Texture2D<Texture2D>"),
            ("", "StructuredBuffer<double4>"), ("", "RWBuffer<float4x4>"), ("", "vector<float, 3>"), ("", "matrix<float, 2, 2>"), ("typedef float ZArr[3];\n", "ZArr"), ("typedef float ZArr[3];\n", "StructuredBuffer<ZArr>"),
        ];
        const PLACES: &[&str] = &[
            "@ g;\n[numthreads(1, 1, 1)] void cs() { g; }\n",
            "static @ g;\n[numthreads(1, 1, 1)] void cs() { g; }\n",
            "const @ g;\n[numthreads(1, 1, 1)] void cs() { g; }\n",
            "groupshared @ g;\n[numthreads(1, 1, 1)] void cs() { g; }\n",
            "@ g[2];\n[numthreads(1, 1, 1)] void cs() { g[1]; }\n",
            "[numthreads(1, 1, 1)] void cs() { @ v; v; }\n",
            "void h(@ p) { p; }\n@ g;\n[numthreads(1, 1, 1)] void cs() { h(g); }\n",
            "void h(out @ p) { }\n[numthreads(1, 1, 1)] void cs() { @ v; h(v); }\n",
            "@ g;\n@ h() { return g; }\n[numthreads(1, 1, 1)] void cs() { h(); }\n",
            "struct W { @ m; int n; };\nW g;\n[numthreads(1, 1, 1)] void cs() { g.n; }\n",
            "struct W { @ m; int n; };\nRWStructuredBuffer<W> g;\n[numthreads(1, 1, 1)] void cs() { g[0].n = 1; }\n",
            "struct W { @ m; int n; };\nRWByteAddressBuffer g;\n[numthreads(1, 1, 1)] void cs() { W w = g.Load<W>(0); g.Store<W>(16, w); }\n",
            "cbuffer C { @ m; int n; };\n[numthreads(1, 1, 1)] void cs() { n; }\n",
            "typedef @ TD;\nTD g;\n[numthreads(1, 1, 1)] void cs() { g; }\n",
            "template<typename T> T id(T a) { return a; }\n@ g;\n[numthreads(1, 1, 1)] void cs() { id<@ >(g); id(g); }\n",
            "@ g;\n[numthreads(1, 1, 1)] void cs() { uint s = sizeof(@); (@)g; g = g; bool b = g == g; }\n",
        ];
        let per = (TYPES.len() * PLACES.len()) as u64;
        let make = |i: u64| {
            let (def, ty) = TYPES[(i % per) as usize / PLACES.len()];
            let place = PLACES[(i % per) as usize % PLACES.len()];
            let v = i / per; // 5 targets x {all, nopipe} x validate
            let text = format!("{}{}Pipeline P {{ ComputeShader = cs; }}\n", def, place.replace('@', ty));
            wrap("type_places", text, &((v % 5) as usize, ((v / 5) % 2) as u8, (v / 10) % 2 == 1, 1))
        };
        ctx.run_enum("types_x_places", per * 20, true, make, |i| check_record(&make(i)));
    }
    // ---- every kind of array size x every place an array can be declared
    {
        const SIZES: &[&str] = &[
            "1", "2", "0", "-1", "-2147483648", "2147483647", "2147483648", "4294967295", "4294967296", "1073741824", "1073741825", "18446744073709551615", "18446744073709551616", "0x7fffffff", "1u", "0u - 1u",
            "1 - 2", "(int)-1", "(uint)-1", "true", "false", "1.5", "2.0", "sizeof(int)", "sizeof(float4) * 1000000000", "ZN", "ZN - 5", "ZN * ZN * ZN * ZN * ZN", "ZE_A", "(int)ZE_B", "ZEnum::ZE_B", "1 << 31", "1 << 40", "1u << 31", "-(-3)", "~0", "!0", "3 % 2", "7 / 0", "",
        ];
        const PLACES: &[&str] = &[
            "[numthreads(1, 1, 1)] void cs() { float a[@]; a[0] = 1; }\n",
            "static float g[@];\n[numthreads(1, 1, 1)] void cs() { g[0] = 1; }\n",
            "groupshared uint g[@];\n[numthreads(1, 1, 1)] void cs() { g[0] = 1; }\n",
            "struct W { float a[@]; int n; };\n[numthreads(1, 1, 1)] void cs() { W w; w.n = 1; }\n",
            "struct W { float a[@]; int n; };\nRWStructuredBuffer<W> g;\n[numthreads(1, 1, 1)] void cs() { g[0].n = 1; }\n",
            "struct W { float3 a[2][@]; int n; };\nStructuredBuffer<W> g;\n[numthreads(1, 1, 1)] void cs() { g[0].n; }\n",
            "cbuffer C { float4 a[@]; int n; };\n[numthreads(1, 1, 1)] void cs() { n; }\n",
            "float h(float a[@]) { return a[0]; }\n[numthreads(1, 1, 1)] void cs() { }\n",
            "typedef int TD[@];\nTD g;\n[numthreads(1, 1, 1)] void cs() { g; }\n",
            "Texture2D<float4> g[@];\n[numthreads(1, 1, 1)] void cs() { g[0]; }\n",
            "RWStructuredBuffer<uint> g[@][2];\n[numthreads(1, 1, 1)] void cs() { g[0][1][0] = 1; }\n",
            "struct W { float a[@]; };\nRWByteAddressBuffer g;\n[numthreads(1, 1, 1)] void cs() { W w = g.Load<W>(0); g.Store<W>(16, w); }\n",
            "[numthreads(1, 1, 1)] void cs() { int a[@] = { 1, 2 }; uint s = sizeof(int[@]); }\n",
        ];
        let per = (SIZES.len() * PLACES.len()) as u64;
        let make = |i: u64| {
            let size = SIZES[(i % per) as usize / PLACES.len()];
            let place = PLACES[(i % per) as usize % PLACES.len()];
            let v = i / per; // 5 targets x validate
            let text = format!("static const int ZN = 7;\nenum ZEnum {{ ZE_A, ZE_B = 3 }};\n{}Pipeline P {{ ComputeShader = cs; }}\n", place.replace('@', size));
            wrap("array_sizes", text, &((v % 5) as usize, 0, (v / 5) % 2 == 1, 1))
        };
        ctx.run_enum("array_sizes_x_places", per * 10, true, make, |i| check_record(&make(i)));
    }
    // ---- every way to give a bind group x boundary values x every kind of bound entity
    {
        const VALUES: &[&str] = &["0", "1", "7", "1023", "1024", "65535", "1000000", "2147483647", "4294967295", "4294967296", "-1"];
        const ENTITIES: &[(&str, &str, char)] = &[
            ("Texture2D<float4> zr", ";\n", 't'),
            ("cbuffer ZC", " { float4 zm; }\n", 'b'),
            ("ConstantBuffer<ZS> zr", ";\n", 'b'),
            ("SamplerState zr", ";\n", 's'),
            ("RWStructuredBuffer<uint> zr[3]", ";\n", 'u'),
            ("SamplerState zr", " = StaticSampler { Filter = MIN_MAG_MIP_LINEAR; };\n", 's'),
            ("ByteAddressBuffer zr", ";\n", 't'),
        ];
        let per = (VALUES.len() * ENTITIES.len() * 4) as u64;
        let make = |i: u64| {
            let k = (i % per) as usize;
            let value = VALUES[k % VALUES.len()];
            let (head, tail, letter) = ENTITIES[(k / VALUES.len()) % ENTITIES.len()];
            let spelling = k / (VALUES.len() * ENTITIES.len());
            let (prefix, suffix, default) = match spelling {
                0 => (format!("[[rssl::bind_group({})]] ", value), String::new(), String::new()),
                1 => (String::new(), format!(" : register({}2, space{})", letter, value), String::new()),
                2 => (format!("[[vk::binding(1, {})]] ", value), String::new(), String::new()),
                _ => (String::new(), String::new(), format!(" DefaultBindGroup = {};", value)),
            };
            // a static sampler takes no register index
            let suffix = if tail.contains("StaticSampler") && spelling == 1 { format!(" : register(space{})", value) } else { suffix };
            let text = format!("struct ZS {{ float4 a; }};\n{}{}{}{}[numthreads(1, 1, 1)] void cs() {{ }}\nPipeline P {{ ComputeShader = cs;{} }}\n", prefix, head, suffix, tail, default);
            wrap("bind_group_values", text, &(((i / per) % 5) as usize, 0, false, 1))
        };
        ctx.run_enum("bind_group_values", per * 5, true, make, |i| check_record(&make(i)));
    }
    // ---- definitions that mention the entity they define
    {
        const SELF: &[&str] = &[
            "enum E { A = sizeof(E) };\n",
            "enum E { A = (E)0 };\n",
            "enum E { A = 1, B = ~(E)A };\n",
            "enum E { A = A };\n",
            "enum E { A = B, B = A };\n",
            "enum E { A = E::A + 1 };\n",
            "enum E : E { A };\n",
            "struct S { int a[sizeof(S)]; };\n",
            "struct S { S a[2]; };\n",
            "struct S { StructuredBuffer<S> b; };\nS g;\n",
            "struct S : S { int a; };\n",
            "struct S { int a; int f() { S s; s.a = a; return s.f(); } };\n",
            "struct S { int a; S copy() { return this; } S other(S o) { return o; } };\n",
            "template<typename T> struct W { T v; };\nstruct S { W<S> w; };\n",
            "template<typename T> struct W { T v; };\nstruct S { W<S> w; };\nStructuredBuffer<S> g;\n",
            "template<typename T> struct W { T v[2]; };\nstruct S { int a; W<W<S> > w; };\nS g;\n",
            "template<typename T> struct W { W<T> w; };\nW<int> g;\n",
            "template<typename T> struct W { W<W<T> > w; };\nW<int> g;\n",
            "template<typename T> struct W { T v; };\nW<W<W<W<W<W<W<W<int> > > > > > > > g;\n",
            "struct A;\nstruct B { A a; };\nstruct A { B b; };\nA g;\n",
            "struct A { int x; };\nstruct B { A a; };\nstruct A { B b; };\n",
            "typedef S S;\n",
            "typedef int T;\ntypedef T T;\nT g;\n",
            "typedef float A[sizeof(A)];\n",
            "static const int c = c;\n",
            "static const int c = sizeof(c);\n",
            "static const int a = b;\nstatic const int b = a;\n",
            "static int x[2] = { x[1], x[0] };\n",
            "int f(int a = f(1)) { return a; }\n",
            "int f(int a = sizeof(f)) { return a; }\n",
            "int f(int a, int b = a) { return b; }\n",
            "template<typename T> T f(T v = f<T>(0)) { return v; }\nint g() { return f<int>(); }\n",
            "template<typename T> T f(T v) { return f<T>(v); }\nint g() { return f<int>(1); }\n",
            "template<typename T> T f(T v) { return f<float>(v) + f<int>(v); }\nint g() { return f(1); }\n",
            "template<int N> int f() { return f<N + 1>(); }\nint g() { return f<0>(); }\n",
            "namespace N { namespace N { int N; } }\nint f() { return N::N::N; }\n",
            "namespace N { int a = N::a; }\n",
            "int f() { int x = x; return x; }\n",
            "int f() { int a[2] = { a[0], 1 }; return a[1]; }\n",
            "void f() { f(); }\nvoid g() { h(); }\nvoid h() { g(); }\n",
            "#define A A\n#define B C\n#define C B\nint A = B;\n",
            "#define F(x) F(x) + G(x)\n#define G(x) F(x)\nint v = F(1);\n",
            "#include \"main.rssl\"\n",
            "#include \"inc.h\"\n#include \"inc.h\"\nint v = included_fn(1);\n",
            "cbuffer C { C c; };\n",
            "cbuffer C { int C; };\nint f() { return C; }\n",
            "ConstantBuffer<ConstantBuffer<int> > g;\n",
            "Pipeline P { ComputeShader = P; }\n",
            "[numthreads(1, 1, 1)] void cs() { cs(); }\nPipeline P { ComputeShader = cs; }\n",
        ];
        let n = SELF.len() as u64;
        let make = |i: u64| {
            let v = i / n; // 5 targets x {all, nopipe} x validate
            wrap("self_reference", SELF[(i % n) as usize].to_string(), &((v % 5) as usize, ((v / 5) % 2) as u8, (v / 10) % 2 == 1, 1))
        };
        ctx.run_enum("self_references", n * 20, true, make, |i| check_record(&make(i)));
    }
    // ---- chains of comparison operators around a parenthesised operand: `a < a < ... > (a)` can be read as nested
    // template argument lists; the time to decide must not explode
    {
        let make = |i: u64| {
            let n = 2 + (i % 40) as usize;
            let shape = (i / 40) % 4;
            let chain: String = (0..n).map(|k| if shape == 1 && k % 2 == 1 { "b < " } else { "a < " }).collect();
            let tail = ["a > (a)", "a > (b)", "a >> (a)", "a > a"][shape as usize];
            let text = format!("void f(int a, int b) {{\n    bool r = {}{};\n}}\n", chain, tail);
            wrap("comparison_chain", text, &((i % 5) as usize, 1, false, 1))
        };
        ctx.run_enum("comparison_chains", 160, true, make, |i| check_record(&make(i)));
    }
    // ---- programs whose identifiers sit on reserved words and on the name_N forms the exporters generate for them
    ctx.run_prop(
        "renamed_programs",
        3_000 * scale,
        || (progen::choices_strategy(400), 1u8..5, any::<u64>(), config_strategy()),
        |(ch, class, seed, c): &(Vec<u32>, u8, u64, (usize, u8, bool, u8))| {
            let r = crate::c15::make_case_with(ch, *class, c.0.min(2), *seed, true);
            wrap("renamed_program", r["renamed"].as_str().unwrap_or("").to_string(), c)
        },
        check_record,
    );
    {
        // a reserved word on a struct member / enum value next to its generated replacement name_0, name_1
        const WORDS: [&str; 10] = ["kernel", "vertex", "fragment", "device", "thread", "main", "interface", "vector", "matrix", "half"];
        let make = |i: u64| {
            let w = WORDS[(i % 10) as usize];
            let shape = (i / 10) % 4;
            let text = match shape {
                0 => format!("struct S {{ float {w}; float {w}_0; }};\nfloat f(S s) {{ return s.{w} + s.{w}_0; }}\n"),
                1 => format!("struct S {{ float {w}; float {w}_0; float {w}_1; }};\nfloat f(S s, float {w}_2) {{ return s.{w} + s.{w}_0 + s.{w}_1 + {w}_2; }}\n"),
                2 => format!("enum E {{ {w}, {w}_0, {w}_1 }};\nint f() {{ return (int)E::{w} + (int)E::{w}_0 + (int)E::{w}_1; }}\n"),
                _ => format!("static int {w}_0 = 1;\nstruct S {{ int {w}; int m() {{ int {w}_1 = 2; return {w} + {w}_0 + {w}_1; }} }};\n"),
            };
            wrap("reserved_next_to_generated", text, &(((i / 40) % 5) as usize, 1, false, 1))
        };
        ctx.run_enum("reserved_names_next_to_generated_names", 200, true, make, |i| check_record(&make(i)));
    }
    ctx.run_prop(
        "property_blocks",
        6_000 * scale,
        || (proptest::collection::vec(any::<u16>(), 8..120), config_strategy()),
        |(ch, c): &(Vec<u16>, (usize, u8, bool, u8))| wrap("property_blocks", property_blocks(ch), c),
        check_record,
    );
    ctx.run_prop(
        "macro_invocations",
        6_000 * scale,
        || (proptest::collection::vec((0usize..4, 0usize..6), 1..4), proptest::collection::vec((0usize..4, proptest::collection::vec(0usize..12, 0..5), 0usize..5), 1..5), config_strategy()),
        |(defs, calls, c): &(Vec<(usize, usize)>, Vec<(usize, Vec<usize>, usize)>, (usize, u8, bool, u8))| {
            const PARAMS: [&str; 3] = ["a", "b", "c"];
            const BODIES: [&str; 6] = ["P0 + P1 + P2", "P2 P1 P0", "P0 ## P1", "(P1)", "M0(P0, P1)", "1"];
            const ARGS: [&str; 12] = ["", " ", "\n", "1", "x y", "(1, 2)", "/* c */", "M0(1, 2)", "M1()", "// c\n", "\\\n", ")"];
            const CLOSE: [&str; 5] = [")", ")", " )", "", "))"];
            let mut text = String::new();
            for (k, (np, body)) in defs.iter().enumerate() {
                let params: Vec<&str> = PARAMS[..(*np).min(3)].to_vec();
                let mut b = BODIES[*body].to_string();
                for (i, p) in PARAMS.iter().enumerate() {
                    // parameters the macro does not have stay as plain identifiers
                    b = b.replace(&format!("P{}", i), if i < params.len() { p } else { "q" });
                }
                text.push_str(&format!("#define M{}({}) {}\n", k, params.join(", "), b));
            }
            for (m, args, close) in calls {
                let list: Vec<&str> = args.iter().map(|a| ARGS[*a]).collect();
                text.push_str(&format!("int v{} = M{}({}{};\n", text.len(), m % defs.len().max(1), list.join(","), CLOSE[*close]));
            }
            wrap("macro_invocation", text, c)
        },
        check_record,
    );
    // constant expressions with boundary operands in every constant position (the folding paths of the evaluator)
    ctx.run_prop(
        "constant_expressions",
        6_000 * scale,
        || (crate::c13::ce_strategy(), config_strategy(), 0u8..6),
        |(e, c, position): &(crate::c13::CE, (usize, u8, bool, u8), u8)| {
            let mut x = String::new();
            crate::c13::render_expr(e, &mut x);
            let body = match position {
                0 => format!("static const int zk = {};\n", x),
                1 => format!("float za[(({}) & 7) + 1];\n", x),
                2 => format!("enum ZE {{ ZA = {}, ZB }};\n", x),
                3 => format!("void zf(int v) {{ switch (v) {{ case {}: break; default: break; }} }}\n", x),
                4 => format!("void zf() {{ const uint zl = {}; assert_eval(zl, 0u); }}\n", x),
                _ => format!("template<int N> int zt() {{ return N; }}\nint zu() {{ return zt<{}>(); }}\n", x),
            };
            wrap("constant_expression", format!("{}{}", crate::c13::PRELUDE, body), c)
        },
        check_record,
    );
    // every binary operator on every pair of boundary constants, folded in a static const initialiser and an array size
    {
        const OPS: [&str; 18] = ["+", "-", "*", "/", "%", "<<", ">>", "&", "|", "^", "&&", "||", "<", "<=", ">", ">=", "==", "!="];
        let mut operands: Vec<String> = crate::c13::NAMES.iter().map(|s| s.to_string()).collect();
        for lit in ["0", "1", "2", "31", "32", "33", "2147483647", "2147483648", "4294967295", "4294967296", "9223372036854775807", "4294967295u", "2147483648u", "1.5", "1e30", "(-1)", "(-2147483647 - 1)", "(int)(-2147483647 - 1)", "(int)(-1)", "(uint)(-1)"] {
            operands.push(lit.to_string());
        }
        let n = operands.len() as u64;
        let total = n * n * OPS.len() as u64 * 2;
        let make = |i: u64| {
            let a = &operands[(i % n) as usize];
            let b = &operands[((i / n) % n) as usize];
            let op = OPS[((i / n / n) % OPS.len() as u64) as usize];
            let array = (i / n / n / OPS.len() as u64) % 2 == 1;
            let body = if array { format!("float za[(({} {} {}) & 7) + 1];\n", a, op, b) } else { format!("static const int zk = (int)({} {} {});\n", a, op, b) };
            wrap("constant_table", format!("{}{}", crate::c13::PRELUDE, body), &((i % 3) as usize, 1, false, 0))
        };
        ctx.run_enum("constant_operator_table", total, true, make, |i| check_record(&make(i)));
    }
    let repo = repo_inputs();
    ctx.extra.insert("repository_inputs".into(), json!(repo.len()));
    if !repo.is_empty() {
        let repo2 = repo.clone();
        ctx.run_prop(
            "mutated_repository_inputs",
            8_000 * scale,
            move || (any::<u16>(), proptest::collection::vec((any::<u8>(), any::<u16>(), any::<u16>()), 1..4), config_strategy()),
            move |(k, muts, c): &(u16, Vec<(u8, u16, u16)>, (usize, u8, bool, u8))| wrap("repo_mutated", mutate(pick::<String>(&repo2, *k).as_str(), muts), c),
            check_record,
        );
    }
    let specials2: Vec<String> = SPECIALS.iter().map(|s| s.to_string()).collect();
    ctx.run_prop(
        "mutated_catalogue",
        4_000 * scale,
        move || (any::<u16>(), proptest::collection::vec((any::<u8>(), any::<u16>(), any::<u16>()), 1..3), config_strategy()),
        move |(k, muts, c): &(u16, Vec<(u8, u16, u16)>, (usize, u8, bool, u8))| wrap("catalogue_mutated", mutate(pick::<String>(&specials2, *k).as_str(), muts), c),
        check_record,
    );
    for l in ["result_ok", "result_err", "stage_lex", "stage_parse", "stage_type_or_later", "gen_generated_valid", "gen_generated_mutated", "gen_repo_mutated"] {
        ctx.require_label(l, 20);
    }
    if ctx.tier == Tier::Thorough && ctx.failures.is_empty() && std::env::var("VERIF_NO_FUZZ").is_err() {
        fuzz_campaign(ctx, &repo);
    }
}

/// Coverage-guided stage of the thorough tier (see `crate::fuzz::campaign`): target compile_total, whose first input
/// byte selects target, pipeline mode and layout validation.
fn fuzz_campaign(ctx: &mut Ctx, repo: &[String]) {
    // generated programs as well: the fuzzer mutates well-formed text of every construct the generator knows
    let generated: Vec<String> = sample_strategy(&progen::choices_strategy(400), ctx.seed ^ 0xf022, 240)
        .iter()
        .enumerate()
        .map(|(i, ch)| progen::generate(ch, if i % 2 == 0 { progen::Profile::full() } else { progen::Profile::exec_hlsl() }).1)
        .collect();
    let mut seeds: Vec<Vec<u8>> = Vec::new();
    for text in repo.iter().map(|s| s.as_str()).chain(SPECIALS.iter().copied()).chain(generated.iter().map(|s| s.as_str())) {
        for cfg in [0u8, 3, 5, 7, 9, 14] {
            let mut bytes = vec![cfg];
            bytes.extend_from_slice(text.as_bytes());
            seeds.push(bytes);
        }
    }
    let to_record = |bytes: &[u8]| -> Value {
        let cfg = bytes[0];
        let text = String::from_utf8_lossy(&bytes[1..]).to_string();
        wrap("fuzz_artifact", text, &((cfg & 3) as usize, if cfg & 4 != 0 { 1 } else { 0 }, cfg & 8 != 0, 1))
    };
    crate::fuzz::campaign(ctx, "compile_total", None, seeds, 600, &to_record, &check_record);
}
