#!/usr/bin/env python3
# tools/keep_seed.py <id> '<confirm json>' '<caught json: {"C01": "mismatch:global", "C04": null ...}>' [suffix]
import json, os, shutil, sys, subprocess
sid = sys.argv[1]; confirm = json.loads(sys.argv[2]); caught = json.loads(sys.argv[3]); suffix = sys.argv[4] if len(sys.argv) > 4 else ""
prefix = sys.argv[5] if len(sys.argv) > 5 else "seed"
src = f"/tmp/{prefix}_{sid}_out"; dst = f"/verif/seeded/{sid}{suffix}"
os.makedirs(dst, exist_ok=True)
for f in ("patch.diff", "seeded_demo.rs", "demo.md"):
    if os.path.exists(f"{src}/{f}"): shutil.copy(f"{src}/{f}", f"{dst}/{f}")
try: meta = json.load(open(f"{src}/meta.json"))
except Exception: meta = {"property": sid}
meta["confirmed"] = confirm
meta["checks_run"] = caught
meta["caught_by"] = sorted(k for k, v in caught.items() if v)
meta["base_commit"] = subprocess.run(["git", "-C", "/repo", "rev-parse", "--short", "HEAD"], capture_output=True, text=True).stdout.strip()
json.dump(meta, open(f"{dst}/meta.json", "w"), indent=1)
print("kept", dst, meta["caught_by"])
