#!/bin/bash
# tools/try_mutation.sh <patch-file | -e 'sed-expr' file> -- <check ids...>
# Applies a change to /repo, runs the quick tier of the given checks, and always restores /repo.
set -u
cd /repo || exit 2
if [ -n "$(git status --porcelain --untracked-files=no)" ]; then echo "/repo has uncommitted changes" >&2; exit 2; fi
restore() { git -C /repo checkout -- . ; }
trap restore EXIT
if [ "$1" = "-e" ]; then
  sed -i "$2" "$3" || exit 2
  shift 3
else
  git apply "$1" || { echo "patch does not apply" >&2; exit 2; }
  shift 1
fi
[ "$1" = "--" ] && shift
if git diff --quiet; then echo "MUTATION HAD NO EFFECT" >&2; exit 2; fi
for id in "$@"; do
  VERIF_NO_EVIDENCE=1 timeout ${VERIF_TRY_TIMEOUT:-900} /verif/check "$id" --tier quick 2>&1 | grep -E "VIOLATION|signature|KNOWN|INFRA|tier=" | head -8
  echo "exit($id)=${PIPESTATUS[0]}"
done
