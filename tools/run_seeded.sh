#!/bin/bash
# tools/run_seeded.sh [ids...] : apply each /verif/seeded/<id>/patch.diff to /repo, run the quick tier of the property's
# own check (and of every check recorded in caught_by), undo the change. Prints one line per (seed, check).
cd /verif
ids=${@:-$(ls seeded)}
for id in $ids; do
  if grep -q "\"obsolete\"" seeded/$id/meta.json; then echo "$id: obsolete (see meta.json)"; continue; fi
  checks=$(python3 -c "import json;m=json.load(open('seeded/$id/meta.json'));print(' '.join(sorted(set(m.get('caught_by',[])+[m.get('property','$id')[:3]]))))")
  if ! git -C /repo apply --check /verif/seeded/$id/patch.diff 2>/dev/null; then echo "$id: PATCH DOES NOT APPLY"; continue; fi
  for c in $checks; do
    r=$(tools/try_mutation.sh /verif/seeded/$id/patch.diff -- $c 2>&1 | grep -E "signature|exit\(" | tr '\n' ' ')
    echo "$id vs $c: $r"
  done
done
