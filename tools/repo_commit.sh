#!/bin/bash
# tools/repo_commit.sh <message-file>: run the repository's test suite and commit /repo's working tree only if all 382 tests pass
set -u
cd /repo || exit 2
cargo build --offline 2>&1 | grep -E "^error" -A 12 | head -30
R=$(CARGO_NET_OFFLINE=true timeout 1800 cargo test --workspace --no-fail-fast --offline 2>&1 | grep -E "^test result|FAILED|failed|panicked|^error" | awk '/^test result/ {p+=$4; f+=$6} !/^test result/ {print} END {print "passed",p,"failed",f}')
echo "$R"
if echo "$R" | grep -q "passed 382 failed 0"; then
  git commit -qa -F "$1" && git log --oneline | head -1
else
  echo "NOT COMMITTED"; exit 1
fi
