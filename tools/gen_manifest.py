#!/usr/bin/env python3
"""Generates /verif/MANIFEST.json from the table below and validates it (and any evidence files)."""
import json, os, sys, glob

HERE = os.path.dirname(os.path.dirname(os.path.abspath(__file__)))

# id -> (category, technique, level text, level note, design ref)
CHECKS = {
 "C15": ("exploration",
         "property-based testing + exhaustive table: metamorphic renaming (token streams equal up to a consistent identifier map), independent reserved-word lists, differential execution of the renamed program",
         "A program and a consistently renamed copy are compiled for DirectX HLSL, Vulkan HLSL or Metal: every identifier to a fresh plain name; 1-3 entities onto words the target reserves (independent lists: 86 C++14 keywords, 9 Metal address-space / stage keywords, 87 HLSL reserved words; also every word x 11 entity kinds exhaustively in a fixed program); 1-3 entities onto name_N forms that collide with generated overload / template-instance names; one name shared by locals of different functions or fields of different structs. The two outputs must have identical token streams up to identifiers with a consistent per-scope identifier map, fixed identifiers unchanged, plain names verbatim, no emitted user name reserved in the target, no two entities of one scope with the same emitted name, and the renamed program must pass the C01/C02 differential executor. 9 900 cases quick, about 200 000 thorough. Also: the 96 hidden-root-name programs of C01 / C02 under the execution oracle.",
         "Reserved-word lists are limited to words every implementation of the target rejects as identifiers; builtin function names are not required to be renamed. RSSL's builtin type names are only used for variables, parameters and members (as type or function names they do not hide the builtin in RSSL itself). Namespaces are not generated.",
         "DESIGN.md section 3, C15"),
 "C03": ("exploration",
         "property-based testing + exhaustive tables: independent IR type lint of accepted programs; single injected typing violations with valid twins must be rejected",
         "Accepted programs (generated programs with implicit conversions at initialisers, assignments, arguments and returns; every 1-2 operator expression tree on int / float / mixed operands; the repository's .rssl inputs) are type checked and the resulting module is walked by an independent checker with structural types - operand classes and equality for every operator, non-const lvalues for every write, call arity / argument types / out arguments, return types, constructor slots, initialiser shapes, conditions, subscripts, dangling ids - and by RSSL's own get_type asserts. 86 kinds of single typing violations x 15 expression / 5 statement / 3 return contexts x 3 placements (exhaustive on an empty base, random inside generated programs) plus a catalogue of 10 resource-related pairs must be rejected while their valid twins are accepted. Writes through every swizzle of length 1-4 on float2/3/4 in four write positions (8 160 cases) are accepted exactly when all components exist and none repeats. 41 000 cases quick, about 400 000 thorough. Further exhaustive tables: matrix components _mRC / _RC on every matrix type (1 536 cases); 18 more injected kinds (elements of rvalues, whole const arrays, ++/-- on structs / arrays / enums, case labels).",
         "The linter models the resource-free subset; object types, intrinsic signatures and matrix aggregates are opaque (counted). Violation kinds are the ones HLSL itself rejects; break/continue outside loops are not typing and not covered. One recorded finding: KF-C03-1 (writes to constant buffer members).",
         "DESIGN.md section 3, C03"),
 "C01": ("translation_validation",
         "differential execution (property-based + exhaustive small shapes + coverage-guided libFuzzer stage in the thorough tier): interpreter of the typed IR vs an independent parser and evaluator of the emitted HLSL text",
         "Every expression tree with 1-2 (quick) / 1-3 (thorough) operator nodes over the whole operator table on int, float and mixed int/float/uint/bool operands, and generated whole programs of the executable resource-free subset, are compiled for DirectX and Vulkan HLSL. The typed IR is run by an interpreter (RSSL's semantics) and the emitted text is parsed by an independent C-like parser and run by an evaluator with HLSL's rules (literal typing, usual arithmetic conversions, copy-in/copy-out) on 3 boundary argument vectors per function; return value, out/inout parameters and static globals are compared bit-exactly. An exhaustive aliasing table (parameter modes x two-statement bodies x arguments drawn from two locals and a static) covers copy-in / copy-out when arguments alias. Every operator tree is additionally run on 8 crafted operand rows (cancellation, absorption, overflow, INT_MIN / -1, shift counts of 32). Generated programs include struct methods, nested namespaces and implicit conversions. 73 000 programs quick, about 1.2 M thorough, followed by a 300 s libFuzzer campaign over mutated generated programs with the same differential oracle in the target. Tables added after the seeding rounds: multi-dimensional array parameter copies, aggregate-to-scalar casts, one-element vectors, names of the root scope named with :: where a namespace / struct / function declares the same name (96 programs), a static of a namespace next to a local of the same plain name.",
         "Per-program validation by execution on sampled argument vectors, not a proof of equivalence. Trusted: harness/src/irsem.rs, ctext.rs, csem.rs and the shared value library vals.rs (which fixes one meaning for operations HLSL leaves undefined). Matrices and resources are outside the executable subset.",
         "DESIGN.md section 3, C01"),
 "C02": ("translation_validation",
         "differential execution (property-based + exhaustive small shapes + coverage-guided libFuzzer stage in the thorough tier): interpreter of the typed IR vs an independent parser and evaluator of the emitted Metal text under C++ rules",
         "As C01 for the Metal target: reference parameters alias, calls must match a declared function by arity and tag type, brace initialisation zero-fills, metal:: builtins are mapped by a per-dialect table, implicit parameters for static globals are bound by name and their final values compared with the interpreter's globals, out/inout parameters go through the emitted trampolines. Text that is not meaningful as C++ is a violation. The aliasing table and the crafted operand rows of C01 are run for Metal as well. 49 000 programs quick, about 0.9 M thorough, followed by a 300 s libFuzzer campaign over mutated generated programs with the same differential oracle in the target. Tables added after the seeding rounds: as C01, plus struct-to-base conversions incl. members whose names Metal reserves.",
         "Per-program validation by execution on sampled argument vectors. Static globals are initialised by a pipeline entry point that no-pipeline mode does not emit, so their initial values come from the IR..",
         "DESIGN.md section 3, C02"),
 "C12": ("exploration",
         "property-based testing against a reference C macro expander (hide sets) + metamorphic relations (include pasting, define placement)",
         "Random macro programs (1-6 object- and function-like macros with 0-3 parameters, self- and mutually-referential bodies, ## pastes, nested invocations in arguments, parenthesised commas, invocations spanning lines, redefinitions and #undef between sites) are preprocessed and the resulting token sequence is compared with a reference expander implementing C's rescanning rules with hide sets; include graphs of 2-5 files with and without #pragma once must equal the text with the includes pasted in place; every split of 1-4 defines between API defines and #define lines must give the same tokens. 60 000 cases quick, 1.4 M thorough. Also: redefinitions with another kind or parameter count, with and without #undef (108 cases).",
         "Trusted: the reference expander in harness/src/c12.rs. Function-like macro names always carry a complete argument list (bare names next to parentheses are where the recorded deviation KF-C12-1 lives); inputs whose expansion explodes under KF-C12-1 are predicted with a model of the deviation and excluded (counted).",
         "DESIGN.md section 3, C12"),
 "C09": ("exploration",
         "exhaustive enumeration (depth-2 operator pairs) + property-based testing + coverage-guided libFuzzer stage in the thorough tier: print/parse round-trip",
         "Syntax trees are produced by parsing explicitly grouped text, so every tree shape over the operator set is reachable: all 3 300 (outer, inner, side) operator combinations at depth 2 exhaustively, random expression trees to depth 6 over every unary/binary/ternary/postfix/call/template-call/cast/subscript/member/sizeof/constructor node and 37 literal spellings in 6 syntactic positions, whole generated programs, the repository's inputs, and the exporters' own output. Each tree is printed for HLSL and for MSL, parsed again and compared with the original after removing locations. 45 000 trees quick, 1.1 M thorough, followed by a 300 s libFuzzer campaign with the round trip as oracle in the target. Also: declarator lists (12 declarator forms, singles, ordered pairs and triples, in 5 places: 1 500 cases).",
         "Trees come from the parser (a shape the parser cannot build, such as a negative literal node, is not covered). Unprintable (ambiguous) trees are counted and skipped. One recorded finding: KF-C09-1 (shared root cause with KF-C04-1).",
         "DESIGN.md section 3, C09"),
 "C08": ("exploration",
         "property-based testing under supervised worker processes (panic, process death, CPU budget) + coverage-guided libFuzzer campaign in the thorough tier",
         "Byte strings, token soups, bracket soups, nested parentheses / blocks / cast-like prefixes, generated programs (valid and with 1-3 structural mutations incl. extreme literals and unterminated constructs), mutated copies of the repository's own inputs and a 45-entry catalogue of unsupported or unusual constructs (also crossed with API defines) are compiled for 5 targets x {all, named, no-pipeline} x layout validation x API defines inside supervised worker processes. A panic (caught, keyed by source file + message), a dead worker (stack overflow, abort), an empty diagnostic or CPU time beyond 2 s per 4 KB (re-run alone before reporting) is a violation. Constant expressions with boundary operands in six constant positions and every binary operator on every pair of 45 boundary constants (73 000 programs, exhaustive) exercise the folding paths. 147 000 inputs quick, 1.8 M thorough, followed by a 600 s libFuzzer campaign (fork mode, all cores) whose artifacts are judged again by this check. Tables added after the seeding rounds: renamed programs and reserved names next to generated ones, 40 array size expressions x 13 places, 49 self-referential definitions, 11 bind group values x 4 spellings x 7 entities; time-budget failures are reported without shrinking.",
         "Built with debug assertions and overflow checks on (as the repository's cargo test). One recorded finding: KF-C08-1 (slot arithmetic overflow for gigantic resource arrays). Inputs above about 6 KB and memory exhaustion are not explored.",
         "DESIGN.md section 3, C08"),
 "C05": ("exploration",
         "property-based testing: metadata vs annotations parsed back from the emitted text, reachability model for is_used",
         "Generated programs with 1-10 bound globals of every object kind, arrays, bindless and unbounded arrays, explicit groups in three spellings, names that are reserved in a target language, reader call graphs and 1-3 pipelines are compiled for four target configurations in all / named / no-pipeline mode. The emitted text is scanned for register / vk::binding / vk::offset / [[id]] annotations, entry points and numthreads, and compared in both directions with the metadata (name, group, slot or inline offset, descriptor type via a per-dialect table, count, bindless and static-sampler flags, inline blocks, stage entry points and thread-group sizes); is_used is compared with reachability over the source call graph. 5 000 cases quick, 100 000 thorough. The stage properties of Pipeline blocks come in both orders; the function reported for a stage must be the one the block names for that stage.",
         "Trusted: the line-oriented annotation scanner and the type tables in harness/src/c05.rs; reachability comes from the generator. Metal without a pipeline emits no argument buffers (counted, not compared). One recorded finding: KF-C05-1 (unbounded arrays).",
         "DESIGN.md section 3, C05"),
 "C14": ("exploration",
         "property-based testing: metamorphic relations (trivia insertion, k-line shifts)",
         "Generated programs - accepted, or rejected through one injected error (incl. errors inside a macro expansion and inside an included file) - are re-compiled under 6 random trivia variants (blanks, tabs, LF/CRLF, line and block comments, backslash splices at every blank/newline and around brackets, semicolons and commas; never after < or >, never inside a #define's name/parameter adjacency) and, for located diagnostics, with k in {1,2,7,50} blank / comment / CRLF lines at the top of the file holding the error and in other files. Outputs, metadata and verdicts must not change; diagnostics keep file, column and message and move by exactly k lines. 3 000 base programs quick (about 20 compilations each), 60 000 thorough. Base programs carry #if / #elif conditions over macros; directive lines get comments between their tokens and trivia in front of the line break.",
         "Insertion points are the existing blanks/newlines of the generator's own rendering plus non-merging punctuation, so token boundaries are known by construction. The base message is compared after the file:line:col prefix.",
         "DESIGN.md section 3, C14"),
 "C07": ("exploration",
         "property-based testing: repeated evaluation in one process and in 8 fresh processes (hash-seed schedules)",
         "Generated inputs sized so that every hash-ordered collection in the anchored passes has several elements (resources over several bind groups incl. buffer addresses, several statics per function for Metal's implicit parameters, names colliding with generated _N suffixes, include graphs with #pragma once, rejected variants) are compiled 4 times in one process - every compile creates fresh HashMaps with fresh seeds - and once in each of 8 freshly spawned worker processes; the complete result (sources, stages, metadata, state or diagnostic) must be identical. A dedicated part declares overload sets of one name (also reserved words) at global scope and in sibling / nested namespaces, so that several scopes need generated names from one base. 2 100 inputs x 4 in-process + 400 inputs x 8 processes quick; 55 000 + 6 000 x 8 thorough. Also: history independence (A, a broken copy of A, A again on one thread, interleaved with another program).",
         "Assumes hash seeds are the only schedule (no clock, thread, address or environment dependence was found by reading). Deleting any of the four sorts named in the property is detected within the quick tier.",
         "DESIGN.md section 3, C07"),
 "C17": ("exploration",
         "property-based testing: metamorphic relations over pipeline requests (all / by name / alone)",
         "Generated files with 0-4 pipelines (compute, vertex+pixel, mesh+pixel, task+mesh; prefix-related names; shared readers, resources, statics; different default bind groups) are compiled for a random target under the requests all / each name / unknown name / no-pipeline mode. One result per definition in order, by-name equals the element of the whole-file result, unknown name and empty files fail with the documented message, and each pipeline's full snapshot (source, stages, metadata, state or diagnostic) equals the one obtained from the file with all other Pipeline blocks deleted. 2 400 files quick, 60 000 thorough. Pipelines may share the entry points of an earlier pipeline and declare their stages in either order.",
         "A pipeline rejected by a back-end diagnostic must be rejected identically in every request; front-end rejections are skipped and counted. 'Other pipelines absent' is modelled by deleting the Pipeline blocks, keeping their entry functions.",
         "DESIGN.md section 3, C17"),
 "C18": ("exploration",
         "property-based testing: cross-target differential relations",
         "Generated programs with resources of every kind and 1-3 pipelines, accepted or carrying one injected front-end error, are compiled for DirectX, Vulkan, Vulkan with buffer addresses and Metal. Front-end diagnostics must be identical strings on all targets, DirectX and Vulkan must succeed or fail together with texts equal up to binding/attribute annotations, and all successful targets must report the same stages, thread-group sizes, pipeline state and binding name/type/count sets (static samplers and buffer addresses aside). Includes inputs that test __HLSL_VERSION and defined(RSSL_TARGET_*). 3 000 programs x 4 targets quick, 80 000 thorough. The scene generator also declares empty cbuffers.",
         "Back-end diagnostics are recognised by their 'hlsl generate/format' / 'metal generate/format' prefix.",
         "DESIGN.md section 3, C18"),
 "C04": ("exploration",
         "property-based testing + coverage-guided libFuzzer stage in the thorough tier: round-trip (compile o compile fixpoint) over generated programs and the third-party corpus",
         "For every generated program (typed generator over structs, enums, templates, overloads, statics, arrays, all statement and operator forms) and every one of the 31 third-party corpus entry points, the emitted DirectX HLSL is compiled again: it must be accepted, reproduce itself byte for byte and keep every binding. 7 000 programs quick, 160 000 thorough, followed by a 300 s libFuzzer campaign with the fixpoint oracle in the target; failures of the generated parts are shrunk on the generator's choice sequence. Also: 10 kinds of entity declared inside a namespace of depth 1 or 2 x 5 places they are named from (100 programs).",
         "Programs rejected by the front end are skipped and counted. One recorded finding (KF-C04-1, template-call ambiguity of `a < b && c > (d)`) is suppressed by signature.",
         "DESIGN.md section 3, C04"),
 "C06": ("exploration",
         "exhaustive enumeration + property-based testing against a reference allocator model",
         "Every sequence of up to 3 (quick) / 4 (thorough) global declarations over a 32-symbol alphabet (8 resource kind classes x array or not x explicit group or not) is compiled for DirectX, Vulkan, Vulkan with buffer addresses and Metal, in no-pipeline mode and with DefaultBindGroup 0 and 1; random sequences of 1-24 declarations cover the full alphabet (16 kinds, lengths 1-3, groups 0-2 in four spellings, default groups 0-2). The returned metadata must equal a reference bump allocator and, independently of the model, the slot ranges of each group must be disjoint and gap-free from zero. Exhaustive within the stated length; sampled beyond. Arrays are also spelled through typedefs of the array type and of the element type.",
         "Trusted: the reference allocator in harness/src/c06.rs. The property's exhaustive bound (length 6 over the full alphabet) is far larger than what is enumerated; arrays of buffer addresses and unbounded arrays are outside the property and not generated.",
         "DESIGN.md section 3, C06"),
 "C16": ("exploration",
         "property-based testing: permutation metamorphic relation + rank-table oracle",
         "Random sets of 2-5 overloads (1-3 parameters over six scalars x four widths x in/out/inout, each returning a distinct struct) are compiled under every permutation of their declaration order (up to 120) with random argument tuples (lvalues, rvalues, untyped literals); the selected overload is read from the assert_type diagnostic. The outcome must be identical for all permutations, a unique exact match must win, the winner must be viable and not dominated under the documented rank table, and a sole viable candidate must be selected. 6 000 sets quick, 150 000 thorough. Also: all pairs of one-parameter candidates over 24 value types x 26 argument forms (a third per quick run, all in the thorough tier); with a single argument a better numeric rank dominates.",
         "Trusted: the rank table restated from the documentation comment of typer/src/casting.rs and RSSL's rule that out/inout needs an lvalue of exactly the parameter type. Dominance uses the product order (weakest reading).",
         "DESIGN.md section 3, C16"),
 "C13": ("exploration",
         "property-based testing against a reference constant evaluator",
         "Random constant expression trees (depth 5, boundary operands in every scalar type, untyped literals, enum values, casts, sizeof) are evaluated by the compiler - the value is read from the diagnostic of a failing assert_eval and from the emitted HLSL for static const / const local / array size / enum value + successor / case label / template argument / numthreads - and compared (type and value) with a reference evaluator: exact i128 for literals, wrapping 32-bit for int/uint, masked shift counts, C logic, HLSL casts. Declining to fold is allowed; division by zero must be declined; any panic is a violation. 30 000 expressions x up to 17 compilations quick, 1 M thorough.",
         "Trusted: the reference evaluator and RSSL's operand-typing order as restated in harness/src/c13.rs. Results HLSL leaves open (out-of-range float->int, INT_MIN / -1) are only checked for no abort. half is held in single precision as the compiler does.",
         "DESIGN.md section 3, C13"),
 "C10": ("exploration",
         "property-based testing + coverage-guided libFuzzer stage in the thorough tier: span-tiling invariant, exact u128 integer oracle, correctly-rounded float oracle (Rust str::parse), output round-trip",
         "Random token soups with every trivia kind (comments, CRLF, backslash splices) are lexed and the token spans must tile the input exactly, with separated pieces coming back one token each and error positions inside the file; integer spellings (dec/hex/octal x suffixes, biased to 2^31..2^64+1, up to 25 digits) must carry their exact value or be rejected when >= 2^64; float spellings (<= 20 significant digits, exponents -330..310, every suffix) must have the bits of the correctly rounded double (narrowed once for f/h); each literal compiled into `T f(){return lit;}` must re-read from the emitted HLSL with the same value and type. About 1 M cases quick, 19 M thorough, followed by a 300 s libFuzzer campaign with the tiling oracle in the target.",
         "Trusted: Rust's str::parse::<f64>/<f32> are correctly rounded. L-suffixed integers in [2^63,2^64) and the 0X prefix are outside the checked domain.",
         "DESIGN.md section 3, C10"),
 "C19": ("exploration",
         "property-based testing against two independent layout calculators",
         "Random struct definitions (nesting <= 3, scalars/vectors/enums/arrays/nested structs) used through every buffer element position are compiled with layout validation on; accept => the harness-computed HLSL and Metal layouts (size and every leaf offset) are identical; reject => the reported sizes/offsets equal the harness-computed ones. 40 000 (quick) / 1 000 000 (thorough) generated programs, shrunk on failure. Buffers are also declared as arrays (one and two dimensions, through typedefs).",
         "Trusted: the HLSL structured-buffer and Metal layout calculators in harness/src/c19.rs, written from the rule set in the property (half=2 bytes, double=8 bytes on both sides).",
         "DESIGN.md section 3, C19"),
 "C11": ("exploration",
         "exhaustive enumeration + property-based testing against a reference model",
         "Every directive sequence over the 12-symbol alphabet up to length 6 (quick) / 8 (thorough) is enumerated and compared with a reference conditional-inclusion automaton; random longer sequences over an extended alphabet (#undef, #include, #pragma once) and random condition expressions (depth 5) are compared with a reference u64 evaluator with textual macro substitution. Exhaustive within the stated length, sampled beyond it.",
         "Trusted: the reference automaton/evaluator in harness/src/c11.rs (written from the C rules). #elif/#else after #else is outside the property and only checked for no-panic. Length 9 of the property's quantifier is covered by sampling only.",
         "DESIGN.md section 3, C11"),
}

NOT_YET = {
}

ALL = ["C%02d" % i for i in range(1, 20)]

def main():
    checks = []
    for pid in ALL:
        if pid not in CHECKS:
            continue
        cat, tech, text, note, ref = CHECKS[pid]
        checks.append({
            "property_id": pid,
            "quick_cmd": "./check %s --tier quick" % pid,
            "thorough_cmd": "./check %s --tier thorough" % pid,
            "evidence_file": "evidence/%s.json" % pid,
            "replay_cmd_template": "./check %s --replay {path}" % pid,
            "engine": "rssl-verif",
            "level_claimed": {"category": cat, "text": text, "design_ref": ref},
            "level_note": note,
            "technique": tech,
        })
    na = []
    for pid in ALL:
        if pid not in CHECKS:
            na.append({"property_id": pid, "reason": NOT_YET.get(pid, "check not built yet in this round (planned in DESIGN.md); not claimed until its harness module exists and is silent on the unchanged tree")})
    manifest = {
        "version": 1,
        "setup_cmd": "cd harness && CARGO_NET_OFFLINE=true cargo build --release --offline",
        "hooks": {
            "guard": "rssl_verif",
            "enable": "none needed: no hook code exists in /repo; the harness evaluates the emitted text with its own parser, so checks build /repo as it is",
            "baseline_off_cmd": "cd /repo && cargo test --workspace --no-fail-fast --offline",
            "source_commits": [],
            "add_only": True,
        },
        "engines": [
            {"name": "rssl-verif", "path": "harness", "serves_properties": sorted(CHECKS.keys()),
             "kind_free_text": "Rust crate (proptest 1.11 runners, exhaustive enumerators, reference models) linked against the /repo crates by path; rebuilt from /repo's working tree by ./check before every run"},
        ],
        "checks": checks,
        "not_applicable": na,
        "notes": "All checks: ./check <id> --tier quick|thorough; exit 0 held, 1 VIOLATION line, 2 infrastructure problem. VERIF_SEED selects the PRNG seed (default 1). Known findings: known_findings.json.",
    }
    with open(os.path.join(HERE, "MANIFEST.json"), "w") as f:
        json.dump(manifest, f, indent=1)
        f.write("\n")
    try:
        import jsonschema
    except ImportError:
        print("jsonschema not available; skipped validation")
        return
    schema = json.load(open("/root/.vp/MANIFEST.schema.json"))
    jsonschema.validate(manifest, schema)
    es = json.load(open("/root/.vp/EVIDENCE.schema.json"))
    for p in sorted(glob.glob(os.path.join(HERE, "evidence", "*.json"))):
        jsonschema.validate(json.load(open(p)), es)
        print("valid evidence", os.path.basename(p))
    print("MANIFEST.json valid:", len(checks), "checks,", len(na), "not claimed")

if __name__ == "__main__":
    main()
