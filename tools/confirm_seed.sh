#!/bin/bash
# tools/confirm_seed.sh <id> : confirm a sub-agent's seeded change in its scratch worktree /tmp/seed_<id>
#   1. clean tree + patch builds and the full suite passes (382/0)
#   2. the demonstration test fails with the patch and passes without it
# prints a one-line JSON summary; leaves the worktree clean
set -u
id=$1; prefix=${2:-seed}
wt=/tmp/${prefix}_$id
out=/tmp/${prefix}_${id}_out
cd "$wt" || exit 2
git checkout -q -- . ; git clean -fdq -e target
git apply "$out/patch.diff" || { echo "{\"id\":\"$id\",\"error\":\"patch does not apply\"}"; exit 1; }
export CARGO_NET_OFFLINE=true
R=$(timeout 3000 cargo test --workspace --no-fail-fast --offline 2>&1 | awk '/^test result/ {p+=$4; f+=$6} END {print p, f}')
passed=${R% *}; failed=${R#* }
cp "$out/seeded_demo.rs" tests/seeded_demo.rs
timeout 1200 cargo test --offline --test seeded_demo > "$out/confirm_with.log" 2>&1; with=$?
git checkout -q -- . 
timeout 1200 cargo test --offline --test seeded_demo > "$out/confirm_without.log" 2>&1; without=$?
rm -f tests/seeded_demo.rs
echo "{\"id\":\"$id\",\"tests_passed\":$passed,\"tests_failed\":$failed,\"demo_exit_with_patch\":$with,\"demo_exit_without_patch\":$without}"
