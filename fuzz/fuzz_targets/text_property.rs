//! One libFuzzer target for the properties whose inputs are a source text: the property is chosen by the environment
//! variable VERIF_FUZZ_PROPERTY (C01, C02, C04, C09, C10). The bytes are the text (lossy UTF-8); the oracle is the
//! `check_record` of that property from the harness library, i.e. exactly what the check applies to its own generated
//! cases (differential execution for C01 / C02, fixpoint for C04, print-parse round trip for C09, token tiling for C10).
//! A failing verdict aborts the process unless it matches a known finding of /verif/known_findings.json.
#![no_main]

use libfuzzer_sys::fuzz_target;
use rssl_verif::common::{load_known_findings, KnownFinding, Verdict};
use serde_json::{json, Value};
use std::sync::OnceLock;

struct Setup {
    property: String,
    known: Vec<KnownFinding>,
}

static SETUP: OnceLock<Setup> = OnceLock::new();

fn record(property: &str, text: &str) -> Value {
    match property {
        "C01" => json!({"source": text, "target": "dx", "arg_seed": 1}),
        "C02" => json!({"source": text, "target": "msl", "arg_seed": 1}),
        "C04" => json!({"kind": "generated", "source": text}),
        "C09" => json!({"kind": "text", "text": text}),
        _ => json!({"kind": "soup", "foreign": true, "text": text}),
    }
}

fuzz_target!(|data: &[u8]| {
    let setup = SETUP.get_or_init(|| {
        let property = std::env::var("VERIF_FUZZ_PROPERTY").unwrap_or_else(|_| "C09".into());
        rssl_verif::common::install_panic_hook();
        Setup { known: load_known_findings(&property), property }
    });
    let text = String::from_utf8_lossy(data).to_string();
    let rec = record(&setup.property, &text);
    let verdict = match setup.property.as_str() {
        "C01" => rssl_verif::c01::check_record(&rec),
        "C02" => rssl_verif::c02::check_record(&rec),
        "C04" => rssl_verif::c04::check_record(&rec),
        "C09" => rssl_verif::c09::check_record(&rec),
        _ => rssl_verif::c10::check_record(&rec),
    };
    if let Verdict::Fail { signature, .. } = verdict {
        if setup.known.iter().any(|k| k.matches(&signature, &rec)) {
            return;
        }
        eprintln!("VERIF-FUZZ {} {}", setup.property, signature);
        std::process::abort();
    }
});
