//! C08 under coverage guidance: `rssl::compile` is total. The first byte of the input selects the target, the pipeline
//! mode and layout validation; the rest is the source text. Oracle inside the target: the call returns (a result, or an
//! error that renders to a non-empty string). A panic aborts the process (libFuzzer records the input) unless its
//! message is one of the known findings of /verif/known_findings.json (property C08), which would otherwise be
//! rediscovered forever; VERIF_FUZZ_STRICT=1 (replay of saved inputs) tolerates nothing.
#![no_main]

use libfuzzer_sys::fuzz_target;
use rssl::text::{FileData, IncludeError, IncludeHandler};
use std::sync::Once;

struct Files(String);

impl IncludeHandler for Files {
    fn load(&mut self, file_name: &str, _parent: &str) -> Result<FileData, IncludeError> {
        match file_name {
            "main.rssl" => Ok(FileData { real_name: "main.rssl".into(), contents: self.0.clone() }),
            "inc.h" => Ok(FileData { real_name: "inc.h".into(), contents: "#pragma once\nint included_fn(int a) { return a; }\n".into() }),
            _ => Err(IncludeError::FileNotFound),
        }
    }
}

/// substrings of the panic messages behind the known findings KF-C08-1, -2, -5, -7, -9, -10
const KNOWN: &[&str] = &[
    "with overflow",
    "invalid msl",
    "default template arguments not implemented",
    "Non-type template arguments",
    "not yet implemented: RootDefinition::StructTemplate",
    "not yet implemented: Inherited methods are not implemented",
];

static HOOK: Once = Once::new();

fuzz_target!(|data: &[u8]| {
    HOOK.call_once(|| {
        // the message is taken from the payload below; keep the default hook quiet
        std::panic::set_hook(Box::new(|_| {}));
    });
    if data.is_empty() {
        return;
    }
    let cfg = data[0];
    let text = String::from_utf8_lossy(&data[1..]).to_string();
    let result = std::panic::catch_unwind(|| {
        let mut files = Files(text);
        let target = match cfg & 3 {
            0 => rssl::Target::HlslForDirectX,
            1 | 2 => rssl::Target::HlslForVulkan,
            _ => rssl::Target::Msl,
        };
        let mut args = rssl::CompileArgs::new("main.rssl", &mut files, target);
        if cfg & 3 == 2 {
            args = args.support_buffer_address(true);
        }
        if cfg & 4 != 0 {
            args = args.no_pipeline_mode();
        }
        if cfg & 8 != 0 {
            args = args.validate_layout_consistency(true);
        }
        match rssl::compile(args) {
            Ok(_) => true,
            Err(e) => !e.to_string().trim().is_empty(),
        }
    });
    match result {
        Ok(true) => {}
        Ok(false) => {
            eprintln!("VERIF-FUZZ empty diagnostic");
            std::process::abort();
        }
        Err(payload) => {
            let msg = payload.downcast_ref::<String>().cloned().or_else(|| payload.downcast_ref::<&str>().map(|s| s.to_string())).unwrap_or_default();
            let strict = std::env::var("VERIF_FUZZ_STRICT").is_ok();
            if !strict && KNOWN.iter().any(|k| msg.contains(k)) {
                return;
            }
            eprintln!("VERIF-FUZZ panic: {}", msg);
            std::process::abort();
        }
    }
});
